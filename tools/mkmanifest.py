#!/usr/bin/env python3
"""Regenerates /verif/MANIFEST.json from the table below (kept valid at all times)."""
import json, os

ENV = "GOFLAGS=-mod=mod GOPROXY=off GOSUMDB=off GOTOOLCHAIN=local"

CHECKS = {
 "C13": dict(
   category="exploration",
   technique="bounded exhaustive enumeration of the type grammar (depth/chain bounds) on the real toType/printer, oracle = go/types on emitted text",
   text="Every type of the bounded grammar (18 constructors x 26 leaves to depth 2/3, chains of tricky constructors to length 4/6, special shapes, constraint-only types) is emitted by the real builder in 5-6 syntactic positions, written, re-parsed and re-checked by go/types; the denoted type must be structurally identical to the original. Complete within the bound; says nothing about deeper nesting.",
   note="Trusted: go/parser+go/types 1.23 as reader; structural canonical string (named types by path+name+targs) as cross-universe identity; fixture importer.",
   design="§4 C13"),

 "C01": dict(
   category="exploration",
   technique="bounded exhaustive enumeration of the expression grammar x use contexts on the real CodeBuilder (canonical front-end op sequence), oracle = go/parser+go/types on the files the package writes",
   text="Both configurations: after the default configuration, every single-operator expression over the 78-atom alphabet (uses `_ = e`, `x := e`) and every atom in every use context is built again in the XGo-builtin configuration (untyped big-number kinds of internal/builtin configured), same oracle. Every single-operator expression over a 78-atom alphabet, every atom/single-operator expression over an 18-atom alphabet in ~100 use contexts, and depth-2 expressions over a reduced alphabet are built into fresh packages; whenever the builder reports no error the written files must parse and type-check. 1.8M executions (quick). Complete within the stated alphabets/depth. Known accepted-but-ill-typed classes are pinned one by one (class = root construct | use | normalised go/types message) with their input counts in known/C01.<tier>.tsv; any other class or a larger count is a VIOLATION.",
   note="Trusted: go/types 1.23.5 as the specification; the fixture env package; the driver's transcription of the canonical operation sequences; the shared-builtin accelerator (self-checked against the real InitBuiltin path on a fixed slice of every run).",
   design="§4 C01"),
 "C04": dict(
   category="exploration",
   technique="bounded exhaustive enumeration of constant expressions on the real folding code, oracle = go/types constant values on the emitted text (exact comparison)",
   text="All unary/binary operators over 90 constant operands (every untyped kind, typed constants, T(min|max|0|1) for every integer type, >64-bit, fractional, 1e39/1e309), conversions to 34 types, constant-capable builtins and unsafe, depth-2 nesting over a reduced alphabet; for the root and every sub-expression the builder's value is compared with Info.Types[e].Value (presence and exact equality); constant expressions go/types rejects must not be folded. Deviations are pinned per class in known/C04.<tier>.tsv.",
   note="Trusted: go/types 1.23.5 constant arithmetic; parallel IR/syntax traversal pairs nodes only when shapes agree; untyped operands converted by their context are not compared (go/types reports the converted value).",
   design="§4 C04"),
 "C14": dict(
   category="exploration",
   technique="bounded exhaustive enumeration of types x zero-value producers on the real builder, oracle = go/types on emitted text + reported element type",
   text="Every type of the bounded grammar (depth 2 full / depth 3 reduced over 26 leaves incl. named, alias, imported with unexported fields, instantiated generics; special shapes) through the four producers of zero values (ZeroLit in a typed declaration, omitted optional argument, ReturnErr padding, T()); the emitted use must type-check, the reported type must be T, the expression must be a zero form. Complete within the bound.",
   note="Trusted: go/types 1.23.5; syntactic zero-form judgement. The inferred form `x := <zero>` is deliberately not part of this check (the property speaks of places where a value of type T is expected); reported-vs-Go types of inferred declarations are C03's business.",
   design="§4 C14"),
 "C19": dict(
   category="model_checking",
   technique="explicit-state exploration of all Set/Delete/Iterate-with-deletion sequences up to a length bound on the real typeutil.Map with hash-colliding keys, against a reference association list; plus all-pairs Identical=>Hash over a 5.7k-type universe",
   text="All operation sequences (quick: length<=4 over 7 keys and length<=5 over 5 keys; thorough: <=5 over 7 and <=6 over 4) where the keys are 3 identity classes that collide under the real hash (two distinct objects each) plus a non-colliding key; after every step At/Len/Keys/Iterate/KeysString are compared with a reference association list under types.Identical, including deletion during iteration. All ordered pairs of a 9.6k-type universe (thorough 26k; duplicated objects, permuted interfaces/unions, renamed type parameters incl. every generated generic signature of 1..3 type parameters whose constraints are plain or mention another/the same type parameter in 8 forms, each type-checked under two naming schemes; separate instantiations): Identical => equal Hash, no panic.",
   note="Trusted: types.Identical; the reference list; pointer-valued hashes of named types make only structural collisions reproducible, so colliding keys are chosen among unnamed types.",
   design="§4 C19"),
 "C12": dict(
   category="exploration",
   technique="bounded exhaustive enumeration of position-less syntax trees printed by the real forked formatter (through a verif-tagged hook) and of commented real builds; oracle = go/parser round trip + go/format fixed point + token adjacency of comments",
   text="All expression trees of operator depth<=2 over the 19 binary and 7 prefix operators, depth-3 trees over one operator per precedence/gluing class, every expression node kind in every operand slot, ~900 statement/declaration forms (every header shape, labels, type-parameter lists incl. the [P *T] ambiguity, tags, embedded fields, unions), a fixed corpus of stripped standard-library files (30 packages quick / all of GOROOT/src thorough), and 6.5k real builds attaching comments (5 shapes x 20 statement kinds x 11 containers x 3 positions x once-flag) with the front-end protocol. The printed text must parse back to the same tree (up to parentheses/positions), be a go/format fixed point, and carry each comment exactly once directly before its statement.",
   note="Trusted: go/parser, go/format, go/scanner 1.23.5; reflect-based tree comparison that ignores positions, parentheses, comments, resolution data. Trees the builder cannot hold are excluded and listed in DESIGN.md (dereference of a binary operation, bare empty statement).",
   design="§4 C12"),
 "C05": dict(
   category="exploration",
   technique="exhaustive grid over a closed universe of types and constants on the real predicates and through 10 real constructs; oracle = go/types on one-statement programs",
   text="All ordered pairs of a 62-type universe for AssignableConv/AssignableTo, ConvertibleTo and ComparableTo (both orders; symmetry), 45 boundary constants x every target type, Default for every type; then the same question through var init, assignment, argument, return, slice/array/map/struct elements, send and case clause on fresh packages (reduced grid quick, full thorough). Deviations pinned per (predicate|V|T|verdicts) in known/C05.<tier>.tsv.",
   note="Trusted: go/types 1.23.5 verdicts; default configuration only.",
   design="§4 C05"),
 "C10": dict(
   category="exploration",
   technique="bounded exhaustive enumeration of function bodies (control-flow skeletons) built on the real CodeBuilder; oracle = go/types' missing-return and label diagnostics on the reference text",
   text="1.2M bodies of func() int (quick): every statement form nested to depth 2 with one statement per inner block, all two-statement bodies of depth 1, shadowed-panic variants, a label family; only bodies whose reference text has no other go/types error are judged; the multiset of the three studied diagnostics must coincide.",
   note="Trusted: go/types 1.23.5; the statement driver (labels pre-created per function body).",
   design="§4 C10"),
 "C16": dict(
   category="model_checking",
   technique="exhaustive exploration of well-nested construct histories on the real CodeBuilder against a pushdown model of stack height / scope / function / label frames, compared after every operation",
   text="All histories nesting 19 block-forming constructs to depth 3 (4 thorough) with 0-2 simple statements around the nested construct at each level, in three current-file regimes, plus all 4^8 chains of depth 8 over one representative per context-saving mechanism: 109k histories / 11M operations (quick). After every operation the stack delta equals the documented arity; after every statement the stack is at the block's base; after every End the stack height, Scope(), Func(), InVBlock() and label visibility equal the values recorded at open; finally the package type-checks.",
   note="Trusted: the arity table embedded in the driver (documented arities); the frame model.",
   design="§4 C16"),
 "C03": dict(
   category="exploration",
   technique="bounded exhaustive enumeration of the expression grammar on the real CodeBuilder; oracle = go/types' own type of every emitted sub-expression (types.Eval, no context conversion) and Info.Defs of declared objects",
   text="Also every constant declaration group of 1..4 (5 thorough) specs over {typed, untyped, implicit repetition} with iota (6.5k groups): the scope type of every constant equals go/types'. For every accepted, well-typed program of the C01 expression space in 10 value-flow uses, every IR sub-expression is paired with the emitted syntax and the type recorded when the builder pushed it must equal the type go/types gives that syntax evaluated on its own (typed: identical; untyped: same kind); every declared object's builder-scope type must equal go/types' Info.Defs type; Recorder.Member objects must be the selected objects. Deviations pinned in known/C03.<tier>.tsv.",
   note="Trusted: go/types 1.23.5; parallel IR/syntax traversal; programs the builder accepts but go/types rejects are C01's business and skipped here.",
   design="§4 C03"),
 "C02": dict(
   category="exploration",
   technique="bounded exhaustive enumeration of valid Go programs (expression space, statement-skeleton space, template-generated statement corpus) built by the canonical operation sequences on the real CodeBuilder; oracle = go/types acceptance of the reference + equality of typed canonical forms of emitted and reference text",
   text="For every program of the three spaces whose reference rendering go/types accepts (quick: ~190k valid programs out of 2.5M enumerated), the builder must report no error, the emitted package must type-check, and the typed canonical form of the function (identifiers replaced by the identity of the object they resolve to; parentheses, import names, positions dropped; `else {if}`==`else if`, `L: ; S`==`L: S`) must equal the reference's. Deviations pinned in known/C02.<tier>.tsv.",
   note="Trusted: go/types 1.23.5; the IR renderer and the driver (a wrong transcription shows up as a disagreement and is fixed in the driver, never listed as a finding); canonical-form normalisations listed above.",
   design="§4 C02"),
 "C17": dict(
   category="exploration",
   technique="bounded exhaustive enumeration of arity-correct operation applications x operand kinds, of the whole expression space under every optional-configuration variant, and of an extremes table, on the real builder under a time/memory watchdog; oracle = class of the recovered panic value",
   text="~110 operations x all combinations of 16 operand kinds (1-3 operands), the 1.8M-program expression space, the single-operator space under 6 configuration variants (no recorder, no interpreter, nil HandleErr, NoSkipConstant, ...), and 70 extreme inputs (shift counts up to 2^64, 10^4-digit literals, 1e100000, 10^4-deep nesting, 10^4 arguments/cases/fields/statements). No recovered panic may be a runtime.Error; every execution finishes within 20 s / 3 GiB. Known faults pinned per (stage:site|fault@function) in known/C17.<tier>.tsv.",
   note="Trusted: the classification runtime.Error vs reported error; the watchdog limits (two orders of magnitude above legitimate executions). 'Time and memory proportional to input size' is decided only in this bounded form.",
   design="§4 C17"),
 "C08": dict(
   category="exploration",
   technique="bounded exhaustive enumeration of struct/method type graphs x selectors x operand forms on the real Member/MemberRef code; oracle = go/types Selections on a reference program and on the emitted text",
   text="85k type graphs (quick; all ~1M thorough) over four local structs, an imported struct with unexported members and an imported struct that promotes an exported field and method through an unexported embedded type (value/pointer embedding, colliding names at equal and different depths, value/pointer receivers), 6-9 selector names x 9 operand forms each (4.6M lookups): acceptance, member kind, reported type, Recorder.Member object owner and the member the emitted text selects must coincide with go/types. Deviations pinned per (kind|form|selector|embedding skeleton) with counts.",
   note="Trusted: go/types 1.23.5 lookup; member identity across universes by owner type name + member name + type.",
   design="§4 C08"),
 "C09": dict(
   category="model_checking",
   technique="explicit-state exploration of all import/reference/declare/discard/force/switch-file/write histories up to a length bound on the real package, against a reference model of per-file reference sets; oracle = go/types name resolution on the emitted files",
   text="All histories of length <=5 over a 21-operation alphabet on a two-file package (3.98M histories, 10.5k distinct model states, 19.7M replayed transitions); thorough adds all histories of length <=4 over the 40-operation alphabet (6.3M histories, 21.1k model states, 28.9M transitions). After each history every file is written twice; import specs must equal referenced ∪ forced, local names must be unique and differ from package-level identifiers, every planted reference must resolve (Info.Uses) to the intended path, the package must type-check, the second write must be byte-identical. Write is itself an operation, so name fixing and dirty-flag handling are explored in every position.",
   note="Trusted: go/types 1.23.5; the reference model of the history; histories the builder rejects (redeclarations) are pruned.",
   design="§4 C09"),
 "C15": dict(
   category="model_checking",
   technique="choice-point DFS (deviation-bounded, with replay) over the iteration order of every map range the library executes, via a mechanical source rewrite in the build overlay; oracle = byte equality with the default-order execution + a second-process digest",
   text="For 6 histories (imports in two files, five blank imports made in three ways next to named ones, XGo dependency marker, overload families/methods/named types, labels, builtin tables) every permutation of every reached map range (all n! for n<=4 quick / n<=8 thorough) is explored with up to 2 (3) simultaneous deviations; every execution's files and error multiset must equal the baseline; baseline digests are recomputed in a second process. The rewrite is regenerated from /repo on every run, so new map ranges are picked up automatically (listed in evidence).",
   note="Trusted: the overlay rewrite (every explored order is a legal Go iteration order); absence of other nondeterminism sources on output paths.",
   design="§4 C15"),
 "C06": dict(
   category="exploration",
   technique="bounded exhaustive enumeration of overload families (generated fixture packages) x argument lists on the real candidate loop; oracle = go/types applicability of each candidate on reference text, emitted callee/arguments",
   text="All ordered selections of 1..3 distinct parameter shapes out of 19 (plain Go types, variadics, function types, a named type with an implicit W_Init conversion, two generic shapes) as package functions (7k families), 1..2 (3 thorough) out of 17 as value-receiver methods, pointer-receiver methods and interface methods, x 94 argument lists (0-2 arguments over 9 atoms incl. nil, a generic function value, a spread and a tuple call): 662k calls. The builder must pick the lowest-indexed candidate go/types accepts (emitted callee name, Recorder.Call object), reject when none applies, emit the arguments unchanged (no residue), report the candidate's result type; the emitted package must type-check.",
   note="Trusted: go/types 1.23.5 call rules. Not covered: overloaded named types (_Cast) and overloaded operators, whose meaning is not plain Go (no go/types reference); stated in DESIGN.md.",
   design="§4 C06"),
 "C07": dict(
   category="exploration",
   technique="bounded exhaustive enumeration of generic signatures (generated fixture packages) x explicit type-argument prefixes x argument lists x use modes on the real inference adapter; oracle = go/types verdict and Info.Instances on reference and emitted text",
   text="216 one-type-parameter signatures (6 constraints x 1-2 parameter shapes over T, []T, *T, map[string]T, map[T]int, func(T) T, func() T, Box[T], chan T, [2]T, ...T; all 11x11 pairs thorough) and 21 hand-written 2-3 type-parameter signatures (core-type, pointer-method, un-inferable, reordered); x every explicit prefix of length 0..n+1 over a type alphabet x every argument list of the arity over 25 atoms (untyped constants, nil, 17 typed variables, two generic function values; spreads for variadics) x 4 modes (call, assign to func variable, reference, XGox_ leading type arguments) + generic type instantiation through Index and Package.Instantiate: 5.5M uses. Accept/reject must equal go/types; the type arguments recorded by go/types for the emitted callee must equal those of the reference text; builder-reported result type / instantiated signature must equal go/types'.",
   note="Trusted: go/types 1.23.5 inference as reference. Rejected uses are re-built in a second package without them before printing (a rejected declaration may leave a half-built statement).",
   design="§4 C07"),
 "C11": dict(
   category="exploration",
   technique="bounded exhaustive enumeration of per-extension tables on the real CodeBuilder; oracle = go/types verdict on a reference lowering written as plain Go + equality of typed canonical forms (alpha-renamed) of emitted and reference function",
   text="Eight tables, 10.8k rows quick: every builtin-type method (transcribed table) x 25 receivers x documented arity, arity-1, arity+1 x exact/alias/auto-property; member chains of depth 1-2 (3 thorough) on 8 receivers in 17 statement positions incl. every header kind; T(b) for 20 types x 6 boolean operands and T() for 22 types in 3 typing contexts; 138 optional-parameter signatures (positional^i optional^j [variadic], own package and imported) x 0..i+j+2 arguments + documented order rejections; method alias / auto-property on value, pointer, interface and non-addressable receivers, own-package exact-vs-alias precedence; 13 enumerator types (Next-style 1/2 values, XGo_Enum/Gop_Enum, value/pointer, func(yield) with 0..2 values, malformed) x 11 variable lists x 5 bodies; inline closures for 8 signatures x side-effect-free / side-effecting operands x plain / early return x 0..2 variadic arguments; big literals +-(2^k+-1), p/q and folded + - * / on pairs (XGo configuration, declarations taken from internal/builtin/big.go of the tree). The builder accepts iff go/types accepts the reference lowering; accepted rows must print, type-check and equal the reference (or a listed equivalent placement) in canonical form.",
   note="Trusted: the reference lowerings (harness transcription of the documented desugarings), go/types 1.23.5. Stubs stand in for strings/strconv/math/big signatures. Tuple casts and XGo_Rcast are not covered.",
   design="§4 C11"),
 "C18": dict(
   category="model_checking",
   technique="stateless exploration of thread interleavings on the real code under a cooperative scheduler (scheduling point at the entry of every library function that refers to a package-level variable, inserted mechanically in the build overlay), preemption-bounded DFS with replay; plus a deep fingerprint of all shared state before/after every execution and a separate free-running race-detector pass",
   text="12 programs (slices of the eight C11 extension tables, C10 statement bodies, an API-coverage program, a mixed program). Quick: 5-row programs, 36 ordered pairs (self, successor, mixed), every schedule with <=1 preemption: 40k schedules, 86M scheduling points. Thorough: 24 programs of 5 rows (two slices per table), every program against itself, its three successors, the API program and the mixed program with <=1 preemption, and 1-row programs against themselves and the mixed program with <=2 preemptions; stage A and the race pass use the 10-row programs. In every schedule both outputs (files and per-row verdicts) equal the sequential builds and the deep hash of everything reachable from the 95 package-level variables of the library is unchanged; every program is also built twice sequentially from a cold process and no build, the first included, may change the fingerprint. Evidence lists the exported entry points no program reaches. Free-running pass: all programs on 16 goroutines under -race, from a cold process and warm (640 builds quick), outputs compared with sequential builds.",
   note="Trusted: interference needs state reachable from a package-level variable of the library (the list and the scheduling points are generated from /repo's syntax on every run); Go memory-model effects below function granularity are left to the race detector pass, which samples schedules.",
   design="§4 C18"),
 "C20": dict(
   category="model_checking",
   technique="explicit-state breadth-first search over the states of a pure reference model of the cache, every transition (shortest history + one operation) replayed on the real cache.Impl and compared step by step; exhaustive fault enumeration on saved cache files with recover-and-compare; stateless preemption-bounded exploration of caller/fingerprint-change interleavings under a cooperative scheduler; free-running race-detector pass",
   text="Alphabet {prepare(a|b), prepare(a,b) in one listing, find(a|b), bump(a|b|d), remove-export(a), find(a) with failing / malformed listing, save+load into a fresh cache}; a imports b, b imports d, both import an unfingerprinted standard package; versions capped at 2 (thorough 3): 1.6k model states, 16k transitions, every transition replayed on the implementation (data served, error, listing count, saved file parsed by an independent parser of the documented format). The listing command is answered through a process seam of the build overlay by the same stub that is also installed as `go` on PATH; 1% of the histories are run both ways and must agree. Cache-file faults: for two saved caches (one with a 12-dependency entry) every truncation offset, every deleted/duplicated/swapped line, every tab replaced, garbage: Load fails iff the independent parser rejects, and no probe (find(p); bump(dep),find(p) for every dependency) returns data that is not current. Schedules: 5 scenarios (2 callers + a fingerprint-changing thread), scheduling points at every function of the cache package and every fingerprint call, all schedules with <=3 preemptions (thorough 4).",
   note="Trusted: the stub's model of `go list -export` (content-addressed export files), the scripted fingerprint function, the canonical state (versions, entries with file existence, saved file, dirty flag).",
   design="§4 C20"),
}

NOT_APPLICABLE = {
}

ALL = ["C%02d" % i for i in range(1, 21)]

def main():
    checks = []
    for pid in ALL:
        if pid not in CHECKS:
            continue
        c = CHECKS[pid]
        checks.append({
            "property_id": pid,
            "quick_cmd": "./check.sh %s quick" % pid,
            "thorough_cmd": "./check.sh %s thorough" % pid,
            "evidence_file": "/verif/evidence/%s.json" % pid,
            "replay_cmd_template": "./check.sh %s quick -replay {path}" % pid,
            "engine": "vcheck",
            "level_claimed": {"category": c["category"], "text": c["text"], "design_ref": c["design"]},
            "level_note": c["note"],
            "technique": c["technique"],
        })
    na = []
    for pid in ALL:
        if pid not in CHECKS:
            na.append({"property_id": pid, "reason": NOT_APPLICABLE.get(pid, "check not built yet in this session (work in progress; see DESIGN.md §8 build order)")})
    m = {
        "version": 1,
        "setup_cmd": "./setup.sh",
        "hooks": {
            "guard": "verif",
            "enable": "go build -tags verif -overlay /verif/.gen/<check>/overlay.json (overlay generated from /repo's working tree by tools/ovgen; no hook source is committed to /repo)",
            "baseline_off_cmd": "cd /repo && go test -mod=mod -vet=off -count=1 -timeout 60m ./...",
            "source_commits": [],
            "add_only": True,
        },
        "engines": [{
            "name": "vcheck", "path": "/verif/engine",
            "serves_properties": sorted(CHECKS.keys()),
            "kind_free_text": "hand-written bounded exhaustive explorers (grammar enumeration, stateless DFS with replay, explicit-state BFS, choice-point DFS over schedules/permutations/faults) driving the real gogen code; oracle go/types on emitted text or small reference models",
        }],
        "checks": checks,
        "not_applicable": na,
        "notes": "All instrumentation lives in a build overlay regenerated from /repo on every check run (tools/ovgen): verif-tagged added files + mechanical map-range rewrite. known_findings.jsonl lists genuine defects by violation class; fixed entries suppress nothing.",
    }
    with open("/verif/MANIFEST.json", "w") as f:
        json.dump(m, f, indent=1)
        f.write("\n")

if __name__ == "__main__":
    main()
