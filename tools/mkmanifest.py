#!/usr/bin/env python3
"""Regenerates /verif/MANIFEST.json from the table below (kept valid at all times)."""
import json, os

ENV = "GOFLAGS=-mod=mod GOPROXY=off GOSUMDB=off GOTOOLCHAIN=local"

CHECKS = {
 "C13": dict(
   category="exploration",
   technique="bounded exhaustive enumeration of the type grammar (depth/chain bounds) on the real toType/printer, oracle = go/types on emitted text",
   text="Every type of the bounded grammar (18 constructors x 26 leaves to depth 2/3, chains of tricky constructors to length 4/6, special shapes, constraint-only types) is emitted by the real builder in 5-6 syntactic positions, written, re-parsed and re-checked by go/types; the denoted type must be structurally identical to the original. Complete within the bound; says nothing about deeper nesting.",
   note="Trusted: go/parser+go/types 1.23 as reader; structural canonical string (named types by path+name+targs) as cross-universe identity; fixture importer.",
   design="§4 C13"),
}

NOT_APPLICABLE = {
}

ALL = ["C%02d" % i for i in range(1, 21)]

def main():
    checks = []
    for pid in ALL:
        if pid not in CHECKS:
            continue
        c = CHECKS[pid]
        checks.append({
            "property_id": pid,
            "quick_cmd": "./check.sh %s quick" % pid,
            "thorough_cmd": "./check.sh %s thorough" % pid,
            "evidence_file": "/verif/evidence/%s.json" % pid,
            "replay_cmd_template": "./check.sh %s quick -replay {path}" % pid,
            "engine": "vcheck",
            "level_claimed": {"category": c["category"], "text": c["text"], "design_ref": c["design"]},
            "level_note": c["note"],
            "technique": c["technique"],
        })
    na = []
    for pid in ALL:
        if pid not in CHECKS:
            na.append({"property_id": pid, "reason": NOT_APPLICABLE.get(pid, "check not built yet in this session (work in progress; see DESIGN.md §8 build order)")})
    m = {
        "version": 1,
        "setup_cmd": "./setup.sh",
        "hooks": {
            "guard": "verif",
            "enable": "go build -tags verif -overlay /verif/.gen/<check>/overlay.json (overlay generated from /repo's working tree by tools/ovgen; no hook source is committed to /repo)",
            "baseline_off_cmd": "cd /repo && go test -mod=mod -vet=off -count=1 -timeout 25m ./...",
            "source_commits": [],
            "add_only": True,
        },
        "engines": [{
            "name": "vcheck", "path": "/verif/engine",
            "serves_properties": sorted(CHECKS.keys()),
            "kind_free_text": "hand-written bounded exhaustive explorers (grammar enumeration, stateless DFS with replay, explicit-state BFS, choice-point DFS over schedules/permutations/faults) driving the real gogen code; oracle go/types on emitted text or small reference models",
        }],
        "checks": checks,
        "not_applicable": na,
        "notes": "All instrumentation lives in a build overlay regenerated from /repo on every check run (tools/ovgen): verif-tagged added files + mechanical map-range rewrite. known_findings.jsonl lists genuine defects by violation class; fixed entries suppress nothing.",
    }
    with open("/verif/MANIFEST.json", "w") as f:
        json.dump(m, f, indent=1)
        f.write("\n")

if __name__ == "__main__":
    main()
