#!/bin/bash
# usage: confirm_mutant.sh <ID> [demo-dir-relative-to-worktree, default .]
# Confirms, in the scratch worktree /tmp/wt/<ID>, that the seeded change (mutant/patch.diff, applied)
#  (1) compiles, (2) keeps the repository's suite green, (3) makes mutant/demo_test.go fail, and that
#  the demo passes without the change. Writes /tmp/wt/<ID>.confirm.log; then stores the artefacts in
#  /verif/seeded/<ID>/.
ID=$1; DEMODIR=${2:-.}
WT=/tmp/wt/$ID
LOG=/tmp/wt/$ID.confirm.log
exec > $LOG 2>&1
set -x
cd $WT || exit 1
[ -d mutant ] && { rm -rf /tmp/wt/$ID.mutant; mv mutant /tmp/wt/$ID.mutant; }
git status --short
export GOTOOLCHAIN=local
unset GOFLAGS
go build -mod=mod ./... && echo "CONFIRM build=ok"
cp /tmp/wt/$ID.mutant/demo_test.go $DEMODIR/zz_demo_test.go
go test -mod=mod -vet=off -count=1 -run 'Demo|demo|ZZ|C[0-9][0-9]|Tombstone' ./$DEMODIR 2>&1 | grep -E "^(--- FAIL|FAIL|ok|panic)" | head; echo "CONFIRM demo_with_change_exit=${PIPESTATUS[0]}"
# (no git stash: the stash is shared between the worktrees of one repository)
git diff > /tmp/wt/$ID.applied.diff
git apply -R /tmp/wt/$ID.applied.diff
go test -mod=mod -vet=off -count=1 -run 'Demo|demo|ZZ|C[0-9][0-9]|Tombstone' ./$DEMODIR 2>&1 | grep -E "^(--- FAIL|FAIL|ok|panic)" | head; echo "CONFIRM demo_without_change_exit=${PIPESTATUS[0]}"
git apply /tmp/wt/$ID.applied.diff
rm -f $DEMODIR/zz_demo_test.go
git status --short
go test -mod=mod -vet=off -count=1 -timeout 180m ./... 2>&1 | grep -E "^(--- FAIL|FAIL|ok|panic)" | head -20; echo "CONFIRM suite_exit=${PIPESTATUS[0]}"
mkdir -p /verif/seeded/$ID
cp /tmp/wt/$ID.mutant/patch.diff /tmp/wt/$ID.mutant/demo_test.go /tmp/wt/$ID.mutant/notes.md /verif/seeded/$ID/ 2>/dev/null
git diff > /verif/seeded/$ID/patch.diff
echo "CONFIRM done"
