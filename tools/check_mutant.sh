#!/bin/bash
# usage: check_mutant.sh <property id> <patch.diff> [quick|thorough]
# Runs a check against /repo + patch WITHOUT touching /repo: the patched tree is a scratch copy, the build
# overlay maps every /repo file that differs (and every instrumented file) onto the copy. Evidence and
# replay files go to a scratch directory; known findings and baselines are the committed ones.
set -u
ID="$1"; PATCH="$(realpath "$2")"; TIER="${3:-quick}"
export GOFLAGS=-mod=mod GOPROXY=off GOSUMDB=off GOTOOLCHAIN=local CGO_ENABLED=0
ROOT=/verif
MUT=$(mktemp -d /tmp/mutrepo.XXXXXX)
trap 'rm -rf $MUT /tmp/verif-mut-out.$$' EXIT
rsync -a --exclude .git /repo/ $MUT/
(cd $MUT && patch -p1 -s < "$PATCH") || { echo "patch does not apply" >&2; exit 2; }
GEN=$ROOT/.gen/mut-$ID
rm -rf $GEN; mkdir -p $GEN
OVFLAGS=""
[ "$ID" = "C20" ] && OVFLAGS="-yieldall packages/cache"
[ "$ID" = "C18" ] && OVFLAGS="-yields"
$ROOT/.bin/ovgen -repo $MUT -out $GEN $OVFLAGS || exit 2
python3 - "$MUT" "$GEN" <<'PY'
import json,sys,os,filecmp
mut,gen=sys.argv[1],sys.argv[2]
ov=json.load(open(gen+'/overlay.json'))['Replace']
new={}
for k,v in ov.items():
    new[k.replace(mut,'/repo',1)]=v
for d,_,fs in os.walk(mut):
    for f in fs:
        if not f.endswith('.go'): continue
        p=os.path.join(d,f); r=p.replace(mut,'/repo',1)
        if r in new: continue
        if not os.path.exists(r) or not filecmp.cmp(p,r,shallow=False):
            keep=gen+'/mut_'+r[len('/repo/'):].replace('/','_')
            open(keep,'wb').write(open(p,'rb').read())
            new[r]=keep
json.dump({'Replace':new},open(gen+'/overlay.json','w'),indent=1)
PY
cd $ROOT/engine
BIN=$ROOT/.bin/vcheck-mut-$ID
go build -tags verif -overlay $GEN/overlay.json -o $BIN ./cmd/vcheck || { echo "build failed" >&2; exit 2; }
if [ "$ID" = "C20" ]; then
  mkdir -p $ROOT/.bin/gostub-$TIER; go build -o $ROOT/.bin/gostub-$TIER/go ./cmd/gostub; export VERIF_GOSTUB_DIR=$ROOT/.bin/gostub-$TIER
fi
if [ "$ID" = "C18" ] || [ "$ID" = "C20" ]; then
  CGO_ENABLED=1 go build -race -tags verif -overlay $GEN/overlay.json -o $BIN-race ./cmd/vcheck && export VERIF_RACE_BIN=$BIN-race
fi
export VERIF_GEN=$GEN VERIF_OUT=/tmp/verif-mut-out.$$
$BIN -tier "$TIER" "$ID"
