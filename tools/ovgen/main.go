// ovgen derives the instrumentation overlay from /repo's current working tree.
//
// Nothing is committed to /repo: the checker is built with
//
//	go build -tags verif -overlay <out>/overlay.json
//
// and the overlay adds (never edits, except the mechanical map-range rewrite below)
//
//   - <pkg>/zz_verif_globals.go in every non-test package of the module: VerifGlobals() lists the
//     address of every package-level variable (complete by construction: derived from the AST);
//   - /repo/zz_verif_hooks.go in package gogen: VerifFormatNode (wrapper around the internal
//     formatter), VerifAllGlobals (aggregation over all packages);
//   - the virtual package github.com/goplus/gogen/verifrt (iteration-order control), and a
//     rewritten copy of every file that ranges over a map: `for k, v := range m` becomes
//     `for _, k := range verifrt.Keys(m) { v, ok := m[k]; if !ok { continue }; ... }`.
//     With no explorer attached verifrt.Keys returns the keys in sorted order.
package main

import (
	"bytes"
	"encoding/json"
	"flag"
	"fmt"
	"go/ast"
	"go/build"
	"go/format"
	"go/importer"
	"go/parser"
	"go/token"
	"go/types"
	"os"
	"path/filepath"
	"sort"
	"strings"
)

const modPath = "github.com/goplus/gogen"

type pkgInfo struct {
	dir, importPath, name string
	files                 []string
	asts                  []*ast.File
}

func main() {
	repo := flag.String("repo", "/repo", "repository root")
	out := flag.String("out", "/verif/.gen", "output directory")
	yields := flag.Bool("yields", false, "insert a scheduling point (verifrt.Yield) at the entry of every library function that refers to a package-level variable")
	yieldAll := flag.String("yieldall", "", "import-path suffix of a package in which every function gets a scheduling point at entry (C20: packages/cache)")
	flag.Parse()
	os.MkdirAll(*out, 0o755)
	overlay := map[string]string{}
	var gaps []string
	fset := token.NewFileSet()

	// discover packages
	var pkgs []*pkgInfo
	filepath.Walk(*repo, func(path string, fi os.FileInfo, err error) error {
		if err != nil || !fi.IsDir() {
			return nil
		}
		base := filepath.Base(path)
		rel, _ := filepath.Rel(*repo, path)
		if rel != "." && (strings.HasPrefix(base, ".") || strings.HasPrefix(base, "_") || base == "testdata" ||
			base == "tutorial" || base == "chore" || base == "cmd") {
			return filepath.SkipDir
		}
		ents, _ := os.ReadDir(path)
		p := &pkgInfo{dir: path, importPath: modPath}
		if rel != "." {
			p.importPath = modPath + "/" + filepath.ToSlash(rel)
		}
		for _, e := range ents {
			n := e.Name()
			if e.IsDir() || !strings.HasSuffix(n, ".go") || strings.HasSuffix(n, "_test.go") {
				continue
			}
			if ok, _ := build.Default.MatchFile(path, n); !ok {
				continue
			}
			f, err := parser.ParseFile(fset, filepath.Join(path, n), nil, parser.ParseComments)
			if err != nil {
				gaps = append(gaps, fmt.Sprintf("parse %s: %v", filepath.Join(rel, n), err))
				continue
			}
			if f.Name.Name == "main" {
				continue
			}
			p.name = f.Name.Name
			p.files = append(p.files, filepath.Join(path, n))
			p.asts = append(p.asts, f)
		}
		if len(p.files) > 0 {
			pkgs = append(pkgs, p)
		}
		return nil
	})
	sort.Slice(pkgs, func(i, j int) bool { return pkgs[i].importPath < pkgs[j].importPath })

	// packages reachable from package gogen inside the module
	byPath := map[string]*pkgInfo{}
	for _, p := range pkgs {
		byPath[p.importPath] = p
	}
	reach := map[string]bool{}
	var visit func(ip string)
	visit = func(ip string) {
		p := byPath[ip]
		if p == nil || reach[ip] {
			return
		}
		reach[ip] = true
		for _, f := range p.asts {
			for _, im := range f.Imports {
				visit(strings.Trim(im.Path.Value, "\""))
			}
		}
	}
	visit(modPath)
	visit(modPath + "/packages/cache")
	{
		var keep []*pkgInfo
		for _, p := range pkgs {
			if reach[p.importPath] {
				keep = append(keep, p)
			}
		}
		pkgs = keep
	}

	// 1. globals per package
	var agg []string
	for _, p := range pkgs {
		var names []string
		for _, f := range p.asts {
			for _, d := range f.Decls {
				gd, ok := d.(*ast.GenDecl)
				if !ok || gd.Tok != token.VAR {
					continue
				}
				for _, s := range gd.Specs {
					for _, id := range s.(*ast.ValueSpec).Names {
						if id.Name != "_" {
							names = append(names, id.Name)
						}
					}
				}
			}
		}
		sort.Strings(names)
		var b bytes.Buffer
		fmt.Fprintf(&b, "//go:build verif\n\npackage %s\n\n", p.name)
		fmt.Fprintf(&b, "// VerifGlobal is the address of one package-level variable.\ntype VerifGlobal struct {\n\tName string\n\tPtr  any\n}\n\n")
		fmt.Fprintf(&b, "// VerifGlobals lists every package-level variable of this package (generated).\nfunc VerifGlobals() []VerifGlobal {\n\treturn []VerifGlobal{\n")
		for _, n := range names {
			fmt.Fprintf(&b, "\t\t{%q, &%s},\n", p.importPath+"."+n, n)
		}
		fmt.Fprintf(&b, "\t}\n}\n")
		dst := filepath.Join(*out, strings.ReplaceAll(strings.TrimPrefix(p.importPath, modPath), "/", "_")+"_zz_verif_globals.go")
		writeIfChanged(dst, b.Bytes())
		overlay[filepath.Join(p.dir, "zz_verif_globals.go")] = dst
		if p.importPath != modPath && !strings.HasSuffix(p.importPath, "/packages") && !strings.Contains(p.importPath, "/packages/") {
			agg = append(agg, p.importPath)
		}
	}

	// 2. hooks in package gogen
	{
		var b bytes.Buffer
		b.WriteString("//go:build verif\n\npackage gogen\n\nimport (\n\t\"go/token\"\n\t\"go/types\"\n\t\"io\"\n\n\tvformat \"" + modPath + "/internal/go/format\"\n")
		for i, ip := range agg {
			fmt.Fprintf(&b, "\tvg%d %q\n", i, ip)
		}
		b.WriteString(")\n\n")
		b.WriteString("// VerifFormatNode prints an arbitrary syntax tree with the package's own (forked) formatter.\nfunc VerifFormatNode(dst io.Writer, fset *token.FileSet, node any) error {\n\treturn vformat.Node(dst, fset, node)\n}\n\n")
		b.WriteString("// VerifAllGlobals lists package-level variables of every library package of the module.\nfunc VerifAllGlobals() []VerifGlobal {\n\tret := VerifGlobals()\n")
		for i := range agg {
			fmt.Fprintf(&b, "\tfor _, g := range vg%d.VerifGlobals() {\n\t\tret = append(ret, VerifGlobal{g.Name, g.Ptr})\n\t}\n", i)
		}
		b.WriteString("\treturn ret\n}\n")
		// fast builtin initialisation: share the (immutable) operator/function templates of the
		// builtin package between package instances of one process; only generated when the
		// internal initialisers it calls still exist under these names.
		need := map[string]bool{"initBuiltinOps": false, "initBuiltinAssignOps": false, "initBuiltinFuncs": false, "initBuiltinTIs": false, "initUnsafeFuncs": false}
		for _, f := range byPath[modPath].asts {
			for _, d := range f.Decls {
				if fd, ok := d.(*ast.FuncDecl); ok && fd.Recv == nil {
					if _, ok := need[fd.Name.Name]; ok {
						need[fd.Name.Name] = true
					}
				}
			}
		}
		fast := true
		for _, ok := range need {
			fast = fast && ok
		}
		if fast {
			b.WriteString(`
// VerifFastBuiltin reports that VerifInitBuiltin can reuse a previously initialised builtin package.
const VerifFastBuiltin = true

// VerifInitBuiltin is InitBuiltin split in two: the package-independent templates are created
// only when fresh is true; the per-package tables are always initialised.
func VerifInitBuiltin(pkg *Package, builtin *types.Package, conf *Config, fresh bool) {
	if fresh {
		initBuiltinOps(builtin, conf)
		initBuiltinAssignOps(builtin, conf)
		initBuiltinFuncs(builtin, conf)
	}
	initBuiltinTIs(pkg)
	initUnsafeFuncs(pkg)
}
`)
		} else {
			gaps = append(gaps, "fast builtin init unavailable (internal initialisers renamed); using InitBuiltin")
			b.WriteString(`
const VerifFastBuiltin = false

func VerifInitBuiltin(pkg *Package, builtin *types.Package, conf *Config, fresh bool) {
	InitBuiltin(pkg, builtin, conf)
}
`)
		}
		dst := filepath.Join(*out, "zz_verif_hooks.go")
		writeIfChanged(dst, b.Bytes())
		overlay[filepath.Join(*repo, "zz_verif_hooks.go")] = dst
	}

	// 3. verifrt virtual package
	{
		dst := filepath.Join(*out, "verifrt.go")
		writeIfChanged(dst, []byte(verifrtSrc))
		overlay[filepath.Join(*repo, "verifrt", "verifrt.go")] = dst
	}

	// 4. map-range rewrite
	nRewritten := 0
	srcImp := importer.ForCompiler(fset, "source", nil)
	var rewrittenSites []string
	var yieldSites []string
	var execSeams []string
	var coverSites []string
	for _, p := range pkgs {
		if strings.Contains(p.importPath, "/packages") {
			// the importer/cache packages are driven by C20's own harness: no map-range rewrite; with
			// -yieldall every function of the named package gets a scheduling point at entry
			if *yieldAll != "" && strings.HasSuffix(p.importPath, *yieldAll) {
				for i, f := range p.asts {
					changed := false
					// process seam: cmd.Run() becomes verifrt.Run(cmd), so that the harness can answer the
					// listing command in-process (the default is still to run it)
					ast.Inspect(f, func(n ast.Node) bool {
						call, ok := n.(*ast.CallExpr)
						if !ok || len(call.Args) != 0 {
							return true
						}
						sel, ok := call.Fun.(*ast.SelectorExpr)
						if !ok || sel.Sel.Name != "Run" {
							return true
						}
						if id, ok := sel.X.(*ast.Ident); ok && id.Name == "cmd" {
							pos := fset.Position(call.Pos())
							call.Fun = &ast.SelectorExpr{X: ast.NewIdent("verifrt"), Sel: ast.NewIdent("Run")}
							call.Args = []ast.Expr{ast.NewIdent("cmd")}
							rel, _ := filepath.Rel(*repo, pos.Filename)
							execSeams = append(execSeams, fmt.Sprintf("%s:%d", rel, pos.Line))
							changed = true
						}
						return true
					})
					for _, d := range f.Decls {
						fd, ok := d.(*ast.FuncDecl)
						if !ok || fd.Body == nil {
							continue
						}
						site := strings.TrimPrefix(p.importPath, modPath) + ":" + fd.Name.Name
						call := &ast.ExprStmt{X: &ast.CallExpr{
							Fun:  &ast.SelectorExpr{X: ast.NewIdent("verifrt"), Sel: ast.NewIdent("Yield")},
							Args: []ast.Expr{&ast.BasicLit{Kind: token.STRING, Value: fmt.Sprintf("%q", site)}},
						}}
						fd.Body.List = append([]ast.Stmt{call}, fd.Body.List...)
						yieldSites = append(yieldSites, site)
						changed = true
					}
					if changed {
						addImport(f, modPath+"/verifrt")
						var b bytes.Buffer
						if err := format.Node(&b, fset, f); err != nil {
							gaps = append(gaps, fmt.Sprintf("print %s: %v", p.files[i], err))
							continue
						}
						rel, _ := filepath.Rel(*repo, p.files[i])
						dst := filepath.Join(*out, "rw_"+strings.ReplaceAll(rel, "/", "_"))
						writeIfChanged(dst, b.Bytes())
						overlay[p.files[i]] = dst
					}
				}
			}
			continue
		}
		hasRange := false
		for _, f := range p.asts {
			ast.Inspect(f, func(n ast.Node) bool {
				if _, ok := n.(*ast.RangeStmt); ok {
					hasRange = true
				}
				return !hasRange
			})
		}
		if !hasRange && !*yields {
			continue
		}
		conf := types.Config{Importer: srcImp, Error: func(error) {}}
		info := &types.Info{Types: map[ast.Expr]types.TypeAndValue{}, Uses: map[*ast.Ident]types.Object{}}
		tpkg, _ := conf.Check(p.importPath, fset, p.asts, info)
		for i, f := range p.asts {
			changed := false
			if *yields && tpkg != nil {
				for _, d := range f.Decls {
					fd, ok := d.(*ast.FuncDecl)
					if !ok || fd.Body == nil {
						continue
					}
					// API coverage accounting: every exported function / method of an exported receiver
					if fd.Name.IsExported() && (fd.Recv == nil || exportedRecv(fd.Recv)) && !strings.HasPrefix(fd.Name.Name, "Verif") {
						cname := fd.Name.Name
						if fd.Recv != nil {
							cname = types.ExprString(fd.Recv.List[0].Type) + "." + cname
						}
						csite := strings.TrimPrefix(p.importPath, modPath) + ":" + cname
						fd.Body.List = append([]ast.Stmt{&ast.ExprStmt{X: &ast.CallExpr{
							Fun:  &ast.SelectorExpr{X: ast.NewIdent("verifrt"), Sel: ast.NewIdent("Cover")},
							Args: []ast.Expr{&ast.BasicLit{Kind: token.STRING, Value: fmt.Sprintf("%q", csite)}},
						}}}, fd.Body.List...)
						coverSites = append(coverSites, csite)
						changed = true
					}
					touches := false
					ast.Inspect(fd.Body, func(n ast.Node) bool {
						if id, ok := n.(*ast.Ident); ok && !touches {
							if v, ok := info.Uses[id].(*types.Var); ok && !v.IsField() && v.Pkg() != nil && v.Parent() == v.Pkg().Scope() && strings.HasPrefix(v.Pkg().Path(), modPath) {
								touches = true
							}
						}
						return !touches
					})
					if !touches {
						continue
					}
					name := fd.Name.Name
					if fd.Recv != nil && len(fd.Recv.List) == 1 {
						name = types.ExprString(fd.Recv.List[0].Type) + "." + name
					}
					site := strings.TrimPrefix(p.importPath, modPath) + ":" + name
					call := &ast.ExprStmt{X: &ast.CallExpr{
						Fun:  &ast.SelectorExpr{X: ast.NewIdent("verifrt"), Sel: ast.NewIdent("Yield")},
						Args: []ast.Expr{&ast.BasicLit{Kind: token.STRING, Value: fmt.Sprintf("%q", site)}},
					}}
					fd.Body.List = append([]ast.Stmt{call}, fd.Body.List...)
					yieldSites = append(yieldSites, site)
					changed = true
				}
			}
			ast.Inspect(f, func(n ast.Node) bool {
				rs, ok := n.(*ast.RangeStmt)
				if !ok {
					return true
				}
				tv, ok := info.Types[rs.X]
				if !ok || tv.Type == nil {
					return true
				}
				if _, isMap := tv.Type.Underlying().(*types.Map); !isMap {
					return true
				}
				pos := fset.Position(rs.Pos())
				rel, _ := filepath.Rel(*repo, pos.Filename)
				site := fmt.Sprintf("%s:%d", rel, pos.Line)
				if !rewriteRange(rs, site) {
					gaps = append(gaps, "map range not rewritten: "+site)
					return true
				}
				rewrittenSites = append(rewrittenSites, site)
				changed = true
				nRewritten++
				return true
			})
			if changed {
				addImport(f, modPath+"/verifrt")
				var b bytes.Buffer
				if err := format.Node(&b, fset, f); err != nil {
					gaps = append(gaps, fmt.Sprintf("print %s: %v", p.files[i], err))
					continue
				}
				rel, _ := filepath.Rel(*repo, p.files[i])
				dst := filepath.Join(*out, "rw_"+strings.ReplaceAll(rel, "/", "_"))
				writeIfChanged(dst, b.Bytes())
				overlay[p.files[i]] = dst
			}
		}
	}

	data, _ := json.MarshalIndent(map[string]any{"Replace": overlay}, "", " ")
	writeIfChanged(filepath.Join(*out, "overlay.json"), data)
	meta, _ := json.MarshalIndent(map[string]any{
		"instrumentation_gaps": gaps, "map_ranges_rewritten": rewrittenSites, "packages": len(pkgs), "yield_sites": yieldSites, "exec_seams": execSeams, "cover_sites": coverSites,
	}, "", " ")
	writeIfChanged(filepath.Join(*out, "ovgen_meta.json"), meta)
}

func exportedRecv(recv *ast.FieldList) bool {
	if len(recv.List) != 1 {
		return false
	}
	t := recv.List[0].Type
	for {
		switch x := t.(type) {
		case *ast.StarExpr:
			t = x.X
			continue
		case *ast.IndexExpr:
			t = x.X
			continue
		case *ast.IndexListExpr:
			t = x.X
			continue
		case *ast.Ident:
			return x.IsExported()
		}
		return false
	}
}

func writeIfChanged(path string, data []byte) {
	if old, err := os.ReadFile(path); err == nil && bytes.Equal(old, data) {
		return
	}
	if err := os.WriteFile(path, data, 0o644); err != nil {
		fmt.Fprintln(os.Stderr, err)
		os.Exit(2)
	}
}

func addImport(f *ast.File, path string) {
	for _, im := range f.Imports {
		if im.Path.Value == fmt.Sprintf("%q", path) {
			return
		}
	}
	spec := &ast.ImportSpec{Path: &ast.BasicLit{Kind: token.STRING, Value: fmt.Sprintf("%q", path)}}
	decl := &ast.GenDecl{Tok: token.IMPORT, Specs: []ast.Spec{spec}}
	f.Decls = append([]ast.Decl{decl}, f.Decls...)
	f.Imports = append(f.Imports, spec)
}

// rewriteRange turns `for k, v := range m {B}` into
// `for _, k := range verifrt.Keys(m, site) { v, ok := m[k]; if !ok {continue}; B }`.
func rewriteRange(rs *ast.RangeStmt, site string) bool {
	if rs.Tok != token.DEFINE && rs.Key != nil {
		return false
	}
	m := rs.X
	// only side-effect free operands (identifiers / selector chains) may be duplicated
	if !pure(m) {
		return false
	}
	call := &ast.CallExpr{
		Fun:  &ast.SelectorExpr{X: ast.NewIdent("verifrt"), Sel: ast.NewIdent("Keys")},
		Args: []ast.Expr{m, &ast.BasicLit{Kind: token.STRING, Value: fmt.Sprintf("%q", site)}},
	}
	keyName := "verifK__"
	if id, ok := rs.Key.(*ast.Ident); ok && id.Name != "_" {
		keyName = id.Name
	}
	var pre []ast.Stmt
	valIsUsed := false
	if id, ok := rs.Value.(*ast.Ident); ok && id.Name != "_" {
		valIsUsed = true
		pre = append(pre, &ast.AssignStmt{
			Lhs: []ast.Expr{ast.NewIdent(id.Name), ast.NewIdent("verifOK__")}, Tok: token.DEFINE,
			Rhs: []ast.Expr{&ast.IndexExpr{X: m, Index: ast.NewIdent(keyName)}},
		})
	} else if rs.Value != nil {
		if id, ok := rs.Value.(*ast.Ident); !ok || id.Name != "_" {
			return false
		}
	}
	if !valIsUsed {
		pre = append(pre, &ast.AssignStmt{
			Lhs: []ast.Expr{ast.NewIdent("_"), ast.NewIdent("verifOK__")}, Tok: token.DEFINE,
			Rhs: []ast.Expr{&ast.IndexExpr{X: m, Index: ast.NewIdent(keyName)}},
		})
	}
	pre = append(pre, &ast.IfStmt{
		Cond: &ast.UnaryExpr{Op: token.NOT, X: ast.NewIdent("verifOK__")},
		Body: &ast.BlockStmt{List: []ast.Stmt{&ast.BranchStmt{Tok: token.CONTINUE}}},
	})
	rs.Key = ast.NewIdent("_")
	rs.Value = ast.NewIdent(keyName)
	rs.Tok = token.DEFINE
	rs.X = call
	rs.Body.List = append(pre, rs.Body.List...)
	return true
}

func pure(e ast.Expr) bool {
	switch v := e.(type) {
	case *ast.Ident:
		return true
	case *ast.SelectorExpr:
		return pure(v.X)
	case *ast.ParenExpr:
		return pure(v.X)
	case *ast.StarExpr:
		return pure(v.X)
	}
	return false
}

const verifrtSrc = `// Package verifrt exists only in the verification overlay: it hands the iteration order of
// every map range in the library to the explorer.
package verifrt

import (
	"fmt"
	"os/exec"
	"sort"
)

// ExecHook, when set, answers a command instead of running it (C20: the listing command of the cache).
var ExecHook func(cmd *exec.Cmd) error

// Run runs cmd, or hands it to ExecHook.
func Run(cmd *exec.Cmd) error {
	if h := ExecHook; h != nil {
		return h(cmd)
	}
	return cmd.Run()
}

// Covered counts calls of exported API entry points (only instrumented for C18).
var Covered = map[string]int{}

// CoverOn enables the accounting (single-threaded use only).
var CoverOn bool

// Cover records a call of an exported function or method.
func Cover(site string) {
	if CoverOn {
		Covered[site]++
	}
}

// Sched, when set, is called at every scheduling point (entry of a library function that refers to a
// package-level variable); the explorer uses it to hand control to another build.
var Sched func(site string)

// Yield is a scheduling point.
func Yield(site string) {
	if f := Sched; f != nil {
		f(site)
	}
}

// Chooser is asked for a permutation of n keys at a map-range site; it returns the order as
// a slice of indices into the sorted key list (nil = identity).
var Chooser func(site string, n int) []int

// Keys returns the keys of m in the order the attached explorer chooses (sorted when none).
func Keys[M ~map[K]V, K comparable, V any](m M, site string) []K {
	keys := make([]K, 0, len(m))
	for k := range m {
		keys = append(keys, k)
	}
	sort.Slice(keys, func(i, j int) bool { return less(keys[i], keys[j]) })
	if Chooser != nil && len(keys) > 1 {
		if perm := Chooser(site, len(keys)); perm != nil {
			out := make([]K, len(keys))
			for i, j := range perm {
				out[i] = keys[j]
			}
			return out
		}
	}
	return keys
}

func less(a, b any) bool {
	switch x := a.(type) {
	case string:
		return x < b.(string)
	case int:
		return x < b.(int)
	case fmt.Stringer:
		return x.String() < b.(fmt.Stringer).String()
	}
	return fmt.Sprintf("%v|%p", a, a) < fmt.Sprintf("%v|%p", b, b)
}
`
