module ovgen

go 1.23
