#!/bin/bash
# Offline setup: build the overlay generator and pre-build the checker once (warms GOCACHE).
set -e
export GOFLAGS=-mod=mod GOPROXY=off GOSUMDB=off GOTOOLCHAIN=local CGO_ENABLED=0
cd /verif
mkdir -p .bin .gen/setup .run evidence replays
(cd tools/ovgen && go build -o /verif/.bin/ovgen .)
.bin/ovgen -repo /repo -out /verif/.gen/setup
(cd engine && go build -tags verif -overlay /verif/.gen/setup/overlay.json -o /verif/.bin/vcheck-setup ./cmd/vcheck)
# race-detector variant (C18's free-running pass): warms the -race build of the standard library
(cd engine && CGO_ENABLED=1 go build -race -tags verif -overlay /verif/.gen/setup/overlay.json -o /verif/.bin/vcheck-setup-race ./cmd/vcheck) || echo "race build unavailable: C18 stage C will be skipped" >&2
echo setup ok
