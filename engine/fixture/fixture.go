// Package fixture provides a closed-world in-memory types.Importer: fixture packages are Go
// source strings type-checked once with go/types; the same importer instance (hence the
// same *types.Package objects) serves gogen and the go/types oracle.
package fixture

import (
	"fmt"
	"go/ast"
	"go/importer"
	"go/parser"
	"go/token"
	"go/types"
	"sync"
)

type Importer struct {
	mu   sync.Mutex
	Fset *token.FileSet
	src  map[string]string
	pkgs map[string]*types.Package
	std  types.Importer // nil = no standard library (closed world)
}

// New returns an importer over the given sources; withStd chains to the go/importer
// "source" importer for paths not in the fixture set.
func New(src map[string]string, withStd bool) *Importer {
	imp := &Importer{Fset: token.NewFileSet(), src: map[string]string{}, pkgs: map[string]*types.Package{}}
	for k, v := range src {
		imp.src[k] = v
	}
	if withStd {
		imp.std = importer.ForCompiler(imp.Fset, "source", nil)
	}
	return imp
}

func (p *Importer) Add(path, src string) { p.src[path] = src }

func (p *Importer) Import(path string) (*types.Package, error) {
	if path == "unsafe" {
		return types.Unsafe, nil
	}
	p.mu.Lock()
	if pkg, ok := p.pkgs[path]; ok {
		p.mu.Unlock()
		return pkg, nil
	}
	src, ok := p.src[path]
	p.mu.Unlock()
	if !ok {
		if p.std != nil {
			pkg, err := p.std.Import(path)
			if err == nil {
				p.mu.Lock()
				p.pkgs[path] = pkg
				p.mu.Unlock()
			}
			return pkg, err
		}
		return nil, fmt.Errorf("fixture: package %q not found", path)
	}
	f, err := parser.ParseFile(p.Fset, path+"/fixture.go", src, parser.ParseComments)
	if err != nil {
		return nil, fmt.Errorf("fixture %s: %v", path, err)
	}
	conf := types.Config{Importer: p}
	pkg, err := conf.Check(path, p.Fset, []*ast.File{f}, nil)
	if err != nil {
		return nil, fmt.Errorf("fixture %s: %v", path, err)
	}
	p.mu.Lock()
	p.pkgs[path] = pkg
	p.mu.Unlock()
	return pkg, nil
}

// MustImport panics on failure (fixture sources are part of the harness).
func (p *Importer) MustImport(path string) *types.Package {
	pkg, err := p.Import(path)
	if err != nil {
		panic(err)
	}
	return pkg
}
