// Package tygen enumerates closed universes of go/types types inside a gogen package.
package tygen

import (
	"go/token"
	"go/types"

	"github.com/goplus/gogen"
)

// Fixtures shared by the type-oriented checks.
var Fixtures = map[string]string{
	"a/fmt": `package fmt
type T struct{ X int; y string }
type I interface{ N() int }
type G[K comparable, V any] struct{ k K; v V }
type N int
func F(x int) int { return x }
var V T
const C = 1
`,
	"b/fmt": `package fmt
type T struct{ X string }
type U = T
func F(x string) string { return x }
var V T
`,
	"c/util": `package util
type T []int
type Pair[A, B any] struct{ First A; Second B }
func F() {}
`,
}

// Env is a gogen package with a set of declared local types.
type Env struct {
	Pkg    *gogen.Package
	Leaves []types.Type // simplest first
	Named  map[string]types.Type
	Cmp    []types.Type // comparable leaves usable as map keys
}

// NewEnv declares the local named types in pkg and gathers the leaves.
// level 0: few leaves (reduced), 1: full.
func NewEnv(pkg *gogen.Package, full bool) *Env {
	e := &Env{Pkg: pkg, Named: map[string]types.Type{}}
	T := types.Typ
	// local declarations
	m := pkg.NewType("M").InitType(pkg, T[types.Int])
	str := pkg.NewType("Str").InitType(pkg, T[types.String])
	s := pkg.NewType("S").InitType(pkg, types.NewStruct([]*types.Var{
		types.NewField(token.NoPos, pkg.Types, "X", T[types.Int], false)}, nil))
	iface := pkg.NewType("I").InitType(pkg, types.NewInterfaceType([]*types.Func{
		types.NewFunc(token.NoPos, pkg.Types, "M", types.NewSignatureType(nil, nil, nil, nil, nil, false))}, nil).Complete())
	a := pkg.AliasType("A", T[types.Int])
	// generic Box[T any]
	tpObj := types.NewTypeName(token.NoPos, pkg.Types, "T", nil)
	tp := types.NewTypeParam(tpObj, gogen.TyAny)
	box := pkg.NewType("Box").InitType(pkg, types.NewStruct([]*types.Var{
		types.NewField(token.NoPos, pkg.Types, "V", tp, false)}, nil), tp)
	boxInt, err := types.Instantiate(nil, box, []types.Type{T[types.Int]}, true)
	if err != nil {
		panic(err)
	}
	afmt := pkg.Import("a/fmt")
	bfmt := pkg.Import("b/fmt")
	util := pkg.Import("c/util")
	aT := afmt.Ref("T").Type()
	bT := bfmt.Ref("T").Type()
	aG, err := types.Instantiate(nil, afmt.Ref("G").Type(), []types.Type{T[types.String], m}, true)
	if err != nil {
		panic(err)
	}
	pair, err := types.Instantiate(nil, util.Ref("Pair").Type(), []types.Type{aT, bT}, true)
	if err != nil {
		panic(err)
	}
	e.Named["M"], e.Named["Str"], e.Named["S"], e.Named["I"], e.Named["A"] = m, str, s, iface, a
	e.Named["Box"], e.Named["Box[int]"] = box, boxInt
	e.Named["a/fmt.T"], e.Named["b/fmt.T"], e.Named["a/fmt.G[string,M]"], e.Named["c/util.Pair"] = aT, bT, aG, pair
	e.Named["a/fmt.I"] = afmt.Ref("I").Type()
	e.Named["b/fmt.U"] = bfmt.Ref("U").Type()
	e.Named["c/util.T"] = util.Ref("T").Type()
	if full {
		e.Leaves = []types.Type{
			T[types.Int], T[types.String], T[types.Bool], T[types.Float64], T[types.Uint8], T[types.Int32],
			T[types.Complex128], T[types.Uintptr], T[types.UnsafePointer], types.Universe.Lookup("error").Type(),
			gogen.TyAny, m, str, s, iface, a, boxInt, aT, bT, aG, pair, e.Named["a/fmt.I"], e.Named["b/fmt.U"], e.Named["c/util.T"],
			types.Universe.Lookup("byte").Type(), types.Universe.Lookup("rune").Type(),
		}
	} else {
		e.Leaves = []types.Type{T[types.Int], T[types.String], gogen.TyAny, m, s, aT, bT, boxInt, types.Universe.Lookup("error").Type()}
	}
	e.Cmp = []types.Type{T[types.String], m, aT}
	return e
}

// Ctor is a one-argument type constructor.
type Ctor struct {
	Name string
	Fn   func(e *Env, t types.Type) types.Type
}

func field(e *Env, name string, t types.Type, emb bool) *types.Var {
	return types.NewField(token.NoPos, e.Pkg.Types, name, t, emb)
}
func param(e *Env, name string, t types.Type) *types.Var {
	return types.NewParam(token.NoPos, e.Pkg.Types, name, t)
}

// embeddable reports whether t may be embedded in a struct and its field name.
func embeddable(t types.Type) (string, bool) {
	if p, ok := t.(*types.Pointer); ok {
		t = p.Elem()
		if _, isIface := t.Underlying().(*types.Interface); isIface {
			return "", false
		}
	}
	switch v := t.(type) {
	case *types.Basic:
		if v.Kind() == types.UnsafePointer {
			return "", false
		}
		return v.Name(), true
	case *types.Named:
		if _, isPtr := v.Underlying().(*types.Pointer); isPtr {
			return "", false
		}
		return v.Obj().Name(), true
	case *types.Alias:
		if _, isPtr := v.Underlying().(*types.Pointer); isPtr {
			return "", false
		}
		if _, isTP := types.Unalias(v).(*types.TypeParam); isTP {
			return "", false
		}
		return v.Obj().Name(), true
	}
	return "", false
}

// Ctors is the full list of single-argument constructors; the first six are the
// "syntactically tricky" ones used for long chains.
var Ctors = []Ctor{
	{"ptr", func(e *Env, t types.Type) types.Type { return types.NewPointer(t) }},
	{"chan", func(e *Env, t types.Type) types.Type { return types.NewChan(types.SendRecv, t) }},
	{"recvchan", func(e *Env, t types.Type) types.Type { return types.NewChan(types.RecvOnly, t) }},
	{"sendchan", func(e *Env, t types.Type) types.Type { return types.NewChan(types.SendOnly, t) }},
	{"funcres", func(e *Env, t types.Type) types.Type {
		return types.NewSignatureType(nil, nil, nil, nil, types.NewTuple(param(e, "", t)), false)
	}},
	{"funcparam", func(e *Env, t types.Type) types.Type {
		return types.NewSignatureType(nil, nil, nil, types.NewTuple(param(e, "", t)), nil, false)
	}},
	{"slice", func(e *Env, t types.Type) types.Type { return types.NewSlice(t) }},
	{"array2", func(e *Env, t types.Type) types.Type { return types.NewArray(t, 2) }},
	{"array0", func(e *Env, t types.Type) types.Type { return types.NewArray(t, 0) }},
	{"mapval", func(e *Env, t types.Type) types.Type { return types.NewMap(types.Typ[types.String], t) }},
	{"mapkey", func(e *Env, t types.Type) types.Type {
		if !types.Comparable(t) {
			return nil
		}
		return types.NewMap(t, types.Typ[types.Int])
	}},
	{"variadic", func(e *Env, t types.Type) types.Type {
		return types.NewSignatureType(nil, nil, nil, types.NewTuple(param(e, "a", types.Typ[types.Int]), param(e, "b", types.NewSlice(t))), nil, true)
	}},
	{"func2res", func(e *Env, t types.Type) types.Type {
		return types.NewSignatureType(nil, nil, nil, types.NewTuple(param(e, "x", t)),
			types.NewTuple(param(e, "r", t), param(e, "err", types.Universe.Lookup("error").Type())), false)
	}},
	{"field", func(e *Env, t types.Type) types.Type {
		return types.NewStruct([]*types.Var{field(e, "f", t, false), field(e, "G", types.Typ[types.Int], false)}, nil)
	}},
	{"fieldtag", func(e *Env, t types.Type) types.Type {
		return types.NewStruct([]*types.Var{field(e, "F", t, false)}, []string{`json:"f,omitempty"`})
	}},
	{"embedded", func(e *Env, t types.Type) types.Type {
		name, ok := embeddable(t)
		if !ok {
			return nil
		}
		return types.NewStruct([]*types.Var{field(e, name, t, true)}, nil)
	}},
	{"ifacemethod", func(e *Env, t types.Type) types.Type {
		sig := types.NewSignatureType(nil, nil, nil, types.NewTuple(param(e, "", t)), types.NewTuple(param(e, "", t)), false)
		return types.NewInterfaceType([]*types.Func{types.NewFunc(token.NoPos, e.Pkg.Types, "m", sig)}, nil).Complete()
	}},
	{"ifaceembed", func(e *Env, t types.Type) types.Type {
		if _, ok := t.Underlying().(*types.Interface); !ok {
			return nil
		}
		if _, isNamed := t.(*types.Named); !isNamed {
			if _, isAlias := t.(*types.Alias); !isAlias && t != gogen.TyAny {
				// embedding of interface literals is legal too
			}
		}
		sig := types.NewSignatureType(nil, nil, nil, nil, nil, false)
		return types.NewInterfaceType([]*types.Func{types.NewFunc(token.NoPos, e.Pkg.Types, "Z", sig)}, []types.Type{t}).Complete()
	}},
}

// Depth enumerates all types of constructor depth <= d over the leaves (simplest first).
func (e *Env) Depth(d int, ctors []Ctor, yield func(desc string, t types.Type) bool) {
	type item struct {
		desc string
		t    types.Type
	}
	level := make([]item, 0, len(e.Leaves))
	for _, l := range e.Leaves {
		it := item{types.TypeString(l, nil), l}
		level = append(level, it)
		if !yield(it.desc, it.t) {
			return
		}
	}
	for i := 0; i < d; i++ {
		var next []item
		for _, it := range level {
			for _, c := range ctors {
				t := c.Fn(e, it.t)
				if t == nil {
					continue
				}
				n := item{c.Name + "(" + it.desc + ")", t}
				next = append(next, n)
				if !yield(n.desc, n.t) {
					return
				}
			}
		}
		level = next
	}
}

// Specials are hand-listed shapes that no single-argument chain produces.
func (e *Env) Specials() []struct {
	Desc string
	T    types.Type
} {
	T := types.Typ
	errT := types.Universe.Lookup("error").Type()
	p := func(n string, t types.Type) *types.Var { return param(e, n, t) }
	var out []struct {
		Desc string
		T    types.Type
	}
	add := func(d string, t types.Type) {
		out = append(out, struct {
			Desc string
			T    types.Type
		}{d, t})
	}
	add("tag-backquote", types.NewStruct([]*types.Var{field(e, "F", T[types.Int], false)}, []string{"a`b"}))
	add("tag-newline", types.NewStruct([]*types.Var{field(e, "F", T[types.Int], false)}, []string{"a\nb"}))
	add("tag-quote", types.NewStruct([]*types.Var{field(e, "F", T[types.Int], false)}, []string{`a"b`}))
	add("tag-second-only", types.NewStruct([]*types.Var{field(e, "F", T[types.Int], false), field(e, "G", T[types.Int], false)}, []string{"", "g"}))
	add("struct-multi", types.NewStruct([]*types.Var{field(e, "a", T[types.Int], false), field(e, "b", T[types.Int], false), field(e, "M", e.Named["M"], true), field(e, "T", types.NewPointer(e.Named["a/fmt.T"]), true)}, nil))
	add("struct-empty", types.NewStruct(nil, nil))
	add("struct-blank", types.NewStruct([]*types.Var{field(e, "_", T[types.Int], false), field(e, "_", T[types.String], false)}, nil))
	add("func-named-mixed", types.NewSignatureType(nil, nil, nil, types.NewTuple(p("a", T[types.Int]), p("b", T[types.Int]), p("c", T[types.String])), types.NewTuple(p("", T[types.Int]), p("", errT)), false))
	add("func-named-results", types.NewSignatureType(nil, nil, nil, nil, types.NewTuple(p("x", T[types.Int]), p("y", T[types.Int])), false))
	add("func-blank-params", types.NewSignatureType(nil, nil, nil, types.NewTuple(p("_", T[types.Int]), p("_", T[types.String])), nil, false))
	add("func-variadic-only", types.NewSignatureType(nil, nil, nil, types.NewTuple(p("", types.NewSlice(gogen.TyAny))), nil, true))
	add("func-returning-func", types.NewSignatureType(nil, nil, nil, nil, types.NewTuple(p("", types.NewSignatureType(nil, nil, nil, nil, types.NewTuple(p("", T[types.Int])), false))), false))
	add("func-res-paren-needed", types.NewSignatureType(nil, nil, nil, types.NewTuple(p("", types.NewChan(types.RecvOnly, T[types.Int]))), types.NewTuple(p("", types.NewChan(types.RecvOnly, T[types.Int]))), false))
	sigM := types.NewSignatureType(nil, nil, nil, nil, nil, false)
	sigN := types.NewSignatureType(nil, nil, nil, types.NewTuple(p("", T[types.Int])), types.NewTuple(p("", T[types.String])), false)
	add("iface-two-methods", types.NewInterfaceType([]*types.Func{types.NewFunc(0, e.Pkg.Types, "B", sigN), types.NewFunc(0, e.Pkg.Types, "A", sigM)}, nil).Complete())
	add("iface-unexported", types.NewInterfaceType([]*types.Func{types.NewFunc(0, e.Pkg.Types, "b", sigN)}, nil).Complete())
	add("iface-embed-two", types.NewInterfaceType(nil, []types.Type{e.Named["I"], e.Named["a/fmt.I"], errT}).Complete())
	add("array-big", types.NewArray(T[types.Int], 1<<20))
	add("map-iface-key", types.NewMap(gogen.TyAny, types.NewMap(e.Named["I"], T[types.Int])))
	add("map-array-key", types.NewMap(types.NewArray(T[types.String], 3), T[types.Bool]))
	add("map-struct-key", types.NewMap(types.NewStruct([]*types.Var{field(e, "a", T[types.Int], false)}, nil), T[types.Bool]))
	add("map-chan-key", types.NewMap(types.NewChan(types.RecvOnly, T[types.Int]), types.NewChan(types.SendOnly, T[types.Int])))
	add("chan-of-func", types.NewChan(types.SendRecv, types.NewSignatureType(nil, nil, nil, nil, types.NewTuple(p("", types.NewChan(types.RecvOnly, T[types.Int]))), false)))
	add("ptr-to-array-of-chan", types.NewPointer(types.NewArray(types.NewChan(types.SendOnly, types.NewPointer(T[types.Int])), 4)))
	// instantiations
	if box, ok := e.Named["Box"].(*types.Named); ok {
		for _, arg := range []types.Type{T[types.String], e.Named["M"], e.Named["a/fmt.T"], types.NewSlice(e.Named["b/fmt.T"]), e.Named["Box[int]"],
			types.NewChan(types.RecvOnly, T[types.Int]), types.NewSignatureType(nil, nil, nil, nil, nil, false), types.NewStruct(nil, nil)} {
			inst, err := types.Instantiate(nil, box, []types.Type{arg}, true)
			if err == nil {
				add("Box["+types.TypeString(arg, nil)+"]", inst)
			}
		}
	}
	return out
}

// Constraints are types only valid in constraint position.
func (e *Env) Constraints() []struct {
	Desc string
	T    types.Type
} {
	T := types.Typ
	var out []struct {
		Desc string
		T    types.Type
	}
	add := func(d string, t types.Type) {
		out = append(out, struct {
			Desc string
			T    types.Type
		}{d, t})
	}
	iface := func(ms []*types.Func, embeds ...types.Type) types.Type {
		return types.NewInterfaceType(ms, embeds).Complete()
	}
	term := types.NewTerm
	strM := types.NewFunc(0, e.Pkg.Types, "String", types.NewSignatureType(nil, nil, nil, nil, types.NewTuple(param(e, "", T[types.String])), false))
	add("any", gogen.TyAny)
	add("comparable", types.Universe.Lookup("comparable").Type())
	add("iface-comparable", iface(nil, types.Universe.Lookup("comparable").Type()))
	add("tilde-int", iface(nil, types.NewUnion([]*types.Term{term(true, T[types.Int])})))
	add("union-tilde", iface(nil, types.NewUnion([]*types.Term{term(true, T[types.Int]), term(true, T[types.String])})))
	add("union-mixed", iface(nil, types.NewUnion([]*types.Term{term(false, T[types.Int]), term(true, T[types.Float64]), term(false, e.Named["Str"])})))
	add("union-named", iface(nil, types.NewUnion([]*types.Term{term(false, e.Named["M"]), term(false, e.Named["a/fmt.T"])})))
	add("union-composite", iface(nil, types.NewUnion([]*types.Term{term(true, types.NewSlice(T[types.Int])), term(true, types.NewMap(T[types.String], T[types.Int])), term(false, types.NewPointer(T[types.Int])), term(true, types.NewChan(types.RecvOnly, T[types.Int]))})))
	add("tilde-and-method", iface([]*types.Func{strM}, types.NewUnion([]*types.Term{term(true, T[types.Int])})))
	add("comparable-and-method", iface([]*types.Func{strM}, types.Universe.Lookup("comparable").Type()))
	add("embed-named-iface", iface(nil, e.Named["I"], types.NewUnion([]*types.Term{term(false, e.Named["M"])})))
	add("two-unions", iface(nil, types.NewUnion([]*types.Term{term(true, T[types.Int]), term(true, T[types.Int8])}), types.NewUnion([]*types.Term{term(true, T[types.Int])})))
	add("single-nontilde", iface(nil, types.NewUnion([]*types.Term{term(false, T[types.Int])})))
	add("ptr-term", iface(nil, types.NewUnion([]*types.Term{term(false, types.NewPointer(e.Named["S"]))})))
	add("func-term", iface(nil, types.NewUnion([]*types.Term{term(true, types.NewSignatureType(nil, nil, nil, nil, nil, false)), term(false, T[types.Int])})))
	return out
}
