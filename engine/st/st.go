// Package st is the statement layer of the program IR: statements and function bodies with a
// renderer to reference Go text and a driver issuing the canonical builder operations.
package st

import (
	"fmt"
	"go/token"
	"go/types"
	"strings"

	"github.com/goplus/gogen"

	"verifengine/ex"
)

// Statement kinds.
const (
	KExpr     = "expr"     // E[0]
	KAssign   = "assign"   // L... = E...
	KDefine   = "define"   // Names := E...
	KOpAssign = "opassign" // L[0] Tok= E[0]
	KIncDec   = "incdec"   // L[0] Tok
	KVar      = "var"      // var Names [T] [= E...]
	KConst    = "const"    // const Names [T] = E...
	KIf       = "if"       // Init?, E[0] cond, B[0] then, B[1] else (nil = none); ElseIf: B[1] = single if stmt with Flat=true
	KFor      = "for"      // Init?, E[0] cond (nil = none), Post?, B[0]
	KRange    = "range"    // Names (define) or L (assign), E[0], B[0]
	KSwitch   = "switch"   // Init?, E[0] tag (nil=none), Cases
	KTypeSw   = "typeswitch" // Name bind, Init?, E[0] x, Cases (Types)
	KSelect   = "select"   // Cases with Comm
	KLabeled  = "labeled"  // Label, B[0][0] inner stmt (or empty)
	KBreak    = "break"    // Label ("" = none)
	KContinue = "continue"
	KGoto     = "goto"
	KFallthrough = "fallthrough"
	KReturn   = "return"   // E...
	KDefer    = "defer"    // E[0] call
	KGo       = "go"
	KSend     = "send"     // E[0] <- E[1]
	KBlock    = "block"    // B[0]
	KClosure  = "closurecall" // func() [T] { B[0] }()  as statement; T result type key
)

// Lhs is an assignment target.
type Lhs struct {
	K    string // "local" | "blank" | "env" | "idx" | "sel" | "deref"
	Name string
	X, I *ex.E
}

type Case struct {
	Exprs   []*ex.E  // switch: case expressions; nil/empty = default
	Types   []string // type switch: type keys ("nil" for nil)
	Default bool
	Comm    *S // select
	Body    []*S
}

type S struct {
	K     string
	E     []*ex.E
	L     []*Lhs
	Names []string
	T     string
	Tok   token.Token
	Label string
	Init  *S
	Post  *S
	B     [][]*S
	Cases []*Case
	Name  string
	Define bool
}

// Func is a function declaration with a body.
type Func struct {
	Name    string
	Params  [][2]string // name, type key
	Results []string    // type keys
	Body    []*S
}

// ---------------------------------------------------------------------------------------
// rendering

func renderLhs(l *Lhs) string {
	switch l.K {
	case "local":
		return l.Name
	case "blank":
		return "_"
	case "env":
		return "env." + l.Name
	case "idx":
		return l.X.Render() + "[" + l.I.Render() + "]"
	case "sel":
		return l.X.Render() + "." + l.Name
	case "deref":
		return "*" + l.X.Render()
	}
	panic(l.K)
}

func joinE(es []*ex.E) string {
	var s []string
	for _, e := range es {
		s = append(s, e.Render())
	}
	return strings.Join(s, ", ")
}

func joinL(ls []*Lhs) string {
	var s []string
	for _, l := range ls {
		s = append(s, renderLhs(l))
	}
	return strings.Join(s, ", ")
}

func headerExpr(e *ex.E) string {
	s := e.Render()
	switch e.K {
	case ex.KSliceLit, ex.KArrayLit, ex.KMapLit, ex.KStructLit:
		return "(" + s + ")"
	}
	return s
}

// Simple renders a simple statement on one line (for init/post positions).
func (s *S) Simple() string {
	var b strings.Builder
	s.render(&b, "")
	return strings.TrimSuffix(strings.TrimSpace(b.String()), "\n")
}

func RenderBlock(b *strings.Builder, ss []*S, ind string) {
	for _, s := range ss {
		s.render(b, ind)
	}
}

func (s *S) render(b *strings.Builder, ind string) {
	w := func(f string, a ...any) { fmt.Fprintf(b, ind+f+"\n", a...) }
	block := func(ss []*S) {
		RenderBlock(b, ss, ind+"\t")
	}
	init := ""
	if s.Init != nil {
		init = s.Init.Simple() + "; "
	}
	switch s.K {
	case KExpr:
		w("%s", s.E[0].Render())
	case KAssign:
		w("%s = %s", joinL(s.L), joinE(s.E))
	case KDefine:
		w("%s := %s", strings.Join(s.Names, ", "), joinE(s.E))
	case KOpAssign:
		w("%s %s %s", renderLhs(s.L[0]), s.Tok.String(), s.E[0].Render())
	case KIncDec:
		w("%s%s", renderLhs(s.L[0]), s.Tok.String())
	case KVar, KConst:
		kw := "var"
		if s.K == KConst {
			kw = "const"
		}
		t := ""
		if s.T != "" {
			t = " " + s.T
		}
		if len(s.E) > 0 {
			w("%s %s%s = %s", kw, strings.Join(s.Names, ", "), t, joinE(s.E))
		} else {
			w("%s %s%s", kw, strings.Join(s.Names, ", "), t)
		}
	case KIf:
		fmt.Fprintf(b, "%sif %s%s {\n", ind, init, headerExpr(s.E[0]))
		block(s.B[0])
		for len(s.B) > 1 && s.B[1] != nil {
			// else-if chain
			if len(s.B[1]) == 1 && s.B[1][0].K == KIf && s.B[1][0].Define {
				n := s.B[1][0]
				ninit := ""
				if n.Init != nil {
					ninit = n.Init.Simple() + "; "
				}
				fmt.Fprintf(b, "%s} else if %s%s {\n", ind, ninit, headerExpr(n.E[0]))
				block(n.B[0])
				s = n
				continue
			}
			fmt.Fprintf(b, "%s} else {\n", ind)
			block(s.B[1])
			break
		}
		w("}")
	case KFor:
		cond := ""
		if len(s.E) > 0 && s.E[0] != nil {
			cond = headerExpr(s.E[0])
		}
		switch {
		case s.Init == nil && s.Post == nil && cond == "":
			w("for {")
		case s.Init == nil && s.Post == nil:
			w("for %s {", cond)
		default:
			i, p := "", ""
			if s.Init != nil {
				i = s.Init.Simple()
			}
			if s.Post != nil {
				p = s.Post.Simple()
			}
			w("for %s; %s; %s {", i, cond, p)
		}
		block(s.B[0])
		w("}")
	case KRange:
		x := headerExpr(s.E[0])
		switch {
		case s.Define && len(s.Names) > 0:
			w("for %s := range %s {", strings.Join(s.Names, ", "), x)
		case len(s.L) > 0:
			w("for %s = range %s {", joinL(s.L), x)
		default:
			w("for range %s {", x)
		}
		block(s.B[0])
		w("}")
	case KSwitch:
		tag := ""
		if len(s.E) > 0 && s.E[0] != nil {
			tag = headerExpr(s.E[0]) + " "
		}
		w("switch %s%s{", init, tag)
		for _, c := range s.Cases {
			if c.Default {
				w("default:")
			} else {
				w("case %s:", joinE(c.Exprs))
			}
			block(c.Body)
		}
		w("}")
	case KTypeSw:
		bind := ""
		if s.Name != "" {
			bind = s.Name + " := "
		}
		w("switch %s%s%s.(type) {", init, bind, s.E[0].Render())
		for _, c := range s.Cases {
			if c.Default {
				w("default:")
			} else {
				w("case %s:", strings.Join(c.Types, ", "))
			}
			block(c.Body)
		}
		w("}")
	case KSelect:
		w("select {")
		for _, c := range s.Cases {
			if c.Default {
				w("default:")
			} else {
				w("case %s:", c.Comm.Simple())
			}
			block(c.Body)
		}
		w("}")
	case KLabeled:
		fmt.Fprintf(b, "%s:\n", s.Label)
		if len(s.B) > 0 && len(s.B[0]) > 0 {
			s.B[0][0].render(b, ind)
		} else {
			w(";")
		}
	case KBreak, KContinue, KGoto:
		if s.Label != "" {
			w("%s %s", s.K, s.Label)
		} else {
			w("%s", s.K)
		}
	case KFallthrough:
		w("fallthrough")
	case KReturn:
		if len(s.E) > 0 {
			w("return %s", joinE(s.E))
		} else {
			w("return")
		}
	case KDefer:
		w("defer %s", s.E[0].Render())
	case KGo:
		w("go %s", s.E[0].Render())
	case KSend:
		w("%s <- %s", s.E[0].Render(), s.E[1].Render())
	case KBlock:
		w("{")
		block(s.B[0])
		w("}")
	case KClosure:
		res := ""
		if s.T != "" {
			res = " " + s.T
		}
		w("func()%s {", res)
		block(s.B[0])
		w("}()")
	default:
		panic("render: " + s.K)
	}
}

// RenderFunc renders a function declaration.
func (f *Func) Render() string {
	var b strings.Builder
	var ps []string
	for _, p := range f.Params {
		ps = append(ps, p[0]+" "+p[1])
	}
	res := ""
	switch len(f.Results) {
	case 0:
	case 1:
		res = " " + f.Results[0]
	default:
		res = " (" + strings.Join(f.Results, ", ") + ")"
	}
	fmt.Fprintf(&b, "func %s(%s)%s {\n", f.Name, strings.Join(ps, ", "), res)
	RenderBlock(&b, f.Body, "\t")
	b.WriteString("}\n")
	return b.String()
}

// ---------------------------------------------------------------------------------------
// building

// Builder issues builder operations for statements. Observer callbacks let properties
// inspect the state at statement and block boundaries (C16).
type Builder struct {
	X      *ex.Builder
	labels map[string]*gogen.Label
	// OnOpen is called right before a block-forming construct is opened and returns a token
	// handed to OnClose right after the construct was closed.
	OnOpen  func(kind string) any
	OnClose func(kind string, tok any)
	// OnStmt is called after every completed statement.
	OnStmt func(kind string)
}

func NewBuilder(x *ex.Builder) *Builder { return &Builder{X: x} }

func (p *Builder) cb() *gogen.CodeBuilder { return p.X.B.Pkg.CB() }

func (p *Builder) tkey(k string) types.Type { return ex.TypeByKey(p.X.Env.Types, k) }

func (p *Builder) open(kind string) any {
	if p.OnOpen != nil {
		return p.OnOpen(kind)
	}
	return nil
}

func (p *Builder) close(kind string, tok any) {
	if p.OnClose != nil {
		p.OnClose(kind, tok)
	}
}

func (p *Builder) lhs(l *Lhs) {
	cb := p.cb()
	switch l.K {
	case "local":
		_, o := cb.Scope().LookupParent(l.Name, token.NoPos)
		if o == nil {
			panic("st: unknown local " + l.Name)
		}
		cb.VarRef(o)
	case "blank":
		cb.VarRef(nil)
	case "env":
		cb.VarRef(p.X.Env.Ref(l.Name))
	case "idx":
		p.X.Build(l.X)
		p.X.Build(l.I)
		cb.IndexRef(1)
	case "sel":
		p.X.Build(l.X)
		cb.MemberRef(l.Name)
	case "deref":
		p.X.Build(l.X)
		cb.ElemRef()
	default:
		panic(l.K)
	}
}

func collectLabels(ss []*S, out *[]string) {
	for _, s := range ss {
		if s == nil {
			continue
		}
		if s.K == KLabeled {
			*out = append(*out, s.Label)
		}
		if s.K == KClosure {
			continue // a function literal has its own label scope
		}
		for _, b := range s.B {
			collectLabels(b, out)
		}
		for _, c := range s.Cases {
			collectLabels(c.Body, out)
		}
	}
}

// FuncBody builds a whole function declaration.
func (p *Builder) Func(f *Func) {
	pkg := p.X.B.Pkg
	var params, results []*types.Var
	for _, pr := range f.Params {
		params = append(params, pkg.NewParam(token.NoPos, pr[0], p.tkey(pr[1]), false))
	}
	for _, r := range f.Results {
		results = append(results, pkg.NewParam(token.NoPos, "", p.tkey(r), false))
	}
	tok := p.open("func")
	fn := pkg.NewFunc(nil, f.Name, types.NewTuple(params...), types.NewTuple(results...), false)
	fn.BodyStart(pkg)
	p.body(f.Body)
	p.cb().End()
	p.close("func", tok)
}

// body pre-creates the labels of a function body (as a front end does, so that forward
// gotos resolve) and builds the statements.
func (p *Builder) body(ss []*S) {
	saved := p.labels
	p.labels = map[string]*gogen.Label{}
	var names []string
	collectLabels(ss, &names)
	for _, n := range names {
		if _, dup := p.labels[n]; dup {
			// duplicate definition: NewLabel reports it through the error handler
			p.cb().NewLabel(token.NoPos, token.NoPos, n)
			continue
		}
		p.labels[n] = p.cb().NewLabel(token.NoPos, token.NoPos, n)
	}
	p.Block(ss)
	p.labels = saved
}

func (p *Builder) Block(ss []*S) {
	for _, s := range ss {
		p.Stmt(s)
	}
}

func (p *Builder) label(name string) *gogen.Label {
	if name == "" {
		return nil
	}
	l := p.labels[name]
	if l == nil {
		panic("st: undefined label " + name)
	}
	return l
}

// twoValue marks the comma-ok forms: with two targets and a single index / type assertion /
// receive expression a front end asks the operation for two values.
func twoValue(targets int, es []*ex.E) {
	if targets == 2 && len(es) == 1 && es[0] != nil {
		switch e := es[0]; {
		case e.K == ex.KIdx, e.K == ex.KAssert, e.K == ex.KUn && e.Tok == token.ARROW:
			e.Lhs = 2
		}
	}
}

func (p *Builder) Stmt(s *S) {
	cb := p.cb()
	pkg := p.X.B.Pkg
	switch s.K {
	case KAssign:
		twoValue(len(s.L), s.E)
	case KDefine, KVar:
		twoValue(len(s.Names), s.E)
	}
	switch s.K {
	case KExpr:
		p.X.Build(s.E[0])
		cb.EndStmt()
	case KAssign:
		for _, l := range s.L {
			p.lhs(l)
		}
		for _, e := range s.E {
			p.X.Build(e)
		}
		cb.AssignWith(len(s.L), len(s.E)).EndStmt()
	case KDefine:
		cb.DefineVarStart(token.NoPos, s.Names...)
		for _, e := range s.E {
			p.X.Build(e)
		}
		cb.EndInit(len(s.E))
	case KOpAssign:
		p.lhs(s.L[0])
		p.X.Build(s.E[0])
		cb.AssignOp(s.Tok).EndStmt()
	case KIncDec:
		p.lhs(s.L[0])
		cb.IncDec(s.Tok).EndStmt()
	case KVar:
		var t types.Type
		if s.T != "" {
			t = p.tkey(s.T)
		}
		if len(s.E) == 0 {
			cb.NewVar(t, s.Names...)
		} else {
			cb.NewVarStart(t, s.Names...)
			for _, e := range s.E {
				p.X.Build(e)
			}
			cb.EndInit(len(s.E))
		}
	case KConst:
		var t types.Type
		if s.T != "" {
			t = p.tkey(s.T)
		}
		cb.NewConstStart(t, s.Names...)
		for _, e := range s.E {
			p.X.Build(e)
		}
		cb.EndInit(len(s.E))
	case KIf:
		tok := p.open("if")
		cb.If()
		if s.Init != nil {
			p.Stmt(s.Init)
		}
		p.X.Build(s.E[0])
		cb.Then()
		p.Block(s.B[0])
		if len(s.B) > 1 && s.B[1] != nil {
			cb.Else()
			p.Block(s.B[1])
		}
		cb.End()
		p.close("if", tok)
	case KFor:
		tok := p.open("for")
		cb.For()
		if s.Init != nil {
			p.Stmt(s.Init)
		}
		if len(s.E) > 0 && s.E[0] != nil {
			p.X.Build(s.E[0])
		} else {
			cb.None()
		}
		cb.Then()
		p.Block(s.B[0])
		if s.Post != nil {
			cb.Post()
			p.Stmt(s.Post)
		}
		cb.End()
		p.close("for", tok)
	case KRange:
		tok := p.open("range")
		if s.Define {
			cb.ForRange(s.Names...)
		} else {
			cb.ForRange()
			for _, l := range s.L {
				p.lhs(l)
			}
		}
		p.X.Build(s.E[0])
		cb.RangeAssignThen(token.NoPos)
		p.Block(s.B[0])
		cb.End()
		p.close("range", tok)
	case KSwitch:
		tok := p.open("switch")
		cb.Switch()
		if s.Init != nil {
			p.Stmt(s.Init)
		}
		if len(s.E) > 0 && s.E[0] != nil {
			p.X.Build(s.E[0])
		} else {
			cb.None()
		}
		cb.Then()
		for _, c := range s.Cases {
			ct := p.open("case")
			if c.Default {
				cb.DefaultThen()
			} else {
				cb.Case()
				for _, e := range c.Exprs {
					p.X.Build(e)
				}
				cb.Then()
			}
			for _, bs := range c.Body {
				if bs.K == KFallthrough {
					cb.Fallthrough()
					if p.OnStmt != nil {
						p.OnStmt(KFallthrough)
					}
					continue
				}
				p.Stmt(bs)
			}
			cb.End()
			p.close("case", ct)
		}
		cb.End()
		p.close("switch", tok)
	case KTypeSw:
		tok := p.open("typeswitch")
		cb.TypeSwitch(s.Name)
		if s.Init != nil {
			p.Stmt(s.Init)
		}
		p.X.Build(s.E[0])
		cb.TypeAssertThen()
		for _, c := range s.Cases {
			ct := p.open("typecase")
			if c.Default {
				cb.TypeDefaultThen()
			} else {
				cb.TypeCase()
				for _, t := range c.Types {
					if t == "nil" {
						cb.Val(nil)
					} else {
						cb.Typ(p.tkey(t))
					}
				}
				cb.Then()
			}
			p.Block(c.Body)
			cb.End()
			p.close("typecase", ct)
		}
		cb.End()
		p.close("typeswitch", tok)
	case KSelect:
		tok := p.open("select")
		cb.Select()
		for _, c := range s.Cases {
			ct := p.open("commcase")
			if c.Default {
				cb.CommDefaultThen()
			} else {
				cb.CommCase()
				p.Stmt(c.Comm)
				cb.Then()
			}
			p.Block(c.Body)
			cb.End()
			p.close("commcase", ct)
		}
		cb.End()
		p.close("select", tok)
	case KLabeled:
		cb.Label(p.label(s.Label))
		if len(s.B) > 0 && len(s.B[0]) > 0 {
			p.Stmt(s.B[0][0])
			return
		}
	case KBreak:
		cb.Break(p.label(s.Label))
	case KContinue:
		cb.Continue(p.label(s.Label))
	case KGoto:
		cb.Goto(p.label(s.Label))
	case KFallthrough:
		cb.Fallthrough()
	case KReturn:
		for _, e := range s.E {
			p.X.Build(e)
		}
		cb.Return(len(s.E))
	case KDefer:
		p.X.Build(s.E[0])
		cb.Defer()
	case KGo:
		p.X.Build(s.E[0])
		cb.Go()
	case KSend:
		p.X.Build(s.E[0])
		p.X.Build(s.E[1])
		cb.Send()
	case KBlock:
		tok := p.open("block")
		cb.Block()
		p.Block(s.B[0])
		cb.End()
		p.close("block", tok)
	case KClosure:
		tok := p.open("closure")
		var results *types.Tuple
		if s.T != "" {
			results = types.NewTuple(pkg.NewParam(token.NoPos, "", p.tkey(s.T), false))
		}
		cb.NewClosure(nil, results, false).BodyStart(pkg)
		p.body(s.B[0])
		cb.End()
		p.close("closure", tok)
		cb.Call(0).EndStmt()
	default:
		panic("build: " + s.K)
	}
	if p.OnStmt != nil {
		p.OnStmt(s.K)
	}
}
