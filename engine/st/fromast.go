package st

import (
	"fmt"
	"go/ast"
	"go/parser"
	"go/token"
	"go/types"
	"strings"

	"verifengine/ex"
)

// ParseFuncs converts every function declaration of a Go source file (package p, importing
// env / unsafe only) into IR. Constructs outside the IR make it return an error (the snippet
// is then not part of the space).
func ParseFuncs(src string) (fs []*Func, err error) {
	defer func() {
		if e := recover(); e != nil {
			err = fmt.Errorf("%v", e)
		}
	}()
	f, perr := parser.ParseFile(token.NewFileSet(), "s.go", src, parser.SkipObjectResolution)
	if perr != nil {
		return nil, perr
	}
	for _, d := range f.Decls {
		fd, ok := d.(*ast.FuncDecl)
		if !ok || fd.Body == nil || fd.Recv != nil {
			continue
		}
		fn := &Func{Name: fd.Name.Name}
		for _, p := range fd.Type.Params.List {
			for _, n := range p.Names {
				fn.Params = append(fn.Params, [2]string{n.Name, types.ExprString(p.Type)})
			}
		}
		if fd.Type.Results != nil {
			for _, r := range fd.Type.Results.List {
				if len(r.Names) > 0 {
					panic("named results not in IR")
				}
				fn.Results = append(fn.Results, types.ExprString(r.Type))
			}
		}
		fn.Body = block(fd.Body.List)
		fs = append(fs, fn)
	}
	return fs, nil
}

var typeNames = map[string]bool{"bool": true, "int": true, "int8": true, "int16": true, "int32": true, "int64": true, "uint": true, "uint8": true, "uint16": true, "uint32": true, "uint64": true, "uintptr": true,
	"float32": true, "float64": true, "complex64": true, "complex128": true, "string": true, "byte": true, "rune": true, "any": true, "error": true}
var envTypes = map[string]bool{"M": true, "Str": true, "F64": true, "B": true, "U8": true, "S": true, "I": true, "Sl": true, "Mp": true}
var builtins = map[string]bool{"len": true, "cap": true, "append": true, "copy": true, "delete": true, "clear": true, "new": true, "make": true, "min": true, "max": true, "complex": true, "real": true, "imag": true,
	"panic": true, "print": true, "println": true, "recover": true, "close": true, "true": true, "false": true, "iota": true}

func isType(e ast.Expr) bool {
	switch v := e.(type) {
	case *ast.Ident:
		return typeNames[v.Name]
	case *ast.ParenExpr:
		return isType(v.X)
	case *ast.ArrayType, *ast.MapType, *ast.ChanType, *ast.FuncType, *ast.InterfaceType, *ast.StructType:
		return true
	case *ast.StarExpr:
		return isType(v.X)
	case *ast.SelectorExpr:
		if id, ok := v.X.(*ast.Ident); ok {
			return (id.Name == "env" && envTypes[v.Sel.Name]) || (id.Name == "unsafe" && v.Sel.Name == "Pointer")
		}
	}
	return false
}

func exprs(es []ast.Expr) []*ex.E {
	var out []*ex.E
	for _, e := range es {
		out = append(out, expr(e))
	}
	return out
}

func expr(e ast.Expr) *ex.E {
	switch v := e.(type) {
	case *ast.ParenExpr:
		return expr(v.X)
	case *ast.BasicLit:
		return ex.Lit(v.Kind, v.Value)
	case *ast.Ident:
		switch {
		case v.Name == "nil":
			return ex.Nil()
		case builtins[v.Name]:
			return ex.Uni(v.Name)
		}
		return ex.Local(v.Name)
	case *ast.SelectorExpr:
		if id, ok := v.X.(*ast.Ident); ok && id.Name == "env" {
			return ex.Obj(v.Sel.Name)
		}
		return ex.Sel(expr(v.X), v.Sel.Name)
	case *ast.BinaryExpr:
		return ex.Bin(v.Op, expr(v.X), expr(v.Y))
	case *ast.UnaryExpr:
		return ex.Un(v.Op, expr(v.X))
	case *ast.StarExpr:
		return ex.Star(expr(v.X))
	case *ast.IndexExpr:
		return ex.Idx(expr(v.X), expr(v.Index))
	case *ast.SliceExpr:
		a := []*ex.E{expr(v.X), nil, nil}
		if v.Low != nil {
			a[1] = expr(v.Low)
		}
		if v.High != nil {
			a[2] = expr(v.High)
		}
		if v.Slice3 {
			a = append(a, expr(v.Max))
		}
		return &ex.E{K: ex.KSlc, A: a}
	case *ast.TypeAssertExpr:
		return ex.Assert(expr(v.X), types.ExprString(v.Type))
	case *ast.CallExpr:
		if isType(v.Fun) && len(v.Args) == 1 {
			return ex.Conv(types.ExprString(ast.Unparen(v.Fun)), expr(v.Args[0]))
		}
		if sel, ok := v.Fun.(*ast.SelectorExpr); ok {
			if id, ok := sel.X.(*ast.Ident); ok && id.Name == "unsafe" {
				return &ex.E{K: ex.KUnsafe, Name: sel.Sel.Name, A: exprs(v.Args)}
			}
		}
		c := &ex.E{K: ex.KCall, A: []*ex.E{expr(v.Fun)}, Ell: v.Ellipsis.IsValid()}
		for i, a := range v.Args {
			if id, ok := v.Fun.(*ast.Ident); ok && (id.Name == "new" || id.Name == "make") && i == 0 {
				c.A = append(c.A, ex.TypeArg(types.ExprString(a)))
				continue
			}
			c.A = append(c.A, expr(a))
		}
		return c
	case *ast.CompositeLit:
		t := types.ExprString(v.Type)
		switch tt := v.Type.(type) {
		case *ast.ArrayType:
			for _, el := range v.Elts {
				if _, kv := el.(*ast.KeyValueExpr); kv {
					panic("keyed array literal not in IR")
				}
			}
			if tt.Len == nil {
				return &ex.E{K: ex.KSliceLit, T: t, A: exprs(v.Elts)}
			}
			return &ex.E{K: ex.KArrayLit, T: t, A: exprs(v.Elts)}
		case *ast.MapType:
			var a []*ex.E
			for _, el := range v.Elts {
				kv := el.(*ast.KeyValueExpr)
				a = append(a, expr(kv.Key), expr(kv.Value))
			}
			return &ex.E{K: ex.KMapLit, T: t, A: a}
		default:
			if strings.HasPrefix(t, "env.S") && len(t) == 5 {
				for _, el := range v.Elts {
					if _, kv := el.(*ast.KeyValueExpr); kv {
						panic("keyed struct literal not in IR")
					}
				}
				return &ex.E{K: ex.KStructLit, T: t, A: exprs(v.Elts)}
			}
			if t == "env.Sl" {
				return &ex.E{K: ex.KSliceLit, T: t, A: exprs(v.Elts)}
			}
			if t == "env.Mp" {
				var a []*ex.E
				for _, el := range v.Elts {
					kv := el.(*ast.KeyValueExpr)
					a = append(a, expr(kv.Key), expr(kv.Value))
				}
				return &ex.E{K: ex.KMapLit, T: t, A: a}
			}
		}
	}
	panic(fmt.Sprintf("expression %T not in IR", e))
}

func lhs(e ast.Expr) *Lhs {
	switch v := e.(type) {
	case *ast.ParenExpr:
		return lhs(v.X)
	case *ast.Ident:
		if v.Name == "_" {
			return &Lhs{K: "blank"}
		}
		return &Lhs{K: "local", Name: v.Name}
	case *ast.SelectorExpr:
		if id, ok := v.X.(*ast.Ident); ok && id.Name == "env" {
			return &Lhs{K: "env", Name: v.Sel.Name}
		}
		return &Lhs{K: "sel", X: expr(v.X), Name: v.Sel.Name}
	case *ast.IndexExpr:
		return &Lhs{K: "idx", X: expr(v.X), I: expr(v.Index)}
	case *ast.StarExpr:
		return &Lhs{K: "deref", X: expr(v.X)}
	}
	panic(fmt.Sprintf("assignment target %T not in IR", e))
}

func block(ss []ast.Stmt) []*S {
	out := []*S{}
	for _, s := range ss {
		out = append(out, stmt(s))
	}
	return out
}

func names(es []ast.Expr) []string {
	var out []string
	for _, e := range es {
		out = append(out, e.(*ast.Ident).Name)
	}
	return out
}

var opAssign = map[token.Token]bool{token.ADD_ASSIGN: true, token.SUB_ASSIGN: true, token.MUL_ASSIGN: true, token.QUO_ASSIGN: true, token.REM_ASSIGN: true, token.AND_ASSIGN: true, token.OR_ASSIGN: true,
	token.XOR_ASSIGN: true, token.SHL_ASSIGN: true, token.SHR_ASSIGN: true, token.AND_NOT_ASSIGN: true}

func stmt(s ast.Stmt) *S {
	switch v := s.(type) {
	case *ast.ExprStmt:
		if call, ok := v.X.(*ast.CallExpr); ok {
			if fl, ok := call.Fun.(*ast.FuncLit); ok && len(call.Args) == 0 && len(fl.Type.Params.List) == 0 {
				t := ""
				if fl.Type.Results != nil && len(fl.Type.Results.List) == 1 {
					t = types.ExprString(fl.Type.Results.List[0].Type)
				} else if fl.Type.Results != nil {
					panic("closure results not in IR")
				}
				return &S{K: KClosure, T: t, B: [][]*S{block(fl.Body.List)}}
			}
		}
		return &S{K: KExpr, E: []*ex.E{expr(v.X)}}
	case *ast.AssignStmt:
		switch {
		case v.Tok == token.DEFINE:
			return &S{K: KDefine, Names: names(v.Lhs), E: exprs(v.Rhs)}
		case v.Tok == token.ASSIGN:
			out := &S{K: KAssign, E: exprs(v.Rhs)}
			for _, l := range v.Lhs {
				out.L = append(out.L, lhs(l))
			}
			return out
		case opAssign[v.Tok]:
			return &S{K: KOpAssign, Tok: v.Tok, L: []*Lhs{lhs(v.Lhs[0])}, E: exprs(v.Rhs)}
		}
	case *ast.IncDecStmt:
		return &S{K: KIncDec, Tok: v.Tok, L: []*Lhs{lhs(v.X)}}
	case *ast.DeclStmt:
		gd := v.Decl.(*ast.GenDecl)
		if len(gd.Specs) != 1 {
			panic("grouped declaration not in IR")
		}
		vs, ok := gd.Specs[0].(*ast.ValueSpec)
		if !ok {
			panic("type declaration statement not in IR")
		}
		out := &S{K: KVar, E: exprs(vs.Values)}
		if gd.Tok == token.CONST {
			out.K = KConst
		}
		for _, n := range vs.Names {
			out.Names = append(out.Names, n.Name)
		}
		if vs.Type != nil {
			out.T = types.ExprString(vs.Type)
		}
		return out
	case *ast.IfStmt:
		out := &S{K: KIf, E: []*ex.E{expr(v.Cond)}, B: [][]*S{block(v.Body.List)}}
		if v.Init != nil {
			out.Init = stmt(v.Init)
		}
		switch el := v.Else.(type) {
		case *ast.BlockStmt:
			out.B = append(out.B, block(el.List))
		case *ast.IfStmt:
			n := stmt(el)
			n.Define = true
			out.B = append(out.B, []*S{n})
		}
		return out
	case *ast.ForStmt:
		out := &S{K: KFor, E: []*ex.E{nil}, B: [][]*S{block(v.Body.List)}}
		if v.Cond != nil {
			out.E[0] = expr(v.Cond)
		}
		if v.Init != nil {
			out.Init = stmt(v.Init)
		}
		if v.Post != nil {
			out.Post = stmt(v.Post)
		}
		return out
	case *ast.RangeStmt:
		out := &S{K: KRange, E: []*ex.E{expr(v.X)}, B: [][]*S{block(v.Body.List)}}
		if v.Tok == token.DEFINE {
			out.Define = true
			out.Names = append(out.Names, v.Key.(*ast.Ident).Name)
			if v.Value != nil {
				out.Names = append(out.Names, v.Value.(*ast.Ident).Name)
			}
		} else if v.Key != nil {
			out.L = append(out.L, lhs(v.Key))
			if v.Value != nil {
				out.L = append(out.L, lhs(v.Value))
			}
		}
		return out
	case *ast.SwitchStmt:
		out := &S{K: KSwitch, E: []*ex.E{nil}}
		if v.Tag != nil {
			out.E[0] = expr(v.Tag)
		}
		if v.Init != nil {
			out.Init = stmt(v.Init)
		}
		for _, c := range v.Body.List {
			cc := c.(*ast.CaseClause)
			out.Cases = append(out.Cases, &Case{Exprs: exprs(cc.List), Default: cc.List == nil, Body: block(cc.Body)})
		}
		return out
	case *ast.TypeSwitchStmt:
		out := &S{K: KTypeSw}
		if v.Init != nil {
			out.Init = stmt(v.Init)
		}
		switch a := v.Assign.(type) {
		case *ast.AssignStmt:
			out.Name = a.Lhs[0].(*ast.Ident).Name
			out.E = []*ex.E{expr(a.Rhs[0].(*ast.TypeAssertExpr).X)}
		case *ast.ExprStmt:
			out.E = []*ex.E{expr(a.X.(*ast.TypeAssertExpr).X)}
		}
		for _, c := range v.Body.List {
			cc := c.(*ast.CaseClause)
			cs := &Case{Default: cc.List == nil, Body: block(cc.Body)}
			for _, t := range cc.List {
				cs.Types = append(cs.Types, types.ExprString(t))
			}
			out.Cases = append(out.Cases, cs)
		}
		return out
	case *ast.SelectStmt:
		out := &S{K: KSelect}
		for _, c := range v.Body.List {
			cc := c.(*ast.CommClause)
			cs := &Case{Default: cc.Comm == nil, Body: block(cc.Body)}
			if cc.Comm != nil {
				cs.Comm = stmt(cc.Comm)
			}
			out.Cases = append(out.Cases, cs)
		}
		return out
	case *ast.LabeledStmt:
		out := &S{K: KLabeled, Label: v.Label.Name}
		if _, empty := v.Stmt.(*ast.EmptyStmt); !empty {
			out.B = [][]*S{{stmt(v.Stmt)}}
		}
		return out
	case *ast.BranchStmt:
		l := ""
		if v.Label != nil {
			l = v.Label.Name
		}
		switch v.Tok {
		case token.BREAK:
			return &S{K: KBreak, Label: l}
		case token.CONTINUE:
			return &S{K: KContinue, Label: l}
		case token.GOTO:
			return &S{K: KGoto, Label: l}
		case token.FALLTHROUGH:
			return &S{K: KFallthrough}
		}
	case *ast.ReturnStmt:
		return &S{K: KReturn, E: exprs(v.Results)}
	case *ast.DeferStmt:
		return &S{K: KDefer, E: []*ex.E{expr(v.Call)}}
	case *ast.GoStmt:
		return &S{K: KGo, E: []*ex.E{expr(v.Call)}}
	case *ast.SendStmt:
		return &S{K: KSend, E: []*ex.E{expr(v.Chan), expr(v.Value)}}
	case *ast.BlockStmt:
		return &S{K: KBlock, B: [][]*S{block(v.List)}}
	}
	panic(fmt.Sprintf("statement %T not in IR", s))
}
