// Package vf is the small coordinator/worker framework shared by every property
// check: sharding into worker processes, counters, distinct-case hashing,
// violation classes, known-finding matching, evidence and replay files.
package vf

import (
	"bufio"
	"crypto/sha1"
	"encoding/hex"
	"encoding/json"
	"flag"
	"fmt"
	"hash/fnv"
	"os"
	"os/exec"
	"path/filepath"
	"regexp"
	"runtime"
	"sort"
	"strconv"
	"strings"
	"sync"
	"time"
)

const Root = "/verif"

// outRoot is where evidence and replay files go: Root, unless VERIF_OUT redirects them (used when a check is
// run against a patched copy of the repository, tools/check_mutant.sh, so that the registered evidence is
// not overwritten).
func outRoot() string {
	if d := os.Getenv("VERIF_OUT"); d != "" {
		return d
	}
	return Root
}

// Violation is one failing case.
type Violation struct {
	Class  string          `json:"class"`  // structural class key (operator/kinds/context/oracle category)
	Detail string          `json:"detail"` // human readable: input, expected, observed
	Replay json.RawMessage `json:"replay"` // payload understood by Prop.Replay
}

// Result is what one worker reports.
type Result struct {
	Evals       int64                  `json:"evals"`
	Hashes      []uint64               `json:"hashes"`
	Tallies     map[string]int64       `json:"tallies"`
	Samples     []any                  `json:"samples"`
	Violations  map[string][]Violation `json:"violations"` // class -> first few
	VioCounts   map[string]int64       `json:"vio_counts"`
	States      int64                  `json:"states"`
	Transitions int64                  `json:"transitions"`
	Traces      int64                  `json:"traces"`
	Caps        []string               `json:"caps"`
	Notes       []string               `json:"notes"`
	Outcomes    []uint64               `json:"outcomes"`
}

// Ctx is handed to a property's Run function inside a worker.
type Ctx struct {
	Prop     string
	Tier     string
	Seed     int64
	Idx, N   int
	Deadline time.Time
	res      Result
	hashes   map[uint64]struct{}
	outcomes map[uint64]struct{}
	counter  int64
	mu       sync.Mutex

	expiredSeen bool
}

func (c *Ctx) Thorough() bool { return c.Tier == "thorough" }

// Mine reports whether the next enumerated item belongs to this worker
// (round-robin on a running counter; the seed only rotates the assignment).
func (c *Ctx) Mine() bool {
	i := c.counter
	c.counter++
	return int((i+c.Seed)%int64(c.N)) == c.Idx
}

// MineIdx is Mine for an explicit index.
func (c *Ctx) MineIdx(i int64) bool { return int((i+c.Seed)%int64(c.N)) == c.Idx }

func (c *Ctx) Eval(n int) { c.res.Evals += int64(n) }

func h64(s string) uint64 {
	h := fnv.New64a()
	h.Write([]byte(s))
	return h.Sum64()
}

// Distinct records a non-trivial case under a distinctness key.
func (c *Ctx) Distinct(key string) {
	c.hashes[h64(key)] = struct{}{}
}

// Outcome records one observed outcome class (vacuity guard).
func (c *Ctx) Outcome(key string) { c.outcomes[h64(key)] = struct{}{} }

func (c *Ctx) Tally(name string, n int) {
	c.res.Tallies[name] += int64(n)
}

func (c *Ctx) Sample(v any) {
	if len(c.res.Samples) < 6 {
		c.res.Samples = append(c.res.Samples, v)
	}
}

func (c *Ctx) State(n int)      { c.res.States += int64(n) }
func (c *Ctx) Transition(n int) { c.res.Transitions += int64(n) }
func (c *Ctx) Trace(n int)      { c.res.Traces += int64(n) }
func (c *Ctx) Cap(s string) {
	for _, x := range c.res.Caps {
		if x == s {
			return
		}
	}
	c.res.Caps = append(c.res.Caps, s)
}
func (c *Ctx) Note(s string) {
	if len(c.res.Notes) < 50 {
		c.res.Notes = append(c.res.Notes, s)
	}
}

// Flush writes the worker's results now (used right before a worker terminates itself).
func (c *Ctx) Flush() {
	for h := range c.hashes {
		c.res.Hashes = append(c.res.Hashes, h)
	}
	for h := range c.outcomes {
		c.res.Outcomes = append(c.res.Outcomes, h)
	}
	out := os.Getenv("VERIF_WORKER_OUT")
	f, err := os.Create(out + ".tmp")
	if err != nil {
		return
	}
	json.NewEncoder(f).Encode(&c.res)
	f.Close()
	os.Rename(out+".tmp", out)
}

// Expired reports whether the wall budget of this run is used up.
// The first time it does, the cap is recorded, so that a tier cut short is never reported as exhaustive.
func (c *Ctx) Expired() bool {
	if !time.Now().After(c.Deadline) {
		return false
	}
	if !c.expiredSeen {
		c.expiredSeen = true
		c.Cap("wall budget")
	}
	return true
}

func (c *Ctx) Violation(class, detail string, replay any) {
	c.res.VioCounts[class]++
	if len(c.res.Violations[class]) < 3 {
		raw, _ := json.Marshal(replay)
		c.res.Violations[class] = append(c.res.Violations[class], Violation{class, detail, raw})
	}
}

// Prop describes one property check.
type Prop struct {
	ID          string
	Level       string // evidence level
	Rule        string
	Assumptions []string
	Workers     int // 0 = NumCPU
	// Budget returns the wall budget per tier.
	QuickBudget, ThoroughBudget time.Duration
	Run                         func(c *Ctx)
	Replay                      func(raw json.RawMessage) (string, bool) // detail, stillFails
	// Extra lets a property add keys to coverage (computed in coordinator from merged tallies).
	Extra func(t map[string]int64, cov map[string]any)
}

var Registry = map[string]*Prop{}

func Register(p *Prop) { Registry[p.ID] = p }

// ---------------------------------------------------------------------------------------
// known findings

type Finding struct {
	ID       string   `json:"id"`
	Property string   `json:"property"`
	Keys     []string `json:"keys,omitempty"`    // exact violation classes
	Pattern  string   `json:"pattern,omitempty"` // anchored regexp on the class (narrow!)
	What     string   `json:"what"`
	Status   string   `json:"status,omitempty"` // "" = open finding; "fixed" entries suppress nothing
	Baseline bool     `json:"baseline,omitempty"` // classes must also be listed (with input counts) in known/<id>.<tier>.tsv
	Example  string   `json:"example,omitempty"`
	re       *regexp.Regexp
}

func LoadFindings(prop string) []*Finding {
	f, err := os.Open(filepath.Join(Root, "known_findings.jsonl"))
	if err != nil {
		return nil
	}
	defer f.Close()
	var out []*Finding
	sc := bufio.NewScanner(f)
	sc.Buffer(make([]byte, 1<<20), 1<<26)
	for sc.Scan() {
		line := strings.TrimSpace(sc.Text())
		if line == "" || strings.HasPrefix(line, "#") || strings.HasPrefix(line, "fixed:") {
			continue
		}
		var k Finding
		if err := json.Unmarshal([]byte(line), &k); err != nil {
			fmt.Fprintf(os.Stderr, "known_findings.jsonl: bad line: %v\n", err)
			os.Exit(2)
		}
		if k.Property != prop || k.Status == "fixed" {
			continue
		}
		if k.Pattern != "" {
			k.re = regexp.MustCompile("^(?:" + k.Pattern + ")$")
		}
		out = append(out, &k)
	}
	return out
}

func (k *Finding) Matches(class string) bool {
	for _, s := range k.Keys {
		if s == class {
			return true
		}
	}
	return k.re != nil && k.re.MatchString(class)
}

// ---------------------------------------------------------------------------------------
// main

func Main() {
	var tier, replay string
	var triage, writeKnown bool
	var workers int
	flag.StringVar(&tier, "tier", os.Getenv("VERIF_TIER"), "quick|thorough")
	flag.StringVar(&replay, "replay", "", "replay file")
	flag.BoolVar(&triage, "triage", false, "print every violation class with counts (no known-finding filtering)")
	flag.BoolVar(&writeKnown, "write-known", false, "offline maintenance: (re)write known/<id>.<tier>.tsv from this run (never done by a registered check)")
	flag.IntVar(&workers, "workers", 0, "worker processes")
	flag.Parse()
	if flag.NArg() < 1 {
		fmt.Fprintln(os.Stderr, "usage: vcheck [-tier quick|thorough] [-replay f] <property>")
		os.Exit(2)
	}
	id := flag.Arg(0)
	p := Registry[id]
	if p == nil {
		fmt.Fprintf(os.Stderr, "unknown property %s\n", id)
		os.Exit(2)
	}
	if tier == "" {
		tier = "quick"
	}
	seed, _ := strconv.ParseInt(os.Getenv("VERIF_SEED"), 10, 64)
	if seed < 0 {
		seed = -seed
	}

	if replay != "" {
		os.Exit(doReplay(p, replay))
	}
	if w := os.Getenv("VERIF_WORKER"); w != "" {
		runWorker(p, tier, seed, w)
		return
	}
	os.Exit(coordinate(p, tier, seed, workers, triage, writeKnown))
}

func budget(p *Prop, tier string) time.Duration {
	b := p.QuickBudget
	if tier == "thorough" {
		b = p.ThoroughBudget
	}
	if b == 0 {
		if tier == "thorough" {
			b = 30 * time.Minute
		} else {
			b = 8 * time.Minute
		}
	}
	if s := os.Getenv("VERIF_BUDGET_S"); s != "" {
		if n, err := strconv.Atoi(s); err == nil {
			b = time.Duration(n) * time.Second
		}
	}
	return b
}

func runWorker(p *Prop, tier string, seed int64, w string) {
	var idx, n int
	fmt.Sscanf(w, "%d/%d", &idx, &n)
	c := &Ctx{Prop: p.ID, Tier: tier, Seed: seed, Idx: idx, N: n,
		Deadline: time.Now().Add(budget(p, tier)),
		hashes:   map[uint64]struct{}{}, outcomes: map[uint64]struct{}{}}
	c.res.Tallies = map[string]int64{}
	c.res.Violations = map[string][]Violation{}
	c.res.VioCounts = map[string]int64{}
	p.Run(c)
	for h := range c.hashes {
		c.res.Hashes = append(c.res.Hashes, h)
	}
	for h := range c.outcomes {
		c.res.Outcomes = append(c.res.Outcomes, h)
	}
	out := os.Getenv("VERIF_WORKER_OUT")
	f, err := os.Create(out + ".tmp")
	if err != nil {
		fmt.Fprintln(os.Stderr, err)
		os.Exit(3)
	}
	enc := json.NewEncoder(f)
	if err := enc.Encode(&c.res); err != nil {
		fmt.Fprintln(os.Stderr, err)
		os.Exit(3)
	}
	f.Close()
	os.Rename(out+".tmp", out)
}

func coordinate(p *Prop, tier string, seed int64, workers int, triage, writeKnown bool) int {
	start := time.Now()
	if workers == 0 {
		workers = p.Workers
	}
	if workers == 0 {
		workers = runtime.NumCPU()
	}
	runDir := filepath.Join(Root, ".run", p.ID+"-"+tier)
	os.RemoveAll(runDir)
	os.MkdirAll(runDir, 0o755)
	defer os.RemoveAll(runDir)
	self, _ := os.Executable()
	type wres struct {
		res  *Result
		err  error
		logf string
	}
	results := make([]wres, workers)
	var wg sync.WaitGroup
	for i := 0; i < workers; i++ {
		wg.Add(1)
		go func(i int) {
			defer wg.Done()
			out := filepath.Join(runDir, fmt.Sprintf("w%d.json", i))
			logf := filepath.Join(runDir, fmt.Sprintf("w%d.log", i))
			lf, _ := os.Create(logf)
			defer lf.Close()
			cmd := exec.Command(self, "-tier", tier, p.ID)
			cmd.Env = append(os.Environ(),
				fmt.Sprintf("VERIF_WORKER=%d/%d", i, workers),
				"VERIF_WORKER_OUT="+out,
				"VERIF_RUNDIR="+runDir,
				"GOMAXPROCS=2")
			cmd.Stdout = lf
			cmd.Stderr = lf
			err := cmd.Run()
			results[i].logf = logf
			if err != nil {
				results[i].err = err
				return
			}
			data, err := os.ReadFile(out)
			if err != nil {
				results[i].err = err
				return
			}
			var r Result
			if err := json.Unmarshal(data, &r); err != nil {
				results[i].err = err
				return
			}
			results[i].res = &r
		}(i)
	}
	wg.Wait()

	merged := Result{Tallies: map[string]int64{}, Violations: map[string][]Violation{}, VioCounts: map[string]int64{}}
	hashes := map[uint64]struct{}{}
	outcomes := map[uint64]struct{}{}
	for i, r := range results {
		if r.err != nil {
			tail := ""
			if data, err := os.ReadFile(r.logf); err == nil {
				if len(data) > 4000 {
					data = data[len(data)-4000:]
				}
				tail = string(data)
			}
			fmt.Fprintf(os.Stderr, "worker %d failed: %v\n%s\n", i, r.err, tail)
			return 2
		}
		m := r.res
		merged.Evals += m.Evals
		merged.States += m.States
		merged.Transitions += m.Transitions
		merged.Traces += m.Traces
		for _, h := range m.Hashes {
			hashes[h] = struct{}{}
		}
		for _, h := range m.Outcomes {
			outcomes[h] = struct{}{}
		}
		for k, v := range m.Tallies {
			merged.Tallies[k] += v
		}
		for _, s := range m.Samples {
			if len(merged.Samples) < 8 {
				merged.Samples = append(merged.Samples, s)
			}
		}
		for k, v := range m.VioCounts {
			merged.VioCounts[k] += v
		}
		for k, v := range m.Violations {
			if len(merged.Violations[k]) < 3 {
				merged.Violations[k] = append(merged.Violations[k], v...)
			}
		}
		merged.Caps = append(merged.Caps, m.Caps...)
		merged.Notes = append(merged.Notes, m.Notes...)
	}

	// classify violations
	findings := LoadFindings(p.ID)
	classes := make([]string, 0, len(merged.VioCounts))
	for k := range merged.VioCounts {
		classes = append(classes, k)
	}
	sort.Strings(classes)
	knownCount := map[string]int64{}
	knownClasses := map[string]int{}
	var unknown []string
	baseline, haveBaseline := loadBaseline(p.ID, tier)
	grew := map[string]int64{}
	if writeKnown {
		if len(merged.Caps) > 0 && os.Getenv("VERIF_BASELINE_FROM_CAPPED") == "" {
			// a baseline taken from a run that was cut short under-counts: a later complete run would then
			// report known classes as having grown
			fmt.Printf("NOT writing %s: this run hit caps %v (a baseline must come from a complete run)\n", baselinePath(p.ID, tier), merged.Caps)
			writeKnown = false
		} else {
			writeBaseline(p.ID, tier, classes, merged.VioCounts, findings)
		}
	}
	for _, cl := range classes {
		matched := false
		if !triage {
			for _, k := range findings {
				if k.Matches(cl) {
					// a finding pattern explains the class; the committed baseline table (if the
					// finding uses one) additionally pins the exact classes and their input counts
					if k.Baseline && !writeKnown {
						base, ok := baseline[cl]
						if !haveBaseline || !ok {
							break
						}
						if merged.VioCounts[cl] > base {
							grew[cl] = base
							break
						}
					}
					knownCount[k.ID] += merged.VioCounts[cl]
					knownClasses[k.ID]++
					matched = true
					break
				}
			}
		}
		if !matched {
			unknown = append(unknown, cl)
		}
	}
	for _, k := range findings {
		if knownCount[k.ID] > 0 {
			fmt.Printf("KNOWN-FINDING: property=%s %s %s (%d inputs in %d classes)\n", p.ID, k.ID, k.What, knownCount[k.ID], knownClasses[k.ID])
		}
	}
	exit := 0
	nvio := 0
	for _, cl := range unknown {
		v := merged.Violations[cl][0]
		sum := sha1.Sum([]byte(cl))
		dir := filepath.Join(outRoot(), "replays", p.ID)
		os.MkdirAll(dir, 0o755)
		path := filepath.Join(dir, hex.EncodeToString(sum[:6])+".json")
		if !triage {
			data, _ := json.MarshalIndent(map[string]any{
				"property": p.ID, "class": cl, "count": merged.VioCounts[cl], "detail": v.Detail, "replay": v.Replay,
			}, "", " ")
			os.WriteFile(path, data, 0o644)
		}
		if b, ok := grew[cl]; ok {
			v.Detail = fmt.Sprintf("known class grew from %d to %d inputs; first: %s", b, merged.VioCounts[cl], v.Detail)
		}
		if triage {
			fmt.Printf("CLASS %s count=%d :: %s\n", cl, merged.VioCounts[cl], oneLine(v.Detail))
		} else {
			fmt.Printf("VIOLATION property=%s replay=%s class=%q count=%d :: %s\n", p.ID, path, cl, merged.VioCounts[cl], oneLine(v.Detail))
		}
		nvio += int(merged.VioCounts[cl])
		exit = 1
	}
	if triage {
		exit = 0
	}

	exhaustive := len(merged.Caps) == 0
	cov := map[string]any{
		"evaluations":         merged.Evals,
		"distinct_nontrivial": len(hashes),
		"rule":                p.Rule,
		"samples":             merged.Samples,
		"exhaustive":          exhaustive,
		"distinct_outcomes":   len(outcomes),
		"tallies":             merged.Tallies,
		"workers":             workers,
	}
	if len(merged.Caps) > 0 {
		cov["caps_hit"] = dedup(merged.Caps)
	}
	if len(merged.Notes) > 0 {
		cov["notes"] = dedup(merged.Notes)
	}
	if p.Level == "model_checking" {
		cov["states"] = merged.States
		cov["transitions"] = merged.Transitions
		cov["traces_validated_against_impl"] = merged.Traces
	}
	var kf []string
	for _, k := range findings {
		if knownCount[k.ID] > 0 {
			kf = append(kf, fmt.Sprintf("%s: %d inputs / %d classes", k.ID, knownCount[k.ID], knownClasses[k.ID]))
		}
	}
	if kf != nil {
		cov["known_findings_reproduced"] = kf
	}
	if p.Extra != nil {
		p.Extra(merged.Tallies, cov)
	}
	ev := map[string]any{
		"property_id": p.ID,
		"tier":        tier,
		"seed":        seed,
		"level":       p.Level,
		"coverage":    cov,
		"assumptions": p.Assumptions,
		"wall_s":      time.Since(start).Seconds(),
		"violations":  nvio,
	}
	if !triage {
		data, _ := json.MarshalIndent(ev, "", " ")
		os.MkdirAll(filepath.Join(outRoot(), "evidence"), 0o755)
		os.WriteFile(filepath.Join(outRoot(), "evidence", p.ID+".json"), data, 0o644)
	}
	fmt.Printf("%s tier=%s evaluations=%d distinct_nontrivial=%d outcomes=%d states=%d transitions=%d exhaustive=%v violations=%d wall=%.1fs\n",
		p.ID, tier, merged.Evals, len(hashes), len(outcomes), merged.States, merged.Transitions, exhaustive, nvio, time.Since(start).Seconds())
	return exit
}

func dedup(s []string) []string {
	m := map[string]bool{}
	var out []string
	for _, x := range s {
		if !m[x] {
			m[x] = true
			out = append(out, x)
		}
	}
	sort.Strings(out)
	return out
}

func oneLine(s string) string {
	s = strings.ReplaceAll(s, "\n", " | ")
	if len(s) > 400 {
		s = s[:400] + "…"
	}
	return s
}

func doReplay(p *Prop, path string) int {
	data, err := os.ReadFile(path)
	if err != nil {
		fmt.Fprintln(os.Stderr, err)
		return 2
	}
	var f struct {
		Class  string          `json:"class"`
		Replay json.RawMessage `json:"replay"`
	}
	if err := json.Unmarshal(data, &f); err != nil {
		fmt.Fprintln(os.Stderr, err)
		return 2
	}
	if p.Replay == nil {
		fmt.Fprintln(os.Stderr, "property has no replay function")
		return 2
	}
	detail, fails := p.Replay(f.Replay)
	fmt.Println(detail)
	if fails {
		fmt.Printf("VIOLATION property=%s replay=%s class=%q\n", p.ID, path, f.Class)
		return 1
	}
	fmt.Println("replay: property holds on this case")
	return 0
}

// ---------------------------------------------------------------------------------------
// baseline tables: known/<id>.<tier>.tsv, "count<TAB>class", committed, written only by the
// explicit maintenance flag -write-known after the classes were reviewed.

func baselinePath(id, tier string) string {
	return filepath.Join(Root, "known", id+"."+tier+".tsv")
}

func loadBaseline(id, tier string) (map[string]int64, bool) {
	f, err := os.Open(baselinePath(id, tier))
	if err != nil {
		return nil, false
	}
	defer f.Close()
	m := map[string]int64{}
	sc := bufio.NewScanner(f)
	sc.Buffer(make([]byte, 1<<20), 1<<26)
	for sc.Scan() {
		line := sc.Text()
		i := strings.IndexByte(line, '\t')
		if i < 0 {
			continue
		}
		n, err := strconv.ParseInt(line[:i], 10, 64)
		if err != nil {
			continue
		}
		m[line[i+1:]] = n
	}
	return m, true
}

func writeBaseline(id, tier string, classes []string, counts map[string]int64, findings []*Finding) {
	os.MkdirAll(filepath.Join(Root, "known"), 0o755)
	var b strings.Builder
	n, skipped := 0, 0
	for _, cl := range classes {
		ok := false
		for _, k := range findings {
			if k.Matches(cl) && k.Baseline {
				ok = true
				break
			}
		}
		if !ok {
			skipped++
			continue
		}
		fmt.Fprintf(&b, "%d\t%s\n", counts[cl], cl)
		n++
	}
	os.WriteFile(baselinePath(id, tier), []byte(b.String()), 0o644)
	fmt.Printf("wrote %s: %d classes (%d classes not explained by any finding were NOT written)\n", baselinePath(id, tier), n, skipped)
}
