package gx

import (
	"bytes"
	"go/ast"
	"go/parser"
	"go/printer"
	"go/token"
	"go/types"
	"os"

	"github.com/goplus/gogen"
)

// The XGo-builtin configuration (big-number untyped kinds), shared by C01, C11, C17.

// MathBigStub is a declaration-only stand-in for math/big.
const MathBigStub = `package big

type Int struct{ v int }

func NewInt(x int64) *Int { return nil }

func (z *Int) SetString(s string, base int) (*Int, bool) { return z, true }

type Rat struct{ v int }

func NewRat(a, b int64) *Rat { return nil }

func (z *Rat) SetFrac(a, b *Int) *Rat { return z }

type Float struct{ v int }
`

// BiFixture is internal/builtin/big.go of the tree under test with every function body replaced by a panic:
// the declarations (types, Init/Cast functions, operator methods) are what the lowering refers to.
func BiFixture() string {
	repo := os.Getenv("VERIF_REPO")
	if repo == "" {
		repo = "/repo"
	}
	fset := token.NewFileSet()
	f, err := parser.ParseFile(fset, repo+"/internal/builtin/big.go", nil, 0)
	if err != nil {
		panic("gx: cannot read the builtin big declarations: " + err.Error())
	}
	var decls []ast.Decl
	for _, d := range f.Decls {
		if fd, ok := d.(*ast.FuncDecl); ok {
			fd.Body = &ast.BlockStmt{List: []ast.Stmt{&ast.ExprStmt{X: &ast.CallExpr{Fun: ast.NewIdent("panic"), Args: []ast.Expr{&ast.BasicLit{Kind: token.INT, Value: "0"}}}}}}
			fd.Doc = nil
		}
		if gd, ok := d.(*ast.GenDecl); ok && gd.Tok == token.IMPORT {
			continue
		}
		decls = append(decls, d)
	}
	f.Decls = append([]ast.Decl{&ast.GenDecl{Tok: token.IMPORT, Specs: []ast.Spec{&ast.ImportSpec{Path: &ast.BasicLit{Kind: token.STRING, Value: `"math/big"`}}}}}, decls...)
	f.Comments = nil
	f.Name = ast.NewIdent("bi")
	var b bytes.Buffer
	if err := printer.Fprint(&b, token.NewFileSet(), f); err != nil {
		panic(err)
	}
	return b.String()
}

// XGoConf installs the XGo-builtin configuration: the untyped big-number kinds of package bi.
func XGoConf(conf *gogen.Config) {
	conf.NewBuiltin = func(pkg *gogen.Package, conf *gogen.Config) *types.Package {
		bi := pkg.Import("bi") // through the package, so that its overloads are registered
		named := func(n string) *types.Named { return bi.Ref(n).Type().(*types.Named) }
		conf.UntypedBigInt = named("XGo_untyped_bigint")
		conf.UntypedBigRat = named("XGo_untyped_bigrat")
		conf.UntypedBigFloat = named("XGo_untyped_bigfloat")
		builtin := types.NewPackage("", "")
		gogen.InitBuiltin(pkg, builtin, conf)
		return builtin
	}
}

