// Package gx wraps creation of a gogen package for the harness: error capture, panic
// classification, silent logging.
package gx

import (
	"fmt"
	"go/ast"
	"go/token"
	"go/types"
	"io"
	"log"
	"os"
	"runtime"
	"strings"

	"github.com/goplus/gogen"
)

func init() { log.SetOutput(io.Discard) }

const PkgPath = "verif/p"
const PkgName = "p"

// Build is one gogen package under construction.
type Build struct {
	Pkg  *gogen.Package
	Errs []string // messages delivered through Config.HandleErr
	Imp  types.Importer
	Rec  *Recorder
	Extra map[string]any // scratch space for property harnesses
}

// Event is one recorder notification.
type Event struct {
	Kind string // "member" | "call"
	Src  ast.Node
	Obj  types.Object
}

type Recorder struct{ Events []Event }

func (r *Recorder) Member(id ast.Node, obj types.Object) {
	r.Events = append(r.Events, Event{"member", id, obj})
}
func (r *Recorder) Call(fn ast.Node, obj types.Object) {
	r.Events = append(r.Events, Event{"call", fn, obj})
}

// Src is a source node carrying its own text (so error paths that load the expression text work).
type Src struct{ Text string }

func (s *Src) Pos() token.Pos { return token.NoPos }
func (s *Src) End() token.Pos { return token.NoPos }

// SrcNode returns a source node carrying text.
func SrcNode(text string) ast.Node { return &Src{Text: text} }

type interp struct{}

func (interp) LoadExpr(n ast.Node) string {
	if s, ok := n.(*Src); ok {
		return s.Text
	}
	return ""
}

// Options select the configuration.
type Options struct {
	RealBuiltin bool // force the unshared InitBuiltin path (used by the equivalence self-check)
	NoRecorder bool
	NoInterp   bool
	DefaultGo  string
	Conf       func(*gogen.Config)
}

func New(imp types.Importer, o Options) *Build {
	b := &Build{Imp: imp}
	conf := &gogen.Config{
		Importer:      imp,
		HandleErr:     func(err error) { b.Errs = append(b.Errs, err.Error()) },
		DefaultGoFile: o.DefaultGo,
	}
	if !o.NoRecorder {
		b.Rec = &Recorder{}
		conf.Recorder = b.Rec
	}
	if !o.NoInterp {
		conf.NodeInterpreter = interp{}
	}
	if o.Conf != nil {
		o.Conf(conf)
	}
	if gogen.VerifFastBuiltin && !o.RealBuiltin && conf.NewBuiltin == nil && !ForceRealBuiltin {
		conf.NewBuiltin = sharedBuiltin
	}
	b.Pkg = gogen.NewPackage(PkgPath, PkgName, conf)
	return b
}

// Outcome of running a piece of builder code.
type Outcome struct {
	Panicked bool
	Fault    bool   // the recovered value is a runtime.Error (run-time fault)
	Msg      string // panic message
	Stack    string
}

func (o Outcome) OK() bool { return !o.Panicked }

// Try runs f, recovering and classifying any panic.
func Try(f func()) (out Outcome) {
	defer func() {
		if e := recover(); e != nil {
			out.Panicked = true
			out.Msg = fmt.Sprint(e)
			if re, ok := e.(runtime.Error); ok {
				out.Fault = true
				out.Msg = "runtime error: " + strings.TrimPrefix(re.Error(), "runtime error: ")
				buf := make([]byte, 8192)
				out.Stack = string(buf[:runtime.Stack(buf, false)])
			}
		}
	}()
	f()
	return
}

// Accepted reports whether the build is error free so far.
func (b *Build) Accepted(o Outcome) bool { return !o.Panicked && len(b.Errs) == 0 }

// ForceRealBuiltin disables the shared-builtin accelerator process-wide (VERIF_REAL_BUILTIN=1).
var ForceRealBuiltin = os.Getenv("VERIF_REAL_BUILTIN") == "1"

type builtinKey struct{ bi, br, bf *types.Named }

var sharedBuiltins = map[builtinKey]*types.Package{}

// sharedBuiltin is a Config.NewBuiltin that creates the package-independent operator and
// function templates of the builtin package once per process and configuration. The templates
// are immutable after creation (go/types caches inside them are pure); the per-package tables
// are initialised for every package exactly as InitBuiltin does. Every check that relies on it
// re-runs a slice of its inputs with RealBuiltin and requires identical observations.
func sharedBuiltin(pkg *gogen.Package, conf *gogen.Config) *types.Package {
	key := builtinKey{conf.UntypedBigInt, conf.UntypedBigRat, conf.UntypedBigFloat}
	if b, ok := sharedBuiltins[key]; ok {
		gogen.VerifInitBuiltin(pkg, b, conf, false)
		return b
	}
	b := types.NewPackage("", "")
	gogen.VerifInitBuiltin(pkg, b, conf, true)
	sharedBuiltins[key] = b
	return b
}

// Where returns the first gogen frame of a recovered stack (function name without package path).
func Where(stack string) string {
	for _, l := range strings.Split(stack, "\n") {
		if strings.HasPrefix(l, "github.com/goplus/gogen") && !strings.Contains(l, "verif") {
			fn := l
			if j := strings.LastIndex(fn, "("); j > 0 {
				fn = fn[:j]
			}
			return strings.TrimPrefix(fn, "github.com/goplus/gogen")
		}
	}
	return "?"
}
