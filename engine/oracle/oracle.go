// Package oracle runs go/parser + go/types over the text a gogen package writes.
package oracle

import (
	"bytes"
	"fmt"
	"go/ast"
	"go/parser"
	"go/token"
	"go/types"
	"regexp"
	"sort"
	"strings"

	"github.com/goplus/gogen"
)

// Checked is the result of parsing and type-checking emitted text.
type Checked struct {
	Fset   *token.FileSet
	Files  []*ast.File
	Names  []string
	Texts  map[string]string
	Pkg    *types.Package
	Info   *types.Info
	Parse  []string // parse errors
	Errs   []string // type errors (unused var/import filtered)
	ErrPos []token.Pos
	Unused int      // filtered messages
}

func (c *Checked) OK() bool { return len(c.Parse) == 0 && len(c.Errs) == 0 }

func (c *Checked) ErrString() string {
	return strings.Join(append(append([]string{}, c.Parse...), c.Errs...), "; ")
}

// WriteAll writes every file of pkg. A panic/err inside writing is returned as error.
func WriteAll(pkg *gogen.Package) (texts map[string]string, err error) {
	defer func() {
		if e := recover(); e != nil {
			err = fmt.Errorf("panic in WriteTo: %v", e)
		}
	}()
	texts = map[string]string{}
	var names []string
	pkg.ForEachFile(func(fname string, _ *gogen.File) { names = append(names, fname) })
	sort.Strings(names)
	for _, n := range names {
		var b bytes.Buffer
		if e := pkg.WriteTo(&b, n); e != nil {
			return texts, fmt.Errorf("WriteTo(%q): %v", n, e)
		}
		texts[n] = b.String()
	}
	return texts, nil
}

func isUnused(msg string) bool {
	if strings.HasPrefix(msg, "label ") {
		return false
	}
	return strings.Contains(msg, "declared and not used") ||
		strings.Contains(msg, "imported and not used") ||
		(strings.Contains(msg, "imported as") && strings.Contains(msg, "and not used"))
}

// Check parses and type-checks texts as one package with import path pkgPath.
func Check(texts map[string]string, imp types.Importer, pkgPath string) *Checked {
	c := &Checked{Fset: token.NewFileSet(), Texts: texts}
	var names []string
	for n := range texts {
		names = append(names, n)
	}
	sort.Strings(names)
	c.Names = names
	for _, n := range names {
		fn := n
		if fn == "" {
			fn = "default.go"
		}
		f, err := parser.ParseFile(c.Fset, fn, texts[n], parser.ParseComments|parser.SkipObjectResolution)
		if err != nil {
			c.Parse = append(c.Parse, err.Error())
			continue
		}
		c.Files = append(c.Files, f)
	}
	if len(c.Parse) > 0 {
		return c
	}
	c.Info = &types.Info{
		Types:      map[ast.Expr]types.TypeAndValue{},
		Defs:       map[*ast.Ident]types.Object{},
		Uses:       map[*ast.Ident]types.Object{},
		Selections: map[*ast.SelectorExpr]*types.Selection{},
		Instances:  map[*ast.Ident]types.Instance{},
		Implicits:  map[ast.Node]types.Object{},
		Scopes:     map[ast.Node]*types.Scope{},
	}
	conf := types.Config{
		Importer: imp,
		Error: func(err error) {
			msg := err.Error()
			pos := token.NoPos
			if te, ok := err.(types.Error); ok {
				msg = te.Msg
				pos = te.Pos
				if te.Soft && isUnused(msg) {
					c.Unused++
					return
				}
			}
			if isUnused(msg) {
				c.Unused++
				return
			}
			c.Errs = append(c.Errs, msg)
			c.ErrPos = append(c.ErrPos, pos)
		},
	}
	c.Pkg, _ = conf.Check(pkgPath, c.Fset, c.Files, c.Info)
	c.stabilise()
	return c
}

// mapOrdered reports whether go/types emits msg from a loop over a Go map (scope.elems), i.e. in an order
// that differs from run to run: the file-scope/package-scope conflicts of resolver.go ("x already declared
// through import of ...") and the unused labels of labels.go. It returns the group the message belongs to.
func mapOrdered(msg string) int {
	switch {
	case strings.Contains(msg, " already declared through import of "),
		strings.Contains(msg, " already declared through dot-import of "):
		return 1
	case strings.HasPrefix(msg, "label ") && strings.HasSuffix(msg, " declared and not used"):
		return 2
	}
	return 0
}

// stabilise makes the order of the collected type errors a function of the checked text alone: every maximal
// run of consecutive errors that go/types produced by ranging over one map is sorted by (position, message).
// An error is a head message together with the tab-indented sub-errors go/types reports right after it
// ("\tother declaration of x"); they move as one unit. Without this "the first error" of a file with two such
// errors is picked by Go's randomised map iteration, and a violation class keyed by it flips between runs (a
// false alarm of the check, not of gogen).
func (c *Checked) stabilise() {
	type unit struct {
		lo, hi int // c.Errs[lo:hi]
		g      int
	}
	var units []unit
	for i := 0; i < len(c.Errs); {
		j := i + 1
		for j < len(c.Errs) && strings.HasPrefix(c.Errs[j], "\t") {
			j++
		}
		units = append(units, unit{i, j, mapOrdered(c.Errs[i])})
		i = j
	}
	changed := false
	for i := 0; i < len(units); {
		j := i + 1
		for units[i].g != 0 && j < len(units) && units[j].g == units[i].g {
			j++
		}
		if j-i > 1 {
			run := units[i:j]
			sort.SliceStable(run, func(a, b int) bool {
				pa, pb := c.ErrPos[run[a].lo], c.ErrPos[run[b].lo]
				if pa != pb {
					return pa < pb
				}
				return strings.Join(c.Errs[run[a].lo:run[a].hi], "\n") < strings.Join(c.Errs[run[b].lo:run[b].hi], "\n")
			})
			changed = true
		}
		i = j
	}
	if !changed {
		return
	}
	errs := make([]string, 0, len(c.Errs))
	pos := make([]token.Pos, 0, len(c.ErrPos))
	for _, u := range units {
		errs = append(errs, c.Errs[u.lo:u.hi]...)
		pos = append(pos, c.ErrPos[u.lo:u.hi]...)
	}
	c.Errs, c.ErrPos = errs, pos
}

// CheckSrc checks one source text.
func CheckSrc(src string, imp types.Importer, pkgPath string) *Checked {
	return Check(map[string]string{"x.go": src}, imp, pkgPath)
}

// FullQual qualifies every package by its full path.
func FullQual(p *types.Package) string { return p.Path() }

// TypeStr is the canonical string used to compare types across two type-checking universes.
func TypeStr(t types.Type) string {
	if t == nil {
		return "<nil>"
	}
	return types.TypeString(t, FullQual)
}

// ErrCategory reduces a go/types message to a coarse, stable category used in violation
// class keys (so that class keys do not contain operand spellings).
func ErrCategory(msg string) string {
	cats := []struct{ sub, cat string }{
		{"not defined on", "op-not-defined"},
		{"mismatched types", "mismatched-types"},
		{"cannot use", "cannot-use"},
		{"cannot convert", "cannot-convert"},
		{"overflows", "overflows"},
		{"truncated", "truncated"},
		{"division by zero", "div-by-zero"},
		{"invalid shift", "invalid-shift"},
		{"shifted operand", "invalid-shift"},
		{"shift count", "invalid-shift"},
		{"not constant", "not-constant"},
		{"is not a constant", "not-constant"},
		{"cannot index", "cannot-index"},
		{"invalid argument", "invalid-argument"},
		{"non-boolean", "non-boolean"},
		{"cannot assign", "cannot-assign"},
		{"undefined", "undefined"},
		{"redeclared", "redeclared"},
		{"no new variables", "no-new-vars"},
		{"missing return", "missing-return"},
		{"cannot take address", "cannot-address"},
		{"invalid operation", "invalid-operation"},
		{"cannot infer", "cannot-infer"},
		{"does not satisfy", "not-satisfy"},
		{"ambiguous selector", "ambiguous-selector"},
		{"not enough arguments", "arg-count"},
		{"too many arguments", "arg-count"},
		{"assignment mismatch", "assign-mismatch"},
		{"cannot range", "cannot-range"},
		{"cannot receive", "cannot-receive"},
		{"cannot send", "cannot-send"},
		{"invalid receiver", "invalid-receiver"},
		{"not used", "not-used"},
		{"is not a type", "not-a-type"},
		{"is not an expression", "not-an-expr"},
		{"must be integer", "must-be-integer"},
		{"invalid indirect", "invalid-indirect"},
		{"cannot compare", "cannot-compare"},
		{"cannot be compared", "cannot-compare"},
		{"label", "label"},
		{"impossible type", "impossible-type"},
		{"duplicate", "duplicate"},
		{"out of bounds", "out-of-bounds"},
		{"out of range", "out-of-range"},
		{"invalid array length", "array-len"},
		{"array length", "array-len"},
		{"negative", "negative"},
		{"invalid use of", "invalid-use"},
		{"expected", "syntax"},
	}
	for _, c := range cats {
		if strings.Contains(msg, c.sub) {
			return c.cat
		}
	}
	return "other"
}

// Canon renders a type structurally, unaliasing everywhere, so that two types from different
// type-checking universes compare equal iff they are identical up to the identity of named
// types (which is compared by package path + name + type arguments).
func Canon(t types.Type) string {
	var b strings.Builder
	canon(&b, t, nil)
	return b.String()
}

func canon(b *strings.Builder, t types.Type, tps []*types.TypeParam) {
	t = types.Unalias(t)
	switch v := t.(type) {
	case nil:
		b.WriteString("<nil>")
	case *types.Basic:
		switch v.Kind() {
		case types.Uint8:
			b.WriteString("uint8")
		case types.Int32:
			b.WriteString("int32")
		default:
			b.WriteString(v.Name())
		}
	case *types.Pointer:
		b.WriteString("*")
		canon(b, v.Elem(), tps)
	case *types.Slice:
		b.WriteString("[]")
		canon(b, v.Elem(), tps)
	case *types.Array:
		fmt.Fprintf(b, "[%d]", v.Len())
		canon(b, v.Elem(), tps)
	case *types.Map:
		b.WriteString("map[")
		canon(b, v.Key(), tps)
		b.WriteString("]")
		canon(b, v.Elem(), tps)
	case *types.Chan:
		switch v.Dir() {
		case types.SendRecv:
			b.WriteString("chan(")
		case types.SendOnly:
			b.WriteString("chan<-(")
		case types.RecvOnly:
			b.WriteString("<-chan(")
		}
		canon(b, v.Elem(), tps)
		b.WriteString(")")
	case *types.Signature:
		b.WriteString("func")
		if tp := v.TypeParams(); tp != nil {
			b.WriteString("[")
			var mine []*types.TypeParam
			for i := 0; i < tp.Len(); i++ {
				mine = append(mine, tp.At(i))
			}
			tps = append(append([]*types.TypeParam{}, tps...), mine...)
			for i, p := range mine {
				if i > 0 {
					b.WriteString(",")
				}
				canon(b, p.Constraint(), tps)
			}
			b.WriteString("]")
		}
		canonTuple(b, v.Params(), v.Variadic(), tps)
		canonTuple(b, v.Results(), false, tps)
	case *types.Tuple:
		canonTuple(b, v, false, tps)
	case *types.Struct:
		b.WriteString("struct{")
		for i := 0; i < v.NumFields(); i++ {
			f := v.Field(i)
			if f.Embedded() {
				b.WriteString("!")
			}
			if !f.Exported() && f.Pkg() != nil {
				b.WriteString(f.Pkg().Path() + ".")
			}
			b.WriteString(f.Name() + " ")
			canon(b, f.Type(), tps)
			if tag := v.Tag(i); tag != "" {
				fmt.Fprintf(b, " %q", tag)
			}
			b.WriteString(";")
		}
		b.WriteString("}")
	case *types.Interface:
		v.Complete()
		b.WriteString("interface{")
		var ms []string
		for i := 0; i < v.NumMethods(); i++ {
			m := v.Method(i)
			var mb strings.Builder
			if !m.Exported() && m.Pkg() != nil {
				mb.WriteString(m.Pkg().Path() + ".")
			}
			mb.WriteString(m.Name())
			canon(&mb, m.Type(), tps)
			ms = append(ms, mb.String())
		}
		sort.Strings(ms)
		b.WriteString(strings.Join(ms, ";"))
		// type-set restrictions: embedded non-interface terms / unions / comparable
		var es []string
		var walk func(it *types.Interface)
		walk = func(it *types.Interface) {
			for i := 0; i < it.NumEmbeddeds(); i++ {
				et := types.Unalias(it.EmbeddedType(i))
				if ei, ok := et.Underlying().(*types.Interface); ok {
					if _, isU := et.(*types.Union); !isU {
						if n, ok := et.(*types.Named); ok && n.Obj().Pkg() == nil && n.Obj().Name() == "comparable" {
							es = append(es, "comparable")
						}
						walk(ei)
						continue
					}
				}
				var eb strings.Builder
				canon(&eb, et, tps)
				es = append(es, eb.String())
			}
		}
		walk(v)
		if v.IsComparable() && len(es) == 0 {
			es = append(es, "comparable")
		}
		sort.Strings(es)
		if len(es) > 0 {
			b.WriteString("|" + strings.Join(es, "&"))
		}
		b.WriteString("}")
	case *types.Union:
		if v.Len() == 1 && !v.Term(0).Tilde() {
			canon(b, v.Term(0).Type(), tps)
			return
		}
		var ts []string
		for i := 0; i < v.Len(); i++ {
			var tb strings.Builder
			if v.Term(i).Tilde() {
				tb.WriteString("~")
			}
			canon(&tb, v.Term(i).Type(), tps)
			ts = append(ts, tb.String())
		}
		sort.Strings(ts)
		b.WriteString("union(" + strings.Join(ts, "|") + ")")
	case *types.Named:
		o := v.Obj()
		if o.Pkg() != nil {
			b.WriteString(o.Pkg().Path() + ".")
		}
		b.WriteString(o.Name())
		if ta := v.TypeArgs(); ta != nil && ta.Len() > 0 {
			b.WriteString("[")
			for i := 0; i < ta.Len(); i++ {
				if i > 0 {
					b.WriteString(",")
				}
				canon(b, ta.At(i), tps)
			}
			b.WriteString("]")
		}
	case *types.TypeParam:
		for i, p := range tps {
			if p == v {
				fmt.Fprintf(b, "$%d", i)
				return
			}
		}
		fmt.Fprintf(b, "$%s#%d", v.Obj().Name(), v.Index())
	default:
		fmt.Fprintf(b, "?%T(%s)", t, t.String())
	}
}

func canonTuple(b *strings.Builder, t *types.Tuple, variadic bool, tps []*types.TypeParam) {
	b.WriteString("(")
	if t != nil {
		for i := 0; i < t.Len(); i++ {
			if i > 0 {
				b.WriteString(",")
			}
			if variadic && i == t.Len()-1 {
				b.WriteString("...")
				if s, ok := types.Unalias(t.At(i).Type()).(*types.Slice); ok {
					canon(b, s.Elem(), tps)
					continue
				}
			}
			canon(b, t.At(i).Type(), tps)
		}
	}
	b.WriteString(")")
}

var (
	reConstOf   = regexp.MustCompile(`\(constant [^()]*? of type ([^()]*)\)`)
	reUntypedC  = regexp.MustCompile(`\(untyped (\w+) constant[^()]*\)`)
	reDescr     = regexp.MustCompile(`\((variable of type|value of type|constant of type|untyped \w+ constant|untyped \w+ value|mismatched types|no value|type|overflows|truncated|built-in|missing method|comma, ok expression of type|neither addressable nor a map index expression|types from different scopes)[^()]*(\([^()]*\)[^()]*)*\)`)
	reAsValue   = regexp.MustCompile(`as (\S+) value in ([a-z ]+)`)
	reToType    = regexp.MustCompile(`to type (\S+)`)
	reOperator  = regexp.MustCompile(`operator (\S+) not defined`)
	reOverflows = regexp.MustCompile(`overflows (\S+)`)
	reTruncTo   = regexp.MustCompile(`truncated to (\S+)`)
	reMustBe    = regexp.MustCompile(`must be (\w+( \w+)?)`)
	reHave      = regexp.MustCompile(`have (\([^()]*\))`)
)

// NormMsg reduces a go/types message to its category plus the operand descriptors
// (kinds and types, never expression text or constant values), e.g.
//
//	cannot-use:(constant of type uint8) as int value in assignment
//	op-not-defined:% (variable of type float64)
func NormMsg(msg string) string {
	cat := ErrCategory(msg)
	m := reConstOf.ReplaceAllString(msg, "(constant of type $1)")
	m = reUntypedC.ReplaceAllString(m, "(untyped $1 constant)")
	var parts []string
	if s := reOperator.FindStringSubmatch(m); s != nil {
		parts = append(parts, s[1])
	}
	for _, d := range reDescr.FindAllString(m, -1) {
		parts = append(parts, d)
	}
	if s := reAsValue.FindStringSubmatch(m); s != nil {
		parts = append(parts, "as "+s[1]+" value in "+strings.TrimSpace(s[2]))
	}
	if s := reToType.FindStringSubmatch(m); s != nil {
		parts = append(parts, "to type "+s[1])
	}
	if s := reOverflows.FindStringSubmatch(m); s != nil {
		parts = append(parts, "overflows "+s[1])
	}
	if s := reTruncTo.FindStringSubmatch(m); s != nil {
		parts = append(parts, "truncated to "+s[1])
	}
	if s := reMustBe.FindStringSubmatch(m); s != nil {
		parts = append(parts, "must be "+s[1])
	}
	if len(parts) == 0 {
		// keep the message words that are not expression text: drop everything that looks
		// like an operand (contains '.', '(', digits) word by word
		var ws []string
		for _, w := range strings.Fields(m) {
			if strings.ContainsAny(w, ".()[]{}0123456789\"'`<>+-*/%&|^=!,:") {
				continue
			}
			ws = append(ws, w)
		}
		if len(ws) > 8 {
			ws = ws[:8]
		}
		parts = append(parts, strings.Join(ws, " "))
	}
	return cat + ":" + strings.Join(parts, " ")
}

// ErrsByFunc attributes each type error to the top-level function declaration that contains
// its position ("" when outside any function).
func (c *Checked) ErrsByFunc() map[string][]string {
	out := map[string][]string{}
	for i, msg := range c.Errs {
		name := ""
		pos := c.ErrPos[i]
		for _, f := range c.Files {
			for _, d := range f.Decls {
				if fd, ok := d.(*ast.FuncDecl); ok && fd.Pos() <= pos && pos <= fd.End() {
					name = fd.Name.Name
				}
			}
		}
		out[name] = append(out[name], msg)
	}
	return out
}
