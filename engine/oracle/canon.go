package oracle

import (
	"fmt"
	"go/ast"
	"go/token"
	"go/types"
	"reflect"
	"strings"
)

// CanonFunc renders the declaration of function name as a typed canonical form: the syntax
// tree with every identifier replaced by the identity of the object it resolves to
// (universe / imported path.name / local declaration ordinal), parentheses removed, import
// names ignored, positions and comments dropped. Two functions have equal forms iff they have
// the same statements in the same order and nesting, the same operators on the same operands
// and every identifier bound to the same entity.
func CanonFunc(c *Checked, name string) (string, bool) {
	for _, f := range c.Files {
		for _, d := range f.Decls {
			if fd, ok := d.(*ast.FuncDecl); ok && fd.Name.Name == name {
				cd := &canonDumper{info: c.Info, pkg: c.Pkg, ord: map[types.Object]int{}}
				cd.dump(reflect.ValueOf(fd))
				return cd.b.String(), true
			}
		}
	}
	return "", false
}

type canonDumper struct {
	b    strings.Builder
	info *types.Info
	pkg  *types.Package
	ord  map[types.Object]int
}

var (
	tPos    = reflect.TypeOf(token.NoPos)
	tObjPtr = reflect.TypeOf((*ast.Object)(nil))
	tCG     = reflect.TypeOf((*ast.CommentGroup)(nil))
)

func (p *canonDumper) objKey(id *ast.Ident) string {
	var o types.Object
	if p.info != nil {
		if o = p.info.Uses[id]; o == nil {
			o = p.info.Defs[id]
		}
	}
	if o == nil {
		return "name:" + id.Name
	}
	if o.Pkg() == nil {
		return "universe." + o.Name()
	}
	if o.Pkg() != p.pkg {
		return "ext:" + o.Pkg().Path() + "." + o.Name()
	}
	if o.Parent() == p.pkg.Scope() {
		return "pkglevel:" + o.Name()
	}
	n, ok := p.ord[o]
	if !ok {
		n = len(p.ord) + 1
		p.ord[o] = n
	}
	kind := "v"
	switch o.(type) {
	case *types.Label:
		kind = "label"
	case *types.Const:
		kind = "c"
	case *types.TypeName:
		kind = "t"
	}
	return fmt.Sprintf("%s#%d", kind, n)
}

func (p *canonDumper) dump(v reflect.Value) {
	if !v.IsValid() {
		p.b.WriteString("nil")
		return
	}
	switch v.Kind() {
	case reflect.Interface:
		if v.IsNil() {
			p.b.WriteString("nil")
			return
		}
		if e, ok := v.Interface().(ast.Expr); ok {
			for {
				pe, isP := e.(*ast.ParenExpr)
				if !isP {
					break
				}
				e = pe.X
			}
			p.dump(reflect.ValueOf(e))
			return
		}
		p.dump(v.Elem())
	case reflect.Ptr:
		if v.IsNil() {
			p.b.WriteString("nil")
			return
		}
		switch v.Type() {
		case tObjPtr, tCG:
			return
		}
		switch n := v.Interface().(type) {
		case *ast.Ident:
			p.b.WriteString("<" + p.objKey(n) + ">")
			return
		case *ast.ParenExpr:
			p.dump(reflect.ValueOf(n.X))
			return
		case *ast.SelectorExpr:
			if id, ok := n.X.(*ast.Ident); ok && p.info != nil {
				if _, isPkg := p.info.Uses[id].(*types.PkgName); isPkg {
					p.b.WriteString("<" + p.objKey(n.Sel) + ">")
					return
				}
			}
		case *ast.BasicLit:
			p.b.WriteString("lit:" + n.Value)
			return
		case *ast.EmptyStmt:
			p.b.WriteString("Empty")
			return
		case *ast.LabeledStmt:
			// `L: ; S` and `L: S` are the same program: a label is dumped as a marker followed
			// by its statement, and an empty labelled statement is dropped
			p.b.WriteString("Label")
			p.dump(reflect.ValueOf(n.Label))
			if _, empty := n.Stmt.(*ast.EmptyStmt); !empty {
				p.b.WriteString(",")
				p.dump(reflect.ValueOf(n.Stmt))
			}
			return
		case *ast.IfStmt:
			// `else { if ... }` and `else if ...` are the same program
			if blk, ok := n.Else.(*ast.BlockStmt); ok && len(blk.List) == 1 {
				if inner, ok := blk.List[0].(*ast.IfStmt); ok {
					cp := *n
					cp.Else = inner
					p.b.WriteString("IfStmt{")
					p.dump(reflect.ValueOf(cp))
					p.b.WriteString("}")
					return
				}
			}
		}
		p.b.WriteString(v.Type().Elem().Name() + "{")
		p.dump(v.Elem())
		p.b.WriteString("}")
	case reflect.Struct:
		t := v.Type()
		for i := 0; i < v.NumField(); i++ {
			f := t.Field(i)
			if f.Type == tPos {
				// positions used as flags
				if (t == reflect.TypeOf(ast.CallExpr{}) && f.Name == "Ellipsis") || (t == reflect.TypeOf(ast.TypeSpec{}) && f.Name == "Assign") {
					if v.Field(i).Int() != 0 {
						p.b.WriteString(f.Name + ";")
					}
				}
				continue
			}
			if f.Name == "Doc" || f.Name == "Comment" || f.Name == "Incomplete" {
				continue
			}
			p.b.WriteString(f.Name + ":")
			p.dump(v.Field(i))
			p.b.WriteString(";")
		}
	case reflect.Slice:
		p.b.WriteString("[")
		for i := 0; i < v.Len(); i++ {
			p.dump(v.Index(i))
			p.b.WriteString(",")
		}
		p.b.WriteString("]")
	case reflect.String:
		p.b.WriteString(fmt.Sprintf("%q", v.String()))
	case reflect.Int, reflect.Int64, reflect.Int32:
		if tok, ok := v.Interface().(token.Token); ok {
			p.b.WriteString(tok.String())
		} else {
			p.b.WriteString(fmt.Sprint(v.Int()))
		}
	case reflect.Bool:
		p.b.WriteString(fmt.Sprint(v.Bool()))
	}
}
