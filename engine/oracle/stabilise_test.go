package oracle_test

import (
	"strings"
	"testing"

	"verifengine/fixture"
	"verifengine/oracle"
)

// go/types reports file-scope/package-scope conflicts and unused labels while ranging over a map; Check must
// return them in an order that depends on the text only (the checks key violation classes by the first error).
func TestErrorOrderIsDeterministic(t *testing.T) {
	imp := fixture.New(map[string]string{
		"a/fmt":  "package fmt\n\nvar V int\n",
		"b/fmt":  "package fmt\n\nvar V int\n",
		"c/util": "package util\n\nvar V int\n",
	}, false)
	src := "package p\n\nimport (\n\t\"a/fmt\"\n\tfmt1 \"b/fmt\"\n\t\"c/util\"\n)\n\nvar _ = fmt.V + fmt1.V + util.V\n\n" +
		"type util int\n\nfunc fmt1() {\nL1:\nL2:\nL3:\n}\n\nconst fmt = 1\n"
	var first string
	for i := 0; i < 300; i++ {
		c := oracle.CheckSrc(src, imp, "p")
		got := strings.Join(c.Errs, "\n")
		if i == 0 {
			first = got
			if !strings.HasPrefix(c.Errs[0], "util already declared") {
				t.Fatalf("first error is not the one at the smallest position:\n%s", got)
			}
			if n := strings.Count(got, "already declared through import"); n != 3 {
				t.Fatalf("expected three conflicts, got %d:\n%s", n, got)
			}
			if n := strings.Count(got, "declared and not used"); n != 3 {
				t.Fatalf("expected three unused labels, got %d:\n%s", n, got)
			}
			continue
		}
		if got != first {
			t.Fatalf("run %d: error order differs\n--- first\n%s\n--- now\n%s", i, first, got)
		}
	}
}
