package main

import (
	"fmt"
	"os"
	"runtime/pprof"
	"time"

	"verifengine/ex"
	"verifengine/gx"
)

func main() {
	imp := ex.Importer(nil)
	var pairs []struct {
		e *ex.E
		u *ex.Use
	}
	n := 0
	ex.Plan{}.Each(func(stage string, e *ex.E, u *ex.Use) {
		n++
		if n%300 == 0 && len(pairs) < 3000 {
			pairs = append(pairs, struct {
				e *ex.E
				u *ex.Use
			}{e, u})
		}
	})
	fmt.Println("total pairs", n)
	f, _ := os.Create("/tmp/cpu.prof")
	pprof.StartCPUProfile(f)
	t0 := time.Now()
	acc := 0
	for _, p := range pairs {
		r := ex.Exec(imp, p.e, p.u, gx.Options{}, false)
		if r.Accepted {
			acc++
		}
	}
	pprof.StopCPUProfile()
	d := time.Since(t0)
	fmt.Printf("%d execs in %v = %v each; accepted %d\n", len(pairs), d, d/time.Duration(len(pairs)), acc)
}
