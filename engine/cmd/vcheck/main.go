// vcheck is the single entry point of the verification machinery:
//
//	vcheck [-tier quick|thorough] [-replay file] [-triage] <property id>
package main

import (
	"verifengine/vf"

	_ "verifengine/props/c01"
	_ "verifengine/props/c02"
	_ "verifengine/props/c03"
	_ "verifengine/props/c04"
	_ "verifengine/props/c05"
	_ "verifengine/props/c06"
	_ "verifengine/props/c07"
	_ "verifengine/props/c08"
	_ "verifengine/props/c09"
	_ "verifengine/props/c10"
	_ "verifengine/props/c11"
	_ "verifengine/props/c12"
	_ "verifengine/props/c13"
	_ "verifengine/props/c14"
	_ "verifengine/props/c15"
	_ "verifengine/props/c16"
	_ "verifengine/props/c17"
	_ "verifengine/props/c18"
	_ "verifengine/props/c19"
	_ "verifengine/props/c20"
)

func main() { vf.Main() }
