// Command gostub stands in for the `go` executable in the C20 harness: see package gostub.
package main

import (
	"fmt"
	"os"

	"verifengine/gostub"
)

func main() {
	w, err := gostub.Read(os.Getenv("VERIF_C20_WORLD"))
	if err != nil {
		fmt.Fprintln(os.Stderr, "gostub: no world:", err)
		os.Exit(2)
	}
	os.Exit(gostub.List(w, os.Args[1:], os.Stdout, os.Stderr))
}
