// Package c20: the export-data cache never serves stale data and survives save/load.
package c20

import (
	"encoding/json"
	"fmt"
	"io"
	"os"
	"os/exec"
	"path/filepath"
	"sort"
	"strconv"
	"strings"
	"sync"
	"time"

	"github.com/goplus/gogen/packages/cache"
	"github.com/goplus/gogen/verifrt"

	"verifengine/gostub"
	"verifengine/vf"
)

func init() {
	if os.Getenv("VERIF_C20_RACE") != "" {
		raceMain()
	}
	vf.Register(&vf.Prop{
		ID: "C20", Level: "model_checking",
		Rule: "the real cache.Impl with a scripted fingerprint function and a stub `go` executable first on PATH (the listing command `builds` export files whose content names the versions they were built from). " +
			"(H) histories: every sequence of length <=5 (thorough 6) over {prepare(a), prepare(b), find(a), find(b), bump(a), bump(b), remove-export(a), find(a) with failing listing, find(a) with malformed listing output, save+load into a fresh cache}, a imports b and a standard package without fingerprint; after every step the observation (data read, error, number of listings) is compared with a reference model: data is returned only when it is the current data of the package, an entry whose own and dependency fingerprints are unchanged and whose file exists is served without listing, anything else lists first, a failed listing yields an error and never old data; every saved file is parsed by an independent parser of the documented format and must equal the model's entries. " +
			"(F) faults on the cache file: for two saved caches (one with a 12-dependency entry) every truncation offset, every deleted / duplicated / swapped line, every tab replaced, garbage appended: Load must fail iff the independent parser rejects the bytes, and, whatever Load said, no probe (find(p); bump(dep), find(p) for every dependency) may return data that is not current. " +
			"(S) schedules: 2 caller threads (find/prepare) plus a thread that changes fingerprints, under a cooperative scheduler with scheduling points at the entry of every function of the cache package and at every fingerprint call; all schedules with <=2 preemptions; every successful find returns data that was current at some moment during the call, and after quiescence no stale entry is left (a further find returns current data); plus a free-running race-detector pass. " +
			"non-trivial = histories with at least one fingerprint change, fault or restart; distinct = history / fault / schedule",
		Assumptions:    []string{"the stub models `go list -export`: export files are content-addressed and never modified in place", "fingerprints are scripted: they change exactly when the harness bumps a version"},
		ThoroughBudget: 60 * time.Minute,
		Run:            run,
		Replay:         replay,
	})
}

// ---------------------------------------------------------------- world

type world struct {
	root      string // work directory of this process
	expDir    string
	file      string // world file read by the stub
	ver       map[string]int
	deps      map[string][]string
	fail      string
	malformed bool
	mu        sync.Mutex
	step      int              // logical time: incremented by every fingerprint change
	hist      map[string][]int // steps at which each package's content changed
	onHash    func()           // scheduling point hook
}

var std = map[string]bool{"fmt": true}

func newWorld(big bool) *world { return newWorldW(big, true) }

// newWorldW: wipe=false keeps the export files of earlier systems (they are content-addressed).
func newWorldW(big, wipe bool) *world {
	root := os.Getenv("VERIF_C20_DIR")
	if root == "" {
		var err error
		base := "/verif/.run"
		os.MkdirAll(base, 0o755)
		root, err = os.MkdirTemp(base, "c20-")
		if err != nil {
			panic(err)
		}
		os.Setenv("VERIF_C20_DIR", root)
	}
	w := &world{root: root, expDir: filepath.Join(root, "exp"), file: filepath.Join(root, "world.txt"),
		ver: map[string]int{"a": 1, "b": 1, "d": 1}, deps: map[string][]string{"a": {"b", "fmt"}, "b": {"d", "fmt"}, "d": nil}, hist: map[string][]int{}}
	if big {
		var ds []string
		for i := 1; i <= 12; i++ {
			d := fmt.Sprintf("d%02d", i)
			ds = append(ds, d)
			w.ver[d] = 1
			w.deps[d] = nil
		}
		w.ver["c"] = 1
		w.deps["c"] = ds
	}
	if wipe {
		os.RemoveAll(w.expDir)
	}
	os.MkdirAll(w.expDir, 0o755)
	os.Setenv("VERIF_C20_WORLD", w.file)
	if dir := os.Getenv("VERIF_GOSTUB_DIR"); dir != "" && !strings.HasPrefix(os.Getenv("PATH"), dir+":") {
		os.Setenv("PATH", dir+":"+os.Getenv("PATH"))
	}
	w.write()
	if realExec {
		verifrt.ExecHook = nil
	} else {
		verifrt.ExecHook = func(cmd *exec.Cmd) error {
			gw, err := gostub.Read(w.file)
			if err != nil {
				return err
			}
			if code := gostub.List(gw, cmd.Args[1:], cmd.Stdout, cmd.Stderr); code != 0 {
				return fmt.Errorf("exit status %d", code)
			}
			return nil
		}
	}
	return w
}

// realExec: run the listing command as a process (the stub executable on PATH) instead of answering it
// through the overlay's process seam. Used for the conformance slice of every run.
var realExec = false

func (w *world) write() {
	var b strings.Builder
	fmt.Fprintf(&b, "dir %s\n", w.expDir)
	if w.fail != "" {
		fmt.Fprintf(&b, "fail %s\n", w.fail)
	}
	if w.malformed {
		b.WriteString("malformed\n")
	}
	var ps []string
	for p := range w.ver {
		ps = append(ps, p)
	}
	sort.Strings(ps)
	for _, p := range ps {
		fmt.Fprintf(&b, "pkg %s %d %s\n", p, w.ver[p], strings.Join(w.deps[p], " "))
	}
	if err := os.WriteFile(w.file, []byte(b.String()), 0o644); err != nil {
		panic(err)
	}
}

func (w *world) bump(p string) {
	w.mu.Lock()
	w.ver[p]++
	w.step++
	w.mu.Unlock()
	w.write()
}

// content is what the export data of p says when built now.
func (w *world) content(p string) string {
	w.mu.Lock()
	defer w.mu.Unlock()
	s := fmt.Sprintf("%s@%d", p, w.ver[p])
	for _, d := range w.deps[p] {
		if v, ok := w.ver[d]; ok {
			s += fmt.Sprintf(" %s@%d", d, v)
		}
	}
	return s
}

func (w *world) hash(p string, self bool) string {
	if w.onHash != nil {
		w.onHash()
	}
	if std[p] {
		return cache.HashSkip
	}
	w.mu.Lock()
	defer w.mu.Unlock()
	v, ok := w.ver[p]
	if !ok {
		return cache.HashInvalid
	}
	return "h" + strconv.Itoa(v)
}

// ---------------------------------------------------------------- reference model (pure: no I/O)

type entry struct {
	file    string
	content string
	hash    string
	deps    [][2]string
}

type model struct {
	ver     map[string]int
	deps    map[string][]string
	expDir  string
	files   map[string]bool // export files that exist
	entries map[string]*entry
	nlist   int
	saved   map[string]*entry // what the cache file holds
	hasFile bool
}

func newModel(w *world) *model {
	m := &model{ver: map[string]int{}, deps: w.deps, expDir: w.expDir, files: map[string]bool{}, entries: map[string]*entry{}}
	for k, v := range w.ver {
		m.ver[k] = v
	}
	return m
}

func (m *model) curHash(p string) string {
	if std[p] {
		return cache.HashSkip
	}
	v, ok := m.ver[p]
	if !ok {
		return cache.HashInvalid
	}
	return "h" + strconv.Itoa(v)
}

func (m *model) content(p string) string {
	s := fmt.Sprintf("%s@%d", p, m.ver[p])
	for _, d := range m.deps[p] {
		if v, ok := m.ver[d]; ok {
			s += fmt.Sprintf(" %s@%d", d, v)
		}
	}
	return s
}

func (m *model) expFile(p string) string {
	name := p + "-" + strconv.Itoa(m.ver[p])
	for _, d := range m.deps[p] {
		if v, ok := m.ver[d]; ok {
			name += "-" + d + "@" + strconv.Itoa(v)
		}
	}
	return filepath.Join(m.expDir, name+".a")
}

// list models a successful listing of p: the export file is (re)built, the entry replaced.
func (m *model) list(p string) {
	e := &entry{file: m.expFile(p), content: m.content(p), hash: m.curHash(p)}
	for _, d := range m.deps[p] {
		if h := m.curHash(d); h != cache.HashSkip {
			e.deps = append(e.deps, [2]string{d, h})
		}
	}
	m.files[e.file] = true
	m.entries[p] = e
}

func (m *model) fresh(p string) bool {
	e := m.entries[p]
	if e == nil || e.hash == cache.HashInvalid || e.hash != m.curHash(p) {
		return false
	}
	for _, d := range e.deps {
		if m.curHash(d[0]) != d[1] {
			return false
		}
	}
	return m.files[e.file]
}

// expectation of one operation
type expect struct {
	mustFail bool   // Find must return an error
	data     string // else: the data it must return
	isFind   bool
	why      string
}

// step advances the model and says what the implementation must show.
func (m *model) step(o op) expect {
	switch o.Kind {
	case "bump":
		m.ver[o.Pkg]++
	case "rmexp":
		if e := m.entries[o.Pkg]; e != nil {
			delete(m.files, e.file)
		}
	case "prepare":
		m.nlist++
		m.list(o.Pkg)
	case "prepare2":
		m.nlist++
		m.list("a")
		m.list("b")
	case "find", "findfail", "findmal":
		listOK := o.Kind == "find"
		wasFresh := m.fresh(o.Pkg)
		if !wasFresh {
			m.nlist++
			if listOK {
				m.list(o.Pkg)
			} else {
				// the refresh failed: the entry is useless from now on (fingerprints never revert);
				// whether the cache keeps or drops it is not observable, the model drops it
				delete(m.entries, o.Pkg)
			}
		}
		ex := expect{isFind: true, data: m.content(o.Pkg)}
		switch {
		case wasFresh:
			ex.why = "the entry is fresh: served without listing"
		case listOK:
			ex.why = "the entry is not fresh: listed again"
		default:
			ex.mustFail, ex.why = true, "the entry is not fresh and the listing fails"
		}
		return ex
	case "restart":
		if m.nlist > 0 {
			m.saved = map[string]*entry{}
			for k, e := range m.entries {
				m.saved[k] = e
			}
			m.hasFile = true
		}
		m.entries = map[string]*entry{}
		for k, e := range m.saved {
			m.entries[k] = e
		}
		m.nlist = 0
	}
	return expect{}
}

// key is the canonical form of the model state: everything later behaviour can depend on.
func (m *model) key() string {
	var b strings.Builder
	ps := []string{"a", "b"}
	for _, p := range []string{"a", "b", "d"} {
		fmt.Fprintf(&b, "%s=%d;", p, m.ver[p])
	}
	dump := func(tag string, es map[string]*entry, withFiles bool) {
		for _, p := range ps {
			e := es[p]
			if e == nil {
				fmt.Fprintf(&b, "%s.%s=-;", tag, p)
				continue
			}
			fmt.Fprintf(&b, "%s.%s=%s%v", tag, p, e.hash, e.deps)
			if withFiles {
				fmt.Fprintf(&b, "f%v", m.files[e.file])
			}
			b.WriteString(";")
		}
	}
	dump("e", m.entries, true)
	if m.hasFile {
		dump("s", m.saved, true)
	}
	// files not referred to by any entry do not matter: a listing rebuilds what it needs
	fmt.Fprintf(&b, "dirty=%v", m.nlist > 0)
	return b.String()
}

// ---------------------------------------------------------------- operations

type op struct {
	Kind string `json:"kind"` // prepare find bump rmexp findfail findmal restart
	Pkg  string `json:"pkg,omitempty"`
}

func (o op) String() string {
	if o.Pkg == "" {
		return o.Kind
	}
	return o.Kind + "(" + o.Pkg + ")"
}

var alphabet = []op{
	{"find", "a"}, {"find", "b"}, {"prepare", "a"}, {"prepare", "b"}, {"bump", "a"}, {"bump", "b"},
	{"rmexp", "a"}, {"findfail", "a"}, {"findmal", "a"}, {"restart", ""},
	{"bump", "d"}, {"prepare2", ""}, // one listing of both packages (Prepare(dir, "a", "b"))
}

type system struct {
	w         *world
	m         *model
	c         *cache.Impl
	cacheFile string
}

func newSystem(big bool) *system { return newSystemW(big, true) }

func newSystemW(big, wipe bool) *system {
	w := newWorldW(big, wipe)
	s := &system{w: w, m: newModel(w), cacheFile: filepath.Join(w.root, "gopkg.cache")}
	os.Remove(s.cacheFile)
	s.c = cache.New(w.hash)
	return s
}

func readFind(c *cache.Impl, dir, p string) (string, error) {
	f, err := c.Find(dir, p)
	if err != nil {
		return "", err
	}
	if f == nil {
		return "", fmt.Errorf("Find returned neither data nor an error")
	}
	defer f.Close()
	b, err := io.ReadAll(f)
	return string(b), err
}

// apply runs one operation on the implementation and compares with the model's expectation; it returns a
// description of the first disagreement ("" = none).
func (s *system) apply(o op) string {
	m, w := s.m, s.w
	var rmFile string
	if o.Kind == "rmexp" {
		if e := m.entries[o.Pkg]; e != nil {
			rmFile = e.file
		}
	}
	ex := m.step(o)
	switch o.Kind {
	case "bump":
		w.bump(o.Pkg)
	case "rmexp":
		if rmFile != "" {
			os.Remove(rmFile)
		}
	case "prepare":
		if err := s.c.Prepare(w.root, o.Pkg); err != nil {
			return fmt.Sprintf("%v: listing succeeded but Prepare returned %v", o, err)
		}
	case "prepare2":
		if err := s.c.Prepare(w.root, "a", "b"); err != nil {
			return fmt.Sprintf("%v: listing succeeded but Prepare returned %v", o, err)
		}
	case "find", "findfail", "findmal":
		switch o.Kind {
		case "findfail":
			w.fail = "listing failed"
			w.write()
		case "findmal":
			w.malformed = true
			w.write()
		}
		data, err := readFind(s.c, w.root, o.Pkg)
		if o.Kind != "find" {
			w.fail, w.malformed = "", false
			w.write()
		}
		switch {
		case err == nil && data != ex.data:
			return fmt.Sprintf("%v served %q but the current data of the package is %q (%s)", o, data, ex.data, ex.why)
		case err == nil && ex.mustFail:
			return fmt.Sprintf("%v served %q although %s", o, data, ex.why)
		case err != nil && !ex.mustFail:
			return fmt.Sprintf("%v: %s, but Find returned error %v", o, ex.why, err)
		}
	case "restart":
		if err := s.c.Save(s.cacheFile); err != nil {
			return fmt.Sprintf("restart: save failed: %v", err)
		}
		if m.hasFile {
			b, err := os.ReadFile(s.cacheFile)
			if err != nil {
				return fmt.Sprintf("restart: cache file not written: %v", err)
			}
			got, perr := parseCacheFile(string(b))
			if perr != nil {
				return fmt.Sprintf("restart: the saved file is not in the documented format: %v\n%s", perr, b)
			}
			for k, e := range got { // a saved entry the model does not have is harmless iff it can never be served
				if m.saved[k] == nil && e.hash != m.curHash(k) {
					delete(got, k)
				} else if m.saved[k] == nil {
					stale := false
					for _, d := range e.deps {
						stale = stale || m.curHash(d[0]) != d[1]
					}
					if stale || !m.files[e.file] {
						delete(got, k)
					}
				}
			}
			if d := diffEntries(m.saved, got); d != "" {
				return "restart: the saved file differs from the cache: " + d
			}
		}
		s.c = cache.New(w.hash)
		if err := s.c.Load(s.cacheFile); err != nil {
			return fmt.Sprintf("restart: Load of a file written by Save failed: %v", err)
		}
	}
	if got := s.c.ListTimes(); got != m.nlist {
		return fmt.Sprintf("after %v: %d listings, the model expects %d (an unchanged entry is served without listing, a changed one lists first)", o, got, m.nlist)
	}
	return ""
}

// parseCacheFile is an independent strict parser of the documented format.
func parseCacheFile(s string) (map[string]*entry, error) {
	out := map[string]*entry{}
	if s == "" {
		return out, nil
	}
	// the documented format is line oriented; it neither requires a final newline nor forbids a package
	// to be listed twice (the later line wins), so neither makes a file malformed
	lines := strings.Split(strings.TrimRight(s, "\n"), "\n")
	if strings.TrimRight(s, "\n") == "" {
		return out, nil
	}
	for i := 0; i < len(lines); {
		parts := strings.Split(lines[i], "\t")
		if len(parts) != 4 || parts[0] == "" {
			return nil, fmt.Errorf("line %d: not a package line", i+1)
		}
		n, err := strconv.Atoi(parts[3])
		if err != nil || n < 0 || strconv.Itoa(n) != parts[3] {
			return nil, fmt.Errorf("line %d: bad dependency count", i+1)
		}
		e := &entry{file: parts[1], hash: parts[2]}
		if i+n >= len(lines) && n > 0 {
			return nil, fmt.Errorf("line %d: %d dependency lines announced, file ends", i+1, n)
		}
		for k := 1; k <= n; k++ {
			dp := strings.Split(lines[i+k], "\t")
			if len(dp) != 3 || dp[0] != "" || dp[1] == "" {
				return nil, fmt.Errorf("line %d: not a dependency line", i+k+1)
			}
			e.deps = append(e.deps, [2]string{dp[1], dp[2]})
		}
		out[parts[0]] = e
		i += n + 1
	}
	return out, nil
}

func diffEntries(want, got map[string]*entry) string {
	for k, e := range want {
		g := got[k]
		if g == nil {
			return "entry " + k + " missing"
		}
		if g.file != e.file || g.hash != e.hash || fmt.Sprint(g.deps) != fmt.Sprint(e.deps) {
			return fmt.Sprintf("entry %s: saved {%s %s %v}, cache holds {%s %s %v}", k, g.file, g.hash, g.deps, e.file, e.hash, e.deps)
		}
	}
	for k := range got {
		if want[k] == nil {
			return "extra entry " + k
		}
	}
	return ""
}

// ---------------------------------------------------------------- stage H

type payload struct {
	Stage    string `json:"stage"`
	History  []op   `json:"history,omitempty"`
	Fault    string `json:"fault,omitempty"`
	Base     string `json:"base,omitempty"`
	Scenario string `json:"scenario,omitempty"`
	Schedule []int  `json:"schedule,omitempty"`
}

func runHistory(h []op) (string, int) {
	s := newSystem(false)
	for i, o := range h {
		if bad := s.apply(o); bad != "" {
			return bad, i
		}
	}
	return "", len(h)
}

func histString(h []op) string {
	var ss []string
	for _, o := range h {
		ss = append(ss, o.String())
	}
	return strings.Join(ss, ";")
}

// stageH: breadth-first search over the states of the pure model (every worker computes it: it costs
// nothing); every transition = shortest history reaching the state + one operation is replayed on the real
// cache by the worker that owns it. Versions are capped so that the state space is finite.
func stageH(c *vf.Ctx) {
	capVer := 2
	confEvery := int64(97) // share of histories also run with the stub executable (a process costs 10-25 ms here)
	if c.Thorough() {
		capVer = 3
		confEvery = 1999
	}
	type node struct{ hist []op }
	start := newSystem(false).m
	seen := map[string]bool{start.key(): true}
	queue := []node{{nil}}
	var idx int64
	maxDepth := 0
	for len(queue) > 0 {
		n := queue[0]
		queue = queue[1:]
		// model state after n.hist
		for _, o := range alphabet {
			m := newModel(&world{ver: map[string]int{"a": 1, "b": 1, "d": 1}, deps: start.deps, expDir: start.expDir})
			for _, p := range n.hist {
				m.step(p)
			}
			if o.Kind == "bump" && m.ver[o.Pkg] >= capVer {
				continue
			}
			m.step(o)
			h := append(append([]op{}, n.hist...), o)
			k := idx
			idx++
			c.Transition(1)
			if c.MineIdx(k) {
				if c.Expired() {
					c.Cap("wall budget (stage H)")
				} else {
					bad, at := runHistory(h)
					c.Eval(1)
					c.Distinct(histString(h))
					if k%confEvery == 0 { // conformance of the process seam: the same history with the stub executable
						realExec = true
						bad2, at2 := runHistory(h)
						realExec = false
						c.Tally("histories_also_run_with_the_stub_executable", 1)
						if bad2 != bad || at2 != at {
							c.Violation("process-seam-divergence|"+histString(h), fmt.Sprintf("history %s: in-process listing gives %q, the stub executable gives %q", histString(h), bad, bad2), payload{Stage: "H", History: h})
						}
					}
					if bad != "" {
						pre := h[:at+1]
						c.Outcome("H:violation")
						c.Violation("history|"+classOf(bad)+"|"+histString(minimal(pre)), "history "+histString(pre)+": "+bad, payload{Stage: "H", History: pre})
					} else {
						c.Outcome("H:ok")
					}
					if k%499 == 0 {
						c.Sample(map[string]string{"history": histString(h), "model_state": m.key(), "result": bad})
					}
				}
			}
			key := m.key()
			if !seen[key] {
				seen[key] = true
				queue = append(queue, node{h})
				if len(h) > maxDepth {
					maxDepth = len(h)
				}
			}
		}
	}
	if c.Idx == 0 {
		c.State(len(seen))
		c.Tally("bfs_states", len(seen))
		c.Tally("bfs_max_depth", maxDepth)
	}
}

// minimal drops operations from the front while the violation persists (a shorter witness names the class).
func minimal(h []op) []op {
	for len(h) > 1 {
		if bad, at := runHistory(h[1:]); bad != "" && at == len(h)-2 {
			h = h[1:]
		} else {
			break
		}
	}
	// also drop single inner operations
	for i := 0; i < len(h)-1; {
		t := append(append([]op{}, h[:i]...), h[i+1:]...)
		if bad, at := runHistory(t); bad != "" && at == len(t)-1 {
			h = t
		} else {
			i++
		}
	}
	return h
}

func classOf(bad string) string {
	switch {
	case strings.Contains(bad, "a stale entry was left"):
		return "stale-entry-left"
	case strings.Contains(bad, "not the current data at any moment"):
		return "not-current-during-call"
	case strings.Contains(bad, "but Find returned error"):
		return "available-data-not-served"
	case strings.Contains(bad, "served"):
		return "stale-data-served"
	case strings.Contains(bad, "listings, the model expects"):
		return "listing-count"
	case strings.Contains(bad, "restart"):
		return "save-load"
	}
	return "other"
}

// ---------------------------------------------------------------- stage F: faults on the cache file

type fault struct {
	name string
	data string
}

func faults(orig string) []fault {
	var out []fault
	for i := 0; i < len(orig); i++ {
		out = append(out, fault{fmt.Sprintf("truncate@%d", i), orig[:i]})
	}
	lines := strings.SplitAfter(orig, "\n")
	if lines[len(lines)-1] == "" {
		lines = lines[:len(lines)-1]
	}
	join := func(ls []string) string { return strings.Join(ls, "") }
	for i := range lines {
		del := append(append([]string{}, lines[:i]...), lines[i+1:]...)
		out = append(out, fault{fmt.Sprintf("delete-line@%d", i), join(del)})
		dup := append(append(append([]string{}, lines[:i+1]...), lines[i]), lines[i+1:]...)
		out = append(out, fault{fmt.Sprintf("duplicate-line@%d", i), join(dup)})
		if i+1 < len(lines) {
			sw := append([]string{}, lines...)
			sw[i], sw[i+1] = sw[i+1], sw[i]
			out = append(out, fault{fmt.Sprintf("swap-lines@%d", i), join(sw)})
		}
	}
	for i := 0; i < len(orig); i++ {
		if orig[i] == '\t' {
			out = append(out, fault{fmt.Sprintf("tab-to-space@%d", i), orig[:i] + " " + orig[i+1:]})
		}
	}
	out = append(out, fault{"garbage-appended", orig + "garbage\n"}, fault{"nul-prefixed", "\x00" + orig}, fault{"empty-line-inserted", strings.Replace(orig, "\n", "\n\n", 1)})
	return out
}

type baseState struct {
	name string
	big  bool
	prep []string
}

var baseStates = []baseState{{"a+b", false, []string{"a", "b"}}, {"c12+a", true, []string{"c", "a", "b"}}}

// probeFault loads data into a fresh cache and runs the probes; it returns the first disagreement.
func probeFault(bs baseState, data string) string {
	wantErr := false
	if _, err := parseCacheFile(data); err != nil {
		wantErr = true
	}
	pkgs := []string{"a", "b"}
	if bs.big {
		pkgs = append(pkgs, "c")
	}
	type probe struct {
		bump string
		pkg  string
	}
	var probes []probe
	for _, p := range pkgs {
		probes = append(probes, probe{"", p})
	}
	{
		s := newSystemW(bs.big, false)
		for _, p := range pkgs {
			for _, d := range s.w.deps[p] {
				if !std[d] {
					probes = append(probes, probe{d, p})
				}
			}
		}
	}
	for pi, pr := range probes {
		s := newSystemW(bs.big, false) // the export files the base state refers to exist: built when the cache was saved
		if err := os.WriteFile(s.cacheFile, []byte(data), 0o644); err != nil {
			return "setup: " + err.Error()
		}
		c := cache.New(s.w.hash)
		err := c.Load(s.cacheFile)
		if pi == 0 {
			if wantErr && err == nil {
				return "Load accepted a file that is not in the documented format"
			}
			if !wantErr && err != nil {
				return fmt.Sprintf("Load rejected a well-formed file: %v", err)
			}
		}
		if pr.bump != "" {
			s.w.bump(pr.bump)
		}
		data, ferr := readFind(c, s.w.root, pr.pkg)
		if ferr == nil && data != s.w.content(pr.pkg) {
			pre := ""
			if pr.bump != "" {
				pre = "bump(" + pr.bump + "); "
			}
			loaded := "Load reported an error"
			if err == nil {
				loaded = "Load succeeded"
			}
			return fmt.Sprintf("%s; then %sfind(%s) served %q, current data is %q", loaded, pre, pr.pkg, data, s.w.content(pr.pkg))
		}
		if ferr != nil {
			return fmt.Sprintf("find(%s) failed although the listing works: %v", pr.pkg, ferr)
		}
	}
	return ""
}

func stageF(c *vf.Ctx) {
	var idx int64
	for _, bs := range baseStates {
		s := newSystem(bs.big)
		for _, p := range bs.prep {
			s.c.Prepare(s.w.root, p)
		}
		if err := s.c.Save(s.cacheFile); err != nil {
			panic(err)
		}
		b, _ := os.ReadFile(s.cacheFile)
		// sync.Map iteration order is not fixed: explore the faults of a canonical ordering of the same entries
		orig := canonicalOrder(string(b))
		for _, f := range faults(orig) {
			k := idx
			idx++
			if !c.MineIdx(k) {
				continue
			}
			bad := probeFault(bs, f.data)
			c.Eval(1)
			c.Distinct(bs.name + "|" + f.name)
			if bad != "" {
				c.Outcome("F:violation")
				kind := f.name
				if i := strings.Index(kind, "@"); i > 0 {
					kind = kind[:i]
				}
				c.Violation("cache-file-fault|"+classOfFault(bad)+"|"+bs.name+"|"+kind, fmt.Sprintf("cache %s, fault %s: %s\nfile:\n%s", bs.name, f.name, bad, f.data), payload{Stage: "F", Base: bs.name, Fault: f.name})
			} else {
				c.Outcome("F:ok")
			}
		}
	}
}

func classOfFault(bad string) string {
	switch {
	case strings.Contains(bad, "served"):
		return "stale-data-served"
	case strings.Contains(bad, "accepted a file"):
		return "malformed-accepted"
	case strings.Contains(bad, "rejected a well-formed"):
		return "wellformed-rejected"
	}
	return "other"
}

func canonicalOrder(s string) string {
	lines := strings.SplitAfter(s, "\n")
	var blocks []string
	for _, l := range lines {
		if l == "" {
			continue
		}
		if strings.HasPrefix(l, "\t") && len(blocks) > 0 {
			blocks[len(blocks)-1] += l
		} else {
			blocks = append(blocks, l)
		}
	}
	sort.Strings(blocks)
	return strings.Join(blocks, "")
}

// ---------------------------------------------------------------- stage S: schedules

type thread struct {
	name string
	body func(s *system, t *tstate)
}

type tstate struct {
	results []findResult
}

type findResult struct {
	pkg        string
	data       string
	err        error
	start, end int
	valid      []string // contents that were current at some moment during the call
}

type scenario struct {
	name    string
	setup   []op
	threads []thread
}

func findT(p string) thread {
	return thread{"find(" + p + ")", func(s *system, t *tstate) {
		r := findResult{pkg: p}
		s.w.mu.Lock()
		r.start = s.w.step
		s.w.mu.Unlock()
		r.valid = append(r.valid, s.w.content(p))
		watch := func() { r.valid = append(r.valid, s.w.content(p)) }
		s.addWatch(watch)
		r.data, r.err = readFind(s.c, s.w.root, p)
		s.dropWatch()
		r.valid = append(r.valid, s.w.content(p))
		t.results = append(t.results, r)
	}}
}

func prepareT(p string) thread {
	return thread{"prepare(" + p + ")", func(s *system, t *tstate) { s.c.Prepare(s.w.root, p) }}
}

func bumpT(p string) thread {
	return thread{"bump(" + p + ")", func(s *system, t *tstate) {
		verifrt.Yield("harness:bump")
		s.w.bump(p)
		s.notify()
	}}
}

var watchers []func()

func (s *system) addWatch(f func()) { watchers = append(watchers, f) }
func (s *system) dropWatch()        { watchers = watchers[:len(watchers)-1] }
func (s *system) notify() {
	for _, f := range watchers {
		f()
	}
}

func scenarios(thorough bool) []scenario {
	out := []scenario{
		{"find(a)|find(a)|bump(a)", nil, []thread{findT("a"), findT("a"), bumpT("a")}},
		{"find(a)|find(a)|bump(b)", nil, []thread{findT("a"), findT("a"), bumpT("b")}},
		{"warm:find(a)|find(a)|bump(a)", []op{{"prepare", "a"}}, []thread{findT("a"), findT("a"), bumpT("a")}},
		{"warm:find(a)|prepare(a)|bump(b)", []op{{"prepare", "a"}}, []thread{findT("a"), prepareT("a"), bumpT("b")}},
		{"find(a)|find(b)|bump(b)", nil, []thread{findT("a"), findT("b"), bumpT("b")}},
	}
	if thorough {
		out = append(out,
			scenario{"warm:find(a)|find(b)|bump(a)", []op{{"prepare", "a"}, {"prepare", "b"}}, []thread{findT("a"), findT("b"), bumpT("a")}},
			scenario{"find(a)|prepare(a)|bump(a)", nil, []thread{findT("a"), prepareT("a"), bumpT("a")}},
		)
	}
	return out
}

// msched: N cooperative threads; choice i at a point = index into the list of enabled threads, where the
// running thread comes first.
type msched struct {
	prefix  []int
	choices []int
	nopts   []int
	sites   []string
	cur     int
	n       int
	wake    []chan struct{}
	done    []bool
	preempt int
}

func (m *msched) enabled() []int {
	out := []int{}
	if !m.done[m.cur] {
		out = append(out, m.cur)
	}
	for t := 0; t < m.n; t++ {
		if t != m.cur && !m.done[t] {
			out = append(out, t)
		}
	}
	return out
}

func (m *msched) point(site string) {
	en := m.enabled()
	if len(en) <= 1 {
		return
	}
	i := len(m.choices)
	ch := 0
	if i < len(m.prefix) {
		ch = m.prefix[i]
		if ch >= len(en) {
			panic(fmt.Sprintf("c20: replay divergence at point %d: choice %d of %d", i, ch, len(en)))
		}
	}
	m.choices = append(m.choices, ch)
	m.nopts = append(m.nopts, len(en))
	m.sites = append(m.sites, site)
	if ch != 0 {
		m.preempt++
		me := m.cur
		m.cur = en[ch]
		m.wake[m.cur] <- struct{}{}
		<-m.wake[me]
	}
}

func runScenario(sc scenario, prefix []int) (*msched, *system, []*tstate, string) {
	s := newSystem(false)
	for _, o := range sc.setup {
		s.apply(o)
	}
	watchers = nil
	n := len(sc.threads)
	m := &msched{prefix: prefix, n: n, wake: make([]chan struct{}, n), done: make([]bool, n)}
	ts := make([]*tstate, n)
	var wg sync.WaitGroup
	var crash string
	for t := 0; t < n; t++ {
		t := t
		m.wake[t] = make(chan struct{})
		ts[t] = &tstate{}
		wg.Add(1)
		go func() {
			defer wg.Done()
			<-m.wake[t]
			func() {
				defer func() {
					if e := recover(); e != nil {
						crash = fmt.Sprint("thread ", sc.threads[t].name, " panicked: ", e)
					}
				}()
				sc.threads[t].body(s, ts[t])
			}()
			m.done[t] = true
			// hand over to the next enabled thread (not a choice: the lowest index; other orders are reached by preemptions)
			for u := 0; u < n; u++ {
				if !m.done[u] {
					m.cur = u
					m.wake[u] <- struct{}{}
					break
				}
			}
		}()
	}
	verifrt.Sched = m.point
	s.w.onHash = func() { verifrt.Yield("harness:hash") }
	m.cur = 0
	m.wake[0] <- struct{}{}
	wg.Wait()
	verifrt.Sched = nil
	s.w.onHash = nil
	return m, s, ts, crash
}

func judgeScenario(sc scenario, m *msched, s *system, ts []*tstate, crash string) string {
	if crash != "" {
		return crash
	}
	for ti, t := range ts {
		for _, r := range t.results {
			if r.err != nil {
				return fmt.Sprintf("thread %s: find failed although the listing works: %v", sc.threads[ti].name, r.err)
			}
			ok := false
			for _, v := range r.valid {
				ok = ok || v == r.data
			}
			if !ok {
				return fmt.Sprintf("thread %s returned %q, which was not the current data at any moment of the call (%v)", sc.threads[ti].name, r.data, r.valid)
			}
		}
	}
	for _, p := range []string{"a", "b"} {
		data, err := readFind(s.c, s.w.root, p)
		if err == nil && data != s.w.content(p) {
			return fmt.Sprintf("after all threads finished, find(%s) serves %q but the current data is %q: a stale entry was left in the cache", p, data, s.w.content(p))
		}
	}
	return ""
}

func stageS(c *vf.Ctx) {
	bound := 3
	if c.Thorough() {
		bound = 4
	}
	var idx int64
	for _, sc := range scenarios(c.Thorough()) {
		count := 0
		// the first-level subtrees are divided between the workers; worker 0 also judges the root
		var rec func(prefix []int, cost int, owned bool)
		rec = func(prefix []int, cost int, owned bool) {
			m, s, ts, crash := runScenario(sc, prefix)
			if owned {
				count++
				c.Eval(1)
				c.Trace(1)
				c.Transition(len(m.choices))
				if m.preempt > 0 {
					c.Distinct(sc.name + fmt.Sprint(m.choices))
				}
				if bad := judgeScenario(sc, m, s, ts, crash); bad != "" {
					where := ""
					for i, ch := range m.choices {
						if ch != 0 {
							where += fmt.Sprintf(" switch@%s", m.sites[i])
						}
					}
					c.Outcome("S:violation")
					c.Violation("schedule|"+classOf(bad)+"|"+sc.name+"|"+where, fmt.Sprintf("scenario %s, schedule%s: %s", sc.name, where, bad), payload{Stage: "S", Scenario: sc.name, Schedule: append([]int{}, m.choices...)})
				} else {
					c.Outcome("S:ok")
				}
			}
			if cost >= bound {
				return
			}
			for i := len(prefix); i < len(m.choices); i++ {
				for alt := 1; alt < m.nopts[i]; alt++ {
					np := append(append([]int{}, m.choices[:i]...), alt)
					if cost == 0 {
						k := idx
						idx++
						if !c.MineIdx(k) {
							continue
						}
						rec(np, 1, true)
					} else {
						rec(np, cost+1, true)
					}
				}
			}
		}
		rec(nil, 0, c.Idx == 0)
		c.Tally("schedules:"+sc.name, count)
	}
}

// ---------------------------------------------------------------- race pass

func stageR(c *vf.Ctx) {
	if c.Idx != 0 {
		return
	}
	bin := os.Getenv("VERIF_RACE_BIN")
	if bin == "" {
		c.Cap("race-detector binary not built: free-running pass skipped")
		return
	}
	cmd := exec.Command(bin)
	cmd.Env = append(os.Environ(), "VERIF_C20_RACE=1", "VERIF_C20_DIR=", "GORACE=halt_on_error=0 exitcode=66")
	out, err := cmd.CombinedOutput()
	text := string(out)
	c.Eval(1)
	c.Tally("race_pass_runs", 1)
	if n := strings.Count(text, "WARNING: DATA RACE"); n > 0 {
		i := strings.Index(text, "WARNING: DATA RACE")
		rep := text[i:]
		if len(rep) > 4000 {
			rep = rep[:4000]
		}
		c.Violation("data-race", rep, payload{Stage: "R"})
		return
	}
	if err != nil || !strings.Contains(text, "RACE-PASS-DONE") {
		c.Violation("race-pass-failed", fmt.Sprintf("%v\n%s", err, text), payload{Stage: "R"})
	}
}

func raceMain() {
	s := newSystem(false)
	var wg sync.WaitGroup
	for g := 0; g < 8; g++ {
		g := g
		wg.Add(1)
		go func() {
			defer wg.Done()
			for i := 0; i < 30; i++ {
				p := []string{"a", "b"}[(i+g)%2]
				switch (i + g) % 5 {
				case 0:
					s.c.Prepare(s.w.root, p)
				case 4:
					s.c.Save(filepath.Join(s.w.root, fmt.Sprintf("save-%d.cache", g)))
					s.c.ListTimes()
				default:
					readFind(s.c, s.w.root, p)
				}
			}
		}()
	}
	wg.Add(1)
	go func() {
		defer wg.Done()
		for i := 0; i < 10; i++ {
			s.w.bump([]string{"a", "b"}[i%2])
		}
	}()
	wg.Wait()
	fmt.Println("RACE-PASS-DONE listings:", s.c.ListTimes())
	os.RemoveAll(s.w.root)
	os.Exit(0)
}

// ----------------------------------------------------------------

func run(c *vf.Ctx) {
	if os.Getenv("VERIF_GOSTUB_DIR") == "" {
		panic("c20: VERIF_GOSTUB_DIR not set (run through check.sh)")
	}
	defer func() {
		if d := os.Getenv("VERIF_C20_DIR"); strings.Contains(d, "/c20-") {
			os.RemoveAll(d)
		}
	}()
	t0 := time.Now()
	stageH(c)
	t1 := time.Now()
	stageF(c)
	t2 := time.Now()
	stageS(c)
	t3 := time.Now()
	stageR(c)
	if c.Idx == 0 {
		fmt.Fprintf(os.Stderr, "worker 0 wall: histories %.0fs, faults %.0fs, schedules %.0fs, race %.0fs\n", t1.Sub(t0).Seconds(), t2.Sub(t1).Seconds(), t3.Sub(t2).Seconds(), time.Since(t3).Seconds())
		c.Note(fmt.Sprintf("worker 0 wall: histories %.0fs, cache-file faults %.0fs, schedules %.0fs, race pass %.0fs", t1.Sub(t0).Seconds(), t2.Sub(t1).Seconds(), t3.Sub(t2).Seconds(), time.Since(t3).Seconds()))
	}
}

func replay(raw json.RawMessage) (string, bool) {
	var p payload
	if err := json.Unmarshal(raw, &p); err != nil {
		return err.Error(), false
	}
	defer func() {
		if d := os.Getenv("VERIF_C20_DIR"); strings.Contains(d, "/c20-") {
			os.RemoveAll(d)
		}
	}()
	switch p.Stage {
	case "H":
		bad, _ := runHistory(p.History)
		if bad == "" {
			return "history " + histString(p.History) + ": every step agrees with the reference model", false
		}
		return "history " + histString(p.History) + ": " + bad, true
	case "F":
		for _, bs := range baseStates {
			if bs.name != p.Base {
				continue
			}
			s := newSystem(bs.big)
			for _, pk := range bs.prep {
				s.c.Prepare(s.w.root, pk)
			}
			s.c.Save(s.cacheFile)
			b, _ := os.ReadFile(s.cacheFile)
			for _, f := range faults(canonicalOrder(string(b))) {
				if f.name == p.Fault {
					if bad := probeFault(bs, f.data); bad != "" {
						return bad + "\nfile:\n" + f.data, true
					}
					return "fault " + f.name + ": no stale data, Load verdict as expected", false
				}
			}
		}
		return "fault not found", false
	case "S":
		for _, sc := range scenarios(true) {
			if sc.name == p.Scenario {
				m, s, ts, crash := runScenario(sc, p.Schedule)
				if bad := judgeScenario(sc, m, s, ts, crash); bad != "" {
					return bad, true
				}
				return "schedule reproduces no violation", false
			}
		}
	}
	return "not replayable", false
}
