// Package c08: selector resolution follows Go's field and method lookup rules.
package c08

import (
	"encoding/json"
	"fmt"
	"go/ast"
	"go/token"
	"go/types"
	"strings"

	"github.com/goplus/gogen"

	"verifengine/fixture"
	"verifengine/gx"
	"verifengine/oracle"
	"verifengine/vf"
)

func init() {
	vf.Register(&vf.Prop{
		ID: "C08", Level: "exploration",
		Rule: "all type graphs over four local structs S0..S3 and an imported struct ext.E (S3 = struct{x string; y int}, embeddable in S1 so that the same name occurs at different depths with different types): S0 has field x (absent|int|string), embeds each of S1,S2 (absent|by value|by pointer), method m (absent|value receiver|pointer receiver); S1 likewise with S2; S2 has x, y, embeds ext.E (absent|value|pointer; ext.E has an unexported field x, an exported field Y and methods M()/(*E).PM()), " +
			"method (absent | m value | m pointer | x() when it has no field x); for every graph the selectors x, y, m, Y, M, PM on 7 operand forms: variable of S0, of *S0, call result S0 (not addressable), call result *S0, assignment target v.sel, method call v.sel() / mk().sel(), method expressions S0.sel and (*S0).sel. " +
			"Oracle: go/types on the reference program (accepted?; types.Selection: object, owner struct, indirect, type) vs the builder (accepted?, MemberKind, reported type, Recorder.Member object owner) and go/types on the emitted text. non-trivial = selector resolved through at least one embedding; distinct = graph x selector x form",
		Assumptions: []string{"go/types 1.23.5 selector rules (LookupFieldOrMethod) are the specification", "objects of the two type-checking universes are matched by owner type name + member name + member type"},
		Run:         run,
		Replay:      replay,
	})
}

const extSrc = `package ext

type E struct {
	x int
	Y int
}

func (E) M() int   { return 0 }
func (*E) PM() int { return 0 }

// B promotes an exported field and an exported method through an embedded type that the importing package
// cannot name
type base struct{ ID int }

func (base) BM() int { return 0 }

type B struct {
	base
	L int
}
`

// graph parameters
type node struct {
	X     int // 0 none, 1 int, 2 string
	Y     int // 0 none, 1 int (S2 only)
	Emb   []int // per later struct: 0 none, 1 value, 2 pointer
	Ext   int // S2 only: 0 none, 1 value, 2 pointer
	Meth  int // 0 none, 1 m value, 2 m pointer, 3 x() value (only if X==0)
}

type graph [4]node

func (g graph) String() string {
	b, _ := json.Marshal(g)
	return string(b)
}

func (g graph) source() string {
	var b strings.Builder
	b.WriteString("package p\n\nimport \"ext\"\n\nvar _ ext.E\n\n")
	for i, n := range g {
		fmt.Fprintf(&b, "type S%d struct {\n", i)
		switch n.X {
		case 1:
			b.WriteString("\tx int\n")
		case 2:
			b.WriteString("\tx string\n")
		}
		if n.Y == 1 {
			b.WriteString("\ty int\n")
		}
		for k, e := range n.Emb {
			j := i + 1 + k
			switch e {
			case 1:
				fmt.Fprintf(&b, "\tS%d\n", j)
			case 2:
				fmt.Fprintf(&b, "\t*S%d\n", j)
			}
		}
		switch n.Ext {
		case 1:
			b.WriteString("\text.E\n")
		case 2:
			b.WriteString("\t*ext.E\n")
		case 3:
			b.WriteString("\text.B\n")
		case 4:
			b.WriteString("\t*ext.B\n")
		}
		b.WriteString("}\n\n")
		switch n.Meth {
		case 1:
			fmt.Fprintf(&b, "func (S%d) m() int { return 0 }\n\n", i)
		case 2:
			fmt.Fprintf(&b, "func (*S%d) m() int { return 0 }\n\n", i)
		case 3:
			fmt.Fprintf(&b, "func (S%d) x() int { return 0 }\n\n", i)
		}
	}
	b.WriteString("var v S0\nvar pv *S0\n\nfunc mk() S0 { return v }\n\nfunc mkp() *S0 { return pv }\n\n")
	return b.String()
}

var selectors = []string{"x", "y", "m", "Y", "M", "PM", "ID", "L", "BM"}

const baseSelectors = 6 // ID, L, BM are only asked of graphs that embed ext.B

func nsel(g graph) int {
	if g[2].Ext >= 3 {
		return len(selectors)
	}
	return baseSelectors
}
var forms = []string{"val", "ptr", "call", "callptr", "ref", "invoke", "invoke-call", "mexpr", "mexpr-ptr"}

func queryText(form, sel string) string {
	switch form {
	case "val":
		return "_ = v." + sel
	case "ptr":
		return "_ = pv." + sel
	case "call":
		return "_ = mk()." + sel
	case "callptr":
		return "_ = mkp()." + sel
	case "ref":
		return "v." + sel + " = v." + sel
	case "invoke":
		return "v." + sel + "()"
	case "invoke-call":
		return "mk()." + sel + "()"
	case "mexpr":
		return "_ = S0." + sel
	case "mexpr-ptr":
		return "_ = (*S0)." + sel
	}
	panic(form)
}

type goAnswer struct {
	ok      bool
	msg     string
	kind    string // field | method
	owner   string // declaring struct / receiver type name
	typ     string
	viaEmb  bool
}

type builderAnswer struct {
	ok    bool
	msg   string
	kind  string
	owner string
	typ   string
}

func ownerOf(obj types.Object, pkgs ...*types.Package) string {
	switch o := obj.(type) {
	case *types.Var:
		for _, p := range pkgs {
			for _, n := range p.Scope().Names() {
				if tn, ok := p.Scope().Lookup(n).(*types.TypeName); ok {
					if st, ok := tn.Type().Underlying().(*types.Struct); ok {
						for i := 0; i < st.NumFields(); i++ {
							if st.Field(i) == o {
								return tn.Name()
							}
						}
					}
				}
			}
		}
	case *types.Func:
		if sig, ok := o.Type().(*types.Signature); ok && sig.Recv() != nil {
			t := sig.Recv().Type()
			if p, ok := t.(*types.Pointer); ok {
				t = p.Elem()
			}
			if n, ok := t.(*types.Named); ok {
				return n.Obj().Name()
			}
		}
	}
	return "?"
}

// reference answers for every (form, selector) of a graph
func reference(g graph, imp *fixture.Importer) (map[string]goAnswer, string) {
	var b strings.Builder
	b.WriteString(g.source())
	for fi, f := range forms {
		for si, s := range selectors[:nsel(g)] {
			fmt.Fprintf(&b, "func q_%d_%d() {\n\t%s\n}\n\n", fi, si, queryText(f, s))
		}
	}
	c := oracle.CheckSrc(b.String(), imp, gx.PkgPath)
	if len(c.Parse) > 0 {
		panic("c08: reference does not parse: " + c.Parse[0])
	}
	by := c.ErrsByFunc()
	if len(by[""]) > 0 {
		return nil, strings.Join(by[""], "; ") // invalid graph
	}
	ext, _ := imp.Import("ext")
	out := map[string]goAnswer{}
	for _, file := range c.Files {
		for _, d := range file.Decls {
			fd, ok := d.(*ast.FuncDecl)
			if !ok || !strings.HasPrefix(fd.Name.Name, "q_") {
				continue
			}
			var fi, si int
			fmt.Sscanf(fd.Name.Name, "q_%d_%d", &fi, &si)
			key := forms[fi] + "|" + selectors[si]
			if errs := by[fd.Name.Name]; len(errs) > 0 {
				out[key] = goAnswer{ok: false, msg: errs[0]}
				continue
			}
			ans := goAnswer{ok: true}
			// first selector expression with the wanted name
			ast.Inspect(fd.Body, func(n ast.Node) bool {
				se, ok := n.(*ast.SelectorExpr)
				if !ok || se.Sel.Name != selectors[si] || ans.kind != "" {
					return true
				}
				if sel := c.Info.Selections[se]; sel != nil {
					switch sel.Kind() {
					case types.FieldVal:
						ans.kind = "field"
					default:
						ans.kind = "method"
					}
					ans.owner = ownerOf(sel.Obj(), c.Pkg, ext)
					ans.viaEmb = len(sel.Index()) > 1
					if forms[fi] == "ref" || ans.kind == "field" {
						ans.typ = oracle.Canon(sel.Obj().Type())
					} else {
						ans.typ = oracle.Canon(sel.Type())
					}
				}
				return true
			})
			out[key] = ans
		}
	}
	return out, ""
}

type world struct {
	b    *gx.Build
	s    [4]*types.Named
	ext  gogen.PkgRef
	v, pv, mk, mkp types.Object
}

func buildGraph(g graph, imp *fixture.Importer) (*world, gx.Outcome) {
	w := &world{}
	out := gx.Try(func() {
		b := gx.New(imp, gx.Options{})
		w.b = b
		pkg := b.Pkg
		w.ext = pkg.Import("ext")
		var decls [4]*gogen.TypeDecl
		for i := range g {
			decls[i] = pkg.NewType(fmt.Sprintf("S%d", i))
			w.s[i] = decls[i].Type()
		}
		for i := 3; i >= 0; i-- {
			n := g[i]
			var fs []*types.Var
			switch n.X {
			case 1:
				fs = append(fs, types.NewField(0, pkg.Types, "x", types.Typ[types.Int], false))
			case 2:
				fs = append(fs, types.NewField(0, pkg.Types, "x", types.Typ[types.String], false))
			}
			if n.Y == 1 {
				fs = append(fs, types.NewField(0, pkg.Types, "y", types.Typ[types.Int], false))
			}
			for k, e := range n.Emb {
				j := i + 1 + k
				switch e {
				case 1:
					fs = append(fs, types.NewField(0, pkg.Types, fmt.Sprintf("S%d", j), w.s[j], true))
				case 2:
					fs = append(fs, types.NewField(0, pkg.Types, fmt.Sprintf("S%d", j), types.NewPointer(w.s[j]), true))
				}
			}
			eT := w.ext.Ref("E").Type()
			switch n.Ext {
			case 1:
				fs = append(fs, types.NewField(0, pkg.Types, "E", eT, true))
			case 2:
				fs = append(fs, types.NewField(0, pkg.Types, "E", types.NewPointer(eT), true))
			case 3:
				fs = append(fs, types.NewField(0, pkg.Types, "B", w.ext.Ref("B").Type(), true))
			case 4:
				fs = append(fs, types.NewField(0, pkg.Types, "B", types.NewPointer(w.ext.Ref("B").Type()), true))
			}
			decls[i].InitType(pkg, types.NewStruct(fs, nil))
		}
		for i, n := range g {
			res := types.NewTuple(pkg.NewParam(token.NoPos, "", types.Typ[types.Int], false))
			switch n.Meth {
			case 1:
				pkg.NewFunc(pkg.NewParam(token.NoPos, "", w.s[i], false), "m", nil, res, false).BodyStart(pkg).Val(0).Return(1).End()
			case 2:
				pkg.NewFunc(pkg.NewParam(token.NoPos, "", types.NewPointer(w.s[i]), false), "m", nil, res, false).BodyStart(pkg).Val(0).Return(1).End()
			case 3:
				pkg.NewFunc(pkg.NewParam(token.NoPos, "", w.s[i], false), "x", nil, res, false).BodyStart(pkg).Val(0).Return(1).End()
			}
		}
		pkg.NewVar(token.NoPos, w.s[0], "v")
		pkg.NewVar(token.NoPos, types.NewPointer(w.s[0]), "pv")
		w.v, w.pv = pkg.Types.Scope().Lookup("v"), pkg.Types.Scope().Lookup("pv")
		pkg.NewFunc(nil, "mk", nil, types.NewTuple(pkg.NewParam(token.NoPos, "", w.s[0], false)), false).BodyStart(pkg).Val(w.v).Return(1).End()
		pkg.NewFunc(nil, "mkp", nil, types.NewTuple(pkg.NewParam(token.NoPos, "", types.NewPointer(w.s[0]), false)), false).BodyStart(pkg).Val(w.pv).Return(1).End()
		w.mk, w.mkp = pkg.Types.Scope().Lookup("mk"), pkg.Types.Scope().Lookup("mkp")
	})
	return w, out
}

// query builds one selector use in its own function; on rejection the function is closed
// with whatever was emitted before.
func (w *world) query(fi, si int) builderAnswer {
	form, sel := forms[fi], selectors[si]
	pkg := w.b.Pkg
	var ans builderAnswer
	nErr := len(w.b.Errs)
	nEv := 0
	if w.b.Rec != nil {
		nEv = len(w.b.Rec.Events)
	}
	cb := pkg.NewFunc(nil, fmt.Sprintf("q_%d_%d", fi, si), nil, nil, false).BodyStart(pkg)
	out := gx.Try(func() {
		src := &gx.Src{Text: queryText(form, sel)}
		push := func() {
			switch form {
			case "val", "ref", "invoke":
				cb.Val(w.v)
			case "ptr":
				cb.Val(w.pv)
			case "call", "invoke-call":
				cb.Val(w.mk).Call(0)
			case "callptr":
				cb.Val(w.mkp).Call(0)
			case "mexpr":
				cb.Typ(w.s[0])
			case "mexpr-ptr":
				cb.Typ(types.NewPointer(w.s[0]))
			}
		}
		var kind gogen.MemberKind
		var err error
		switch form {
		case "ref":
			push()
			kind, err = cb.Member(sel, 0, gogen.MemberFlagRef, src)
			if err == nil && kind != gogen.MemberInvalid {
				if t, ok := gogen.DerefType(cb.Get(-1).Type); ok {
					ans.typ = oracle.Canon(t)
				} else {
					ans.typ = "not-a-reference:" + fmt.Sprint(cb.Get(-1).Type)
				}
				push()
				cb.MemberVal(sel, 0, src)
				cb.Assign(1).EndStmt()
			}
		case "invoke", "invoke-call":
			push()
			kind, err = cb.Member(sel, 0, gogen.MemberFlagVal, src)
			if err == nil && kind != gogen.MemberInvalid {
				ans.typ = typeOf(cb.Get(-1).Type)
				cb.Call(0).EndStmt()
			}
		default:
			cb.VarRef(nil)
			push()
			kind, err = cb.Member(sel, 0, gogen.MemberFlagVal, src)
			if err == nil && kind != gogen.MemberInvalid {
				ans.typ = typeOf(cb.Get(-1).Type)
				cb.Assign(1).EndStmt()
			}
		}
		if err != nil {
			panic(err)
		}
		switch kind {
		case gogen.MemberField:
			ans.kind = "field"
		case gogen.MemberMethod, gogen.MemberAutoProperty:
			ans.kind = "method"
		default:
			panic(fmt.Sprintf("member kind %v", kind))
		}
	})
	ans.ok = !out.Panicked && len(w.b.Errs) == nErr
	if !ans.ok {
		ans.msg = out.Msg + strings.Join(w.b.Errs[nErr:], ";")
		if out.Fault {
			ans.msg = "FAULT " + ans.msg
		}
		w.b.Errs = w.b.Errs[:nErr]
		gx.Try(func() { cb.ResetStmt() })
	}
	if w.b.Rec != nil && len(w.b.Rec.Events) > nEv {
		ext, _ := w.b.Imp.Import("ext")
		ans.owner = ownerOf(w.b.Rec.Events[nEv].Obj, pkg.Types, ext)
	}
	gx.Try(func() { cb.End() })
	return ans
}

func typeOf(t types.Type) string {
	switch t.(type) {
	case *types.Basic, *types.Pointer, *types.Slice, *types.Array, *types.Map, *types.Chan, *types.Signature, *types.Struct, *types.Interface, *types.Named, *types.Alias:
		return oracle.Canon(t)
	}
	return fmt.Sprintf("gogen:%T", t)
}

type payload struct {
	Graph graph  `json:"graph"`
	Form  string `json:"form"`
	Sel   string `json:"selector"`
}

func graphs(thorough bool, yield func(g graph)) {
	embOpts := 3
	for x0 := 0; x0 < 3; x0++ {
		for e01 := 0; e01 < embOpts; e01++ {
			for e02 := 0; e02 < embOpts; e02++ {
				for m0 := 0; m0 < 3; m0++ {
					for x1 := 0; x1 < 3; x1++ {
						for e12 := 0; e12 < embOpts; e12++ {
							for m1 := 0; m1 < 3; m1++ {
								for x2 := 0; x2 < 3; x2++ {
									for y2 := 0; y2 < 2; y2++ {
										for ext := 0; ext < 5; ext++ {
											for m2 := 0; m2 < 4; m2++ {
												if m2 == 3 && x2 != 0 {
													continue
												}
												if ext >= 3 && !thorough && (m0 != 0 || m1 != 0 || m2 != 0 || x1 != 0 || y2 != 0) {
													continue // quick bound: ext.B only in graphs without methods and without x in S1 / y in S2
												}
												if !thorough {
													// quick bound
													if m0 == 2 && m1 == 2 || (x1 == 2 && x0 == 2) || (m1 != 0 && m2 == 3) || (x0 != 0 && y2 == 1 && ext != 0) {
														continue
													}
												}
												for e13 := 0; e13 < 3; e13++ {
													if !thorough && e13 != 0 && (ext != 0 || m2 != 0 || m1 != 0) {
														continue // quick bound: S3 only in graphs without ext.E and without methods below S0
													}
													yield(graph{
														{X: x0, Emb: []int{e01, e02, 0}, Meth: m0},
														{X: x1, Emb: []int{e12, e13}, Meth: m1},
														{X: x2, Y: y2, Emb: []int{0}, Ext: ext, Meth: m2},
														{X: 2, Y: 1},
													})
												}
											}
										}
									}
								}
							}
						}
					}
				}
			}
		}
	}
}

func shapeOf(g graph) string {
	e := func(v int) string { return [...]string{"-", "v", "p", "Bv", "Bp"}[v] }
	return fmt.Sprintf("S0{x%d,S1%s,S2%s,m%d}S1{x%d,S2%s,S3%s,m%d}S2{x%d,y%d,E%s,m%d}S3{x string,y int}", g[0].X, e(g[0].Emb[0]), e(g[0].Emb[1]), g[0].Meth, g[1].X, e(g[1].Emb[0]), e(g[1].Emb[1]), g[1].Meth, g[2].X, g[2].Y, e(g[2].Ext), g[2].Meth)
}

// coarse class: per struct only what matters for the selector at hand would be ideal; we keep
// the discrepancy kind, form, selector and the embedding skeleton (not field types).
func classOf(g graph, form, sel, kind string) string {
	e := func(v int) string { return [...]string{"-", "v", "p", "Bv", "Bp"}[v] }
	skel := fmt.Sprintf("S0[%s%s]S1[%s%s]S2[E%s]", e(g[0].Emb[0]), e(g[0].Emb[1]), e(g[1].Emb[0]), e(g[1].Emb[1]), e(g[2].Ext))
	_ = skel
	has := func(n node) string {
		s := ""
		if n.X != 0 {
			s += "x"
		}
		if n.Y != 0 {
			s += "y"
		}
		switch n.Meth {
		case 1:
			s += "m"
		case 2:
			s += "M"
		case 3:
			s += "X"
		}
		return s
	}
	_ = has
	return fmt.Sprintf("%s|%s|%s|%s", kind, form, sel, skel)
}

func judgeGraph(g graph, imp *fixture.Importer, report func(form, sel, kind, detail string), count func(nontrivial bool, outcome string)) (judged bool) {
	ref, invalid := reference(g, imp)
	if ref == nil {
		_ = invalid
		return false
	}
	w, out := buildGraph(g, imp)
	if out.Panicked || len(w.b.Errs) > 0 {
		report("decl", "-", "graph-rejected", "builder rejected the type declarations of a valid graph: "+out.Msg+strings.Join(w.b.Errs, ";"))
		return true
	}
	type acc struct {
		fi, si int
		ans    builderAnswer
	}
	var accepted []acc
	for fi, f := range forms {
		for si, s := range selectors[:nsel(g)] {
			ga := ref[f+"|"+s]
			ba := w.query(fi, si)
			count(ga.viaEmb, fmt.Sprintf("go=%v,builder=%v", ga.ok, ba.ok))
			switch {
			case strings.HasPrefix(ba.msg, "FAULT"):
				report(f, s, "fault", "run-time fault: "+ba.msg)
			case ga.ok && !ba.ok:
				report(f, s, "valid-rejected", fmt.Sprintf("go/types accepts `%s` (%s of %s, type %s); builder rejects: %s", queryText(f, s), ga.kind, ga.owner, ga.typ, ba.msg))
			case !ga.ok && ba.ok:
				report(f, s, "invalid-accepted", fmt.Sprintf("go/types rejects `%s` (%s); builder accepts as %s of %s", queryText(f, s), ga.msg, ba.kind, ba.owner))
			case ga.ok && ba.ok:
				accepted = append(accepted, acc{fi, si, ba})
				if ga.kind != ba.kind {
					report(f, s, "kind-differs", fmt.Sprintf("`%s`: go/types %s of %s, builder %s of %s", queryText(f, s), ga.kind, ga.owner, ba.kind, ba.owner))
				} else if ba.owner != "" && ba.owner != "?" && ga.owner != ba.owner {
					report(f, s, "wrong-member", fmt.Sprintf("`%s`: go/types selects %s.%s, builder (recorder) %s.%s", queryText(f, s), ga.owner, s, ba.owner, s))
				} else if ga.typ != "" && ba.typ != "" && ga.typ != ba.typ && ga.kind == "field" {
					report(f, s, "type-differs", fmt.Sprintf("`%s`: go/types type %s, builder %s", queryText(f, s), ga.typ, ba.typ))
				}
			}
		}
	}
	// the emitted package: accepted selectors must type-check and select the same member
	texts, err := oracle.WriteAll(w.b.Pkg)
	if err != nil {
		report("emit", "-", "write-failed", err.Error())
		return true
	}
	c := oracle.Check(texts, imp, gx.PkgPath)
	if len(c.Parse) > 0 {
		report("emit", "-", "no-parse", c.Parse[0])
		return true
	}
	by := c.ErrsByFunc()
	for _, a := range accepted {
		name := fmt.Sprintf("q_%d_%d", a.fi, a.si)
		ga := ref[forms[a.fi]+"|"+selectors[a.si]]
		if errs := by[name]; len(errs) > 0 {
			report(forms[a.fi], selectors[a.si], "emitted-rejected", fmt.Sprintf("accepted `%s` but the emitted text is rejected: %s", queryText(forms[a.fi], selectors[a.si]), errs[0]))
			continue
		}
		ext, _ := imp.Import("ext")
		for _, file := range c.Files {
			for _, d := range file.Decls {
				fd, ok := d.(*ast.FuncDecl)
				if !ok || fd.Name.Name != name {
					continue
				}
				done := false
				ast.Inspect(fd.Body, func(n ast.Node) bool {
					se, ok := n.(*ast.SelectorExpr)
					if !ok || done || se.Sel.Name != selectors[a.si] {
						return true
					}
					if sel := c.Info.Selections[se]; sel != nil {
						done = true
						if o := ownerOf(sel.Obj(), c.Pkg, ext); o != ga.owner {
							report(forms[a.fi], selectors[a.si], "emitted-selects-other", fmt.Sprintf("emitted `%s` selects %s.%s, reference selects %s.%s", queryText(forms[a.fi], selectors[a.si]), o, selectors[a.si], ga.owner, selectors[a.si]))
						}
					}
					return true
				})
			}
		}
	}
	return true
}

func run(c *vf.Ctx) {
	imp := fixture.New(map[string]string{"ext": extSrc}, false)
	var idx int64
	graphs(c.Thorough(), func(g graph) {
		i := idx
		idx++
		if !c.MineIdx(i) {
			return
		}
		if c.Expired() {
			if i%256 == 0 {
				c.Cap("wall budget")
			}
			return
		}
		judged := judgeGraph(g, imp, func(form, sel, kind, detail string) {
			c.Violation(classOf(g, form, sel, kind), "graph "+shapeOf(g)+"\n"+detail+"\n"+g.source(), payload{g, form, sel})
		}, func(nontrivial bool, outcome string) {
			c.Eval(1)
			c.Outcome(outcome)
			if nontrivial {
				c.Tally("resolved_through_embedding", 1)
			}
		})
		if judged {
			c.Tally("graphs_judged", 1)
			c.Distinct(shapeOf(g))
			if i%5003 == 0 {
				c.Sample(map[string]string{"graph": shapeOf(g), "source": g.source()})
			}
		} else {
			c.Tally("graphs_invalid_skipped", 1)
		}
	})
}

func replay(raw json.RawMessage) (string, bool) {
	var p payload
	if err := json.Unmarshal(raw, &p); err != nil {
		return err.Error(), false
	}
	imp := fixture.New(map[string]string{"ext": extSrc}, false)
	var out []string
	judgeGraph(p.Graph, imp, func(form, sel, kind, detail string) {
		if form == p.Form && sel == p.Sel {
			out = append(out, kind+": "+detail)
		}
	}, func(bool, string) {})
	if len(out) == 0 {
		return "selector " + p.Sel + " (" + p.Form + ") agrees with go/types on graph " + shapeOf(p.Graph), false
	}
	return strings.Join(out, "\n") + "\n" + p.Graph.source(), true
}
