// Package c17: every operation terminates promptly and never fails with a run-time fault.
package c17

import (
	"encoding/json"
	"fmt"
	"go/ast"
	"go/token"
	"go/types"
	"math/big"
	"os"
	"runtime"
	"strings"
	"syscall"
	"time"

	"github.com/goplus/gogen"

	"verifengine/ex"
	"verifengine/fixture"
	"verifengine/gx"
	"verifengine/st"
	"verifengine/vf"
)

func init() {
	vf.Register(&vf.Prop{
		ID: "C17", Level: "exploration",
		Rule: "(a) every arity-correct application of ~110 builder operations to every combination of 14 operand kinds (constants, variables, references, `_`, None(), types, nil, functions, tuple and void call results, closures), in an open function body; " +
			"(b) the whole C01 expression space (1.8M programs, valid and invalid) and the statement-rule programs under the default configuration, and the single-operator space again with each optional configuration absent or changed (no recorder, no node interpreter, nil HandleErr, NoSkipConstant, no source nodes); " +
			"(c) an extremes table: constant shift counts 63..2^63, 10^4-digit literals, exponent 1e100000, 10^4-deep unary/binary/paren nesting, 10^4 arguments / cases / fields / statements. " +
			"Oracle: a recovered panic value is never a runtime.Error (nil dereference, index out of range, failed type assertion, ...), every execution returns within 20 s and stays under 3 GiB. non-trivial = executions that ended in a reported error or panic; distinct = operation x operand kinds",
		Assumptions:    []string{"a panic carrying a non-runtime.Error value (CodeError, MatchError, string, error) is a reported error, as the builder's API documents", "the 20 s / 3 GiB limits are two orders of magnitude above any legitimate execution here"},
		ThoroughBudget: 60 * time.Minute,
		Run:            run,
		Replay:         replay,
	})
}

type payload struct {
	Stage string   `json:"stage"`
	Op    string   `json:"op"`
	Kinds []string `json:"kinds,omitempty"`
	Expr  string   `json:"expr,omitempty"`
	Use   string   `json:"use,omitempty"`
	Conf  string   `json:"conf,omitempty"`
}

// ---------------------------------------------------------------------------------------
// watchdog

type guard struct {
	c *vf.Ctx
}

// do runs f under the time and memory limits. On a violation of the limits it records it and
// terminates the worker (a runaway goroutine cannot be stopped).
func (g *guard) do(class, detail string, p payload, f func() gx.Outcome) gx.Outcome {
	done := make(chan gx.Outcome, 1)
	go func() { done <- f() }()
	tick := time.NewTicker(200 * time.Millisecond)
	defer tick.Stop()
	// the time limit is CPU time of this worker process, not wall-clock time: on a loaded machine an item
	// that needs one second of work can take a minute of wall time, while a runaway loop burns CPU
	cpu0 := cpuTime()
	wall0 := time.Now()
	for {
		select {
		case out := <-done:
			return out
		case <-tick.C:
			var ms runtime.MemStats
			runtime.ReadMemStats(&ms)
			if ms.Sys > 3<<30 {
				g.c.Violation(class+"|memory", detail+": more than 3 GiB in use, execution abandoned", p)
				g.c.Cap("worker stopped after a memory-limit violation")
				g.c.Flush()
				os.Exit(0)
			}
			if used := cpuTime() - cpu0; used > 120*time.Second {
				g.c.Violation(class+"|hang", fmt.Sprintf("%s: no result after %.0f s of CPU time", detail, used.Seconds()), p)
				g.c.Cap("worker stopped after a time-limit violation")
				g.c.Flush()
				os.Exit(0)
			}
			if time.Since(wall0) > 45*time.Minute {
				// not a verdict: the machine did not give the item enough CPU to decide
				g.c.Cap("worker stopped: an item got less than 120 s of CPU in 45 min of wall time (" + class + ")")
				g.c.Flush()
				os.Exit(0)
			}
		}
	}
}

func cpuTime() time.Duration {
	var ru syscall.Rusage
	if err := syscall.Getrusage(syscall.RUSAGE_SELF, &ru); err != nil {
		return 0
	}
	return time.Duration(ru.Utime.Nano() + ru.Stime.Nano())
}

// ---------------------------------------------------------------------------------------
// (a) raw operations on operand kinds

type world struct {
	b   *gx.Build
	env gogen.PkgRef
	cb  *gogen.CodeBuilder
}

type kind struct {
	name string
	push func(w *world)
}

func kinds() []kind {
	return []kind{
		{"const-int", func(w *world) { w.cb.Val(1) }},
		{"const-str", func(w *world) { w.cb.Val("s") }},
		{"var-int", func(w *world) { w.cb.Val(w.env.Ref("VInt")) }},
		{"var-struct", func(w *world) { w.cb.Val(w.env.Ref("VS")) }},
		{"var-any", func(w *world) { w.cb.Val(w.env.Ref("VAny")) }},
		{"ref-int", func(w *world) { w.cb.VarRef(w.env.Ref("VInt")) }},
		{"ref-blank", func(w *world) { w.cb.VarRef(nil) }},
		{"none", func(w *world) { w.cb.None() }},
		{"type-int", func(w *world) { w.cb.Typ(types.Typ[types.Int]) }},
		{"type-named", func(w *world) { w.cb.Typ(w.env.Ref("S").Type()) }},
		{"nil", func(w *world) { w.cb.Val(nil) }},
		{"func", func(w *world) { w.cb.Val(w.env.Ref("F1")) }},
		{"tuple", func(w *world) { w.cb.Val(w.env.Ref("FR2")).Call(0) }},
		{"void", func(w *world) { w.cb.Val(w.env.Ref("FN")).Call(0) }},
		{"closure", func(w *world) { w.cb.NewClosure(nil, nil, false).BodyStart(w.b.Pkg).End() }},
		{"big", func(w *world) { w.cb.Val(new(big.Int).Lsh(big.NewInt(1), 100)) }},
	}
}

type rawOp struct {
	name  string
	arity int
	pre   func(w *world) // opens the construct the operation needs (before the operands)
	do    func(w *world)
}

func rawOps() []rawOp {
	var ops []rawOp
	add := func(name string, arity int, pre, do func(w *world)) { ops = append(ops, rawOp{name, arity, pre, do}) }
	for _, t := range []token.Token{token.SUB, token.ADD, token.XOR, token.NOT, token.ARROW, token.AND} {
		t := t
		add("UnaryOp"+t.String(), 1, nil, func(w *world) { w.cb.UnaryOp(t) })
	}
	add("UnaryOpEx<-2", 1, nil, func(w *world) { w.cb.UnaryOpEx(token.ARROW, 2) })
	add("Star", 1, nil, func(w *world) { w.cb.Star() })
	add("Elem", 1, nil, func(w *world) { w.cb.Elem() })
	add("ElemRef", 1, nil, func(w *world) { w.cb.ElemRef() })
	add("IncDec++", 1, nil, func(w *world) { w.cb.IncDec(token.INC) })
	add("IncDec--", 1, nil, func(w *world) { w.cb.IncDec(token.DEC) })
	for _, n := range []string{"X", "PM", "zz", "0", "len"} {
		n := n
		add("MemberVal."+n, 1, nil, func(w *world) { w.cb.MemberVal(n, 0) })
		add("MemberRef."+n, 1, nil, func(w *world) { w.cb.MemberRef(n) })
	}
	add("Member-alias", 1, nil, func(w *world) { w.cb.Member("meth", 0, gogen.MemberFlagMethodAlias) })
	add("Member-autoprop", 1, nil, func(w *world) { w.cb.Member("meth", 0, gogen.MemberFlagAutoProperty) })
	add("TypeAssert", 1, nil, func(w *world) { w.cb.TypeAssert(types.Typ[types.Int], 0) })
	add("TypeAssert2", 1, nil, func(w *world) { w.cb.TypeAssert(types.Typ[types.Int], 2) })
	add("EndStmt", 1, nil, func(w *world) { w.cb.EndStmt() })
	add("Return1", 1, nil, func(w *world) { w.cb.Return(1) })
	add("ReturnErr", 1, nil, func(w *world) { w.cb.ReturnErr(false) })
	add("Defer", 1, nil, func(w *world) { w.cb.Defer() })
	add("Go", 1, nil, func(w *world) { w.cb.Go() })
	add("Call0", 1, nil, func(w *world) { w.cb.Call(0) })
	add("CallWith0-lhs2", 1, nil, func(w *world) { w.cb.CallWith(0, 2, 0) })
	add("If-Then", 1, func(w *world) { w.cb.If() }, func(w *world) { w.cb.Then().End() })
	add("For-Then", 1, func(w *world) { w.cb.For() }, func(w *world) { w.cb.Then().End() })
	add("Switch-Then", 1, func(w *world) { w.cb.Switch() }, func(w *world) { w.cb.Then().End() })
	add("Case-Then", 1, func(w *world) { w.cb.Switch().Val(w.env.Ref("VInt")).Then().Case() }, func(w *world) { w.cb.Then().End().End() })
	add("CaseNoTag-Then", 1, func(w *world) { w.cb.Switch().None().Then().Case() }, func(w *world) { w.cb.Then().End().End() })
	add("TypeSwitch-Then", 1, func(w *world) { w.cb.TypeSwitch("v") }, func(w *world) { w.cb.TypeAssertThen().End() })
	add("TypeCase-Then", 1, func(w *world) { w.cb.TypeSwitch("v").Val(w.env.Ref("VAny")).TypeAssertThen().TypeCase() }, func(w *world) { w.cb.Then().End().End() })
	add("Range0", 1, func(w *world) { w.cb.ForRange() }, func(w *world) { w.cb.RangeAssignThen(token.NoPos).End() })
	add("Range1", 1, func(w *world) { w.cb.ForRange("k") }, func(w *world) { w.cb.RangeAssignThen(token.NoPos).End() })
	add("Range2", 1, func(w *world) { w.cb.ForRange("k", "v") }, func(w *world) { w.cb.RangeAssignThen(token.NoPos).End() })
	add("Range3", 1, func(w *world) { w.cb.ForRange("k", "v", "x") }, func(w *world) { w.cb.RangeAssignThen(token.NoPos).End() })
	add("Define-EndInit", 1, func(w *world) { w.cb.DefineVarStart(token.NoPos, "x") }, func(w *world) { w.cb.EndInit(1) })
	add("Define2-EndInit1", 1, func(w *world) { w.cb.DefineVarStart(token.NoPos, "x", "y") }, func(w *world) { w.cb.EndInit(1) })
	add("Var-EndInit", 1, func(w *world) { w.cb.NewVarStart(nil, "x") }, func(w *world) { w.cb.EndInit(1) })
	add("VarInt-EndInit", 1, func(w *world) { w.cb.NewVarStart(types.Typ[types.Int], "x") }, func(w *world) { w.cb.EndInit(1) })
	add("Const-EndInit", 1, func(w *world) { w.cb.NewConstStart(nil, "c") }, func(w *world) { w.cb.EndInit(1) })
	add("SliceLit1", 1, nil, func(w *world) { w.cb.SliceLit(types.NewSlice(types.Typ[types.Int]), 1) })
	add("SliceLitNil1", 1, nil, func(w *world) { w.cb.SliceLit(nil, 1) })
	add("SliceLitNamed1", 1, nil, func(w *world) { w.cb.SliceLit(w.env.Ref("M").Type(), 1) })
	add("ArrayLit1", 1, nil, func(w *world) { w.cb.ArrayLit(types.NewArray(types.Typ[types.Int], 2), 1) })
	add("ArrayLitNamed1", 1, nil, func(w *world) { w.cb.ArrayLit(w.env.Ref("M").Type(), 1) })
	add("StructLit1", 1, nil, func(w *world) { w.cb.StructLit(w.env.Ref("S").Type(), 1, false) })
	add("StructLitNamed1", 1, nil, func(w *world) { w.cb.StructLit(w.env.Ref("M").Type(), 1, false) })
	add("MapLit1", 1, nil, func(w *world) { w.cb.MapLit(types.NewMap(types.Typ[types.String], types.Typ[types.Int]), 1) })
	add("ConvertToClosure", 1, nil, func(w *world) { w.cb.ConvertToClosure(types.Typ[types.Int]) })
	add("Conv-int", 1, func(w *world) { w.cb.Typ(types.Typ[types.Int]) }, func(w *world) { w.cb.Call(1) })
	add("Conv-named", 1, func(w *world) { w.cb.Typ(w.env.Ref("M").Type()) }, func(w *world) { w.cb.Call(1) })
	add("len", 1, func(w *world) { w.cb.Val(w.b.Pkg.Builtin().Ref("len")) }, func(w *world) { w.cb.Call(1) })
	add("new", 1, func(w *world) { w.cb.Val(w.b.Pkg.Builtin().Ref("new")) }, func(w *world) { w.cb.Call(1) })
	add("make", 1, func(w *world) { w.cb.Val(w.b.Pkg.Builtin().Ref("make")) }, func(w *world) { w.cb.Call(1) })
	add("Sizeof", 1, func(w *world) { w.cb.Val(w.b.Pkg.Unsafe().Ref("Sizeof")) }, func(w *world) { w.cb.Call(1) })
	add("Offsetof", 1, func(w *world) { w.cb.Val(w.b.Pkg.Unsafe().Ref("Offsetof")) }, func(w *world) { w.cb.Call(1) })
	add("SliceData", 1, func(w *world) { w.cb.Val(w.b.Pkg.Unsafe().Ref("SliceData")) }, func(w *world) { w.cb.Call(1) })
	add("F1(arg)", 1, func(w *world) { w.cb.Val(w.env.Ref("F1")) }, func(w *world) { w.cb.Call(1) })
	add("FV(arg...)", 1, func(w *world) { w.cb.Val(w.env.Ref("FV")) }, func(w *world) { w.cb.Call(1, true) })
	add("G(arg)", 1, func(w *world) { w.cb.Val(w.env.Ref("G")) }, func(w *world) { w.cb.Call(1) })
	add("Index-instantiate", 1, func(w *world) { w.cb.Val(w.env.Ref("G")) }, func(w *world) { w.cb.Index(1, 0) })
	// two operands
	for _, t := range ex.BinOps {
		t := t
		add("BinaryOp"+t.String(), 2, nil, func(w *world) { w.cb.BinaryOp(t) })
	}
	for _, t := range []token.Token{token.ADD_ASSIGN, token.QUO_ASSIGN, token.REM_ASSIGN, token.SHL_ASSIGN, token.AND_NOT_ASSIGN} {
		t := t
		add("AssignOp"+t.String(), 2, nil, func(w *world) { w.cb.AssignOp(t) })
	}
	add("Assign1", 2, nil, func(w *world) { w.cb.Assign(1) })
	add("Assign(2,0)", 2, nil, func(w *world) { w.cb.Assign(2, 0) })
	add("Send", 2, nil, func(w *world) { w.cb.Send() })
	add("Index", 2, nil, func(w *world) { w.cb.Index(1, 0) })
	add("Index2", 2, nil, func(w *world) { w.cb.Index(1, 2) })
	add("IndexRef", 2, nil, func(w *world) { w.cb.IndexRef(1) })
	add("Call1", 2, nil, func(w *world) { w.cb.Call(1) })
	add("Call1...", 2, nil, func(w *world) { w.cb.Call(1, true) })
	add("Return2", 2, nil, func(w *world) { w.cb.Return(2) })
	add("MapLit2", 2, nil, func(w *world) { w.cb.MapLit(types.NewMap(types.Typ[types.String], types.Typ[types.Int]), 2) })
	add("MapLitNil2", 2, nil, func(w *world) { w.cb.MapLit(nil, 2) })
	add("SliceLitKV2", 2, nil, func(w *world) { w.cb.SliceLit(types.NewSlice(types.Typ[types.Int]), 2, true) })
	add("ArrayLitKV2", 2, nil, func(w *world) { w.cb.ArrayLit(types.NewArray(types.Typ[types.Int], 2), 2, true) })
	add("StructLitKV2", 2, nil, func(w *world) { w.cb.StructLit(w.env.Ref("S").Type(), 2, true) })
	add("Define2-EndInit2", 2, func(w *world) { w.cb.DefineVarStart(token.NoPos, "x", "y") }, func(w *world) { w.cb.EndInit(2) })
	add("Define1-EndInit2", 2, func(w *world) { w.cb.DefineVarStart(token.NoPos, "x") }, func(w *world) { w.cb.EndInit(2) })
	add("Range-assign1", 2, func(w *world) { w.cb.ForRange() }, func(w *world) { w.cb.RangeAssignThen(token.NoPos).End() })
	add("append", 2, func(w *world) { w.cb.Val(w.b.Pkg.Builtin().Ref("append")) }, func(w *world) { w.cb.Call(2) })
	add("append...", 2, func(w *world) { w.cb.Val(w.b.Pkg.Builtin().Ref("append")) }, func(w *world) { w.cb.Call(2, true) })
	add("copy", 2, func(w *world) { w.cb.Val(w.b.Pkg.Builtin().Ref("copy")) }, func(w *world) { w.cb.Call(2) })
	add("delete", 2, func(w *world) { w.cb.Val(w.b.Pkg.Builtin().Ref("delete")) }, func(w *world) { w.cb.Call(2) })
	add("min", 2, func(w *world) { w.cb.Val(w.b.Pkg.Builtin().Ref("min")) }, func(w *world) { w.cb.Call(2) })
	add("complex", 2, func(w *world) { w.cb.Val(w.b.Pkg.Builtin().Ref("complex")) }, func(w *world) { w.cb.Call(2) })
	add("make2", 2, func(w *world) { w.cb.Val(w.b.Pkg.Builtin().Ref("make")) }, func(w *world) { w.cb.Call(2) })
	add("unsafe.Add", 2, func(w *world) { w.cb.Val(w.b.Pkg.Unsafe().Ref("Add")) }, func(w *world) { w.cb.Call(2) })
	add("unsafe.Slice", 2, func(w *world) { w.cb.Val(w.b.Pkg.Unsafe().Ref("Slice")) }, func(w *world) { w.cb.Call(2) })
	add("unsafe.String", 2, func(w *world) { w.cb.Val(w.b.Pkg.Unsafe().Ref("String")) }, func(w *world) { w.cb.Call(2) })
	add("F2(a,b)", 2, func(w *world) { w.cb.Val(w.env.Ref("F2")) }, func(w *world) { w.cb.Call(2) })
	add("Index-instantiate2", 2, func(w *world) { w.cb.Val(w.env.Ref("G")) }, func(w *world) { w.cb.Index(2, 0) })
	// three operands
	add("Slice", 3, nil, func(w *world) { w.cb.Slice(false) })
	add("Range-assign2", 3, func(w *world) { w.cb.ForRange() }, func(w *world) { w.cb.RangeAssignThen(token.NoPos).End() })
	add("Call2", 3, nil, func(w *world) { w.cb.Call(2) })
	add("Assign(2,1)", 3, nil, func(w *world) { w.cb.Assign(2, 1) })
	return ops
}

func newWorld(imp *fixture.Importer, opt gx.Options) *world {
	b := gx.New(imp, opt)
	w := &world{b: b}
	w.env = b.Pkg.Import(ex.EnvPath)
	return w
}

func execRaw(imp *fixture.Importer, op rawOp, ks []kind) gx.Outcome {
	var w *world
	return gx.Try(func() {
		w = newWorld(imp, gx.Options{})
		errT := types.Universe.Lookup("error").Type()
		res := types.NewTuple(w.b.Pkg.NewParam(token.NoPos, "", types.Typ[types.Int], false), w.b.Pkg.NewParam(token.NoPos, "", errT, false))
		w.cb = w.b.Pkg.NewFunc(nil, "f", nil, res, false).BodyStart(w.b.Pkg)
		if op.pre != nil {
			op.pre(w)
		}
		for _, k := range ks {
			k.push(w)
		}
		op.do(w)
	})
}

// ---------------------------------------------------------------------------------------

type confVariant struct {
	name string
	opt  gx.Options
}

func confs() []confVariant {
	return []confVariant{
		{"no-recorder", gx.Options{NoRecorder: true}},
		{"no-interp", gx.Options{NoInterp: true}},
		{"no-recorder-no-interp", gx.Options{NoRecorder: true, NoInterp: true}},
		{"nil-handleerr", gx.Options{Conf: func(c *gogen.Config) { c.HandleErr = nil }}},
		{"noskipconst", gx.Options{Conf: func(c *gogen.Config) { c.NoSkipConstant = true }}},
		{"real-builtin", gx.Options{RealBuiltin: true}},
	}
}

func faultClass(msg string) string {
	m := msg
	for _, p := range []string{"index out of range", "nil pointer dereference", "interface conversion", "slice bounds out of range", "integer divide by zero", "makeslice", "invalid memory address"} {
		if strings.Contains(m, p) {
			return p
		}
	}
	if len(m) > 60 {
		m = m[:60]
	}
	return m
}

func where(stack string) string {
	// first gogen frame
	lines := strings.Split(stack, "\n")
	for i, l := range lines {
		if strings.HasPrefix(l, "github.com/goplus/gogen") && !strings.Contains(l, "verif") {
			fn := l
			if j := strings.Index(fn, "("); j > 0 {
				fn = fn[:j]
			}
			fn = strings.TrimPrefix(fn, "github.com/goplus/gogen")
			_ = i
			return fn
		}
	}
	return "?"
}

func run(c *vf.Ctx) {
	imp := ex.Importer(nil)
	ex.NewOwn(imp)
	g := &guard{c}
	ks := kinds()
	var idx int64
	mine := func() bool {
		i := idx
		idx++
		return c.MineIdx(i)
	}
	judge := func(out gx.Outcome, site, detail string, p payload) {
		c.Eval(1)
		switch {
		case out.Fault:
			c.Outcome("fault")
			c.Violation(site+"|"+faultClass(out.Msg)+"@"+where(out.Stack), detail+": "+out.Msg+"\n"+out.Stack, p)
		case out.Panicked:
			c.Outcome("reported-error")
			c.Distinct(site)
		default:
			c.Outcome("ok")
		}
	}
	// (a) raw operations
	for _, op := range rawOps() {
		n := len(ks)
		total := 1
		for i := 0; i < op.arity; i++ {
			total *= n
		}
		for code := 0; code < total; code++ {
			if !mine() {
				continue
			}
			sel := make([]kind, op.arity)
			names := make([]string, op.arity)
			x := code
			for i := 0; i < op.arity; i++ {
				sel[i] = ks[x%n]
				names[i] = sel[i].name
				x /= n
			}
			p := payload{Stage: "raw", Op: op.name, Kinds: names}
			site := "raw:" + op.name + "(" + strings.Join(names, ",") + ")"
			out := g.do(site, site, p, func() gx.Outcome { return execRaw(imp, op, sel) })
			c.Tally("stage:raw", 1)
			judge(out, site, site, p)
		}
	}
	// (b) expression space, default configuration
	ex.Plan{Thorough: c.Thorough()}.Each(func(stage string, e *ex.E, u *ex.Use) {
		if !mine() || c.Expired() {
			return
		}
		p := payload{Stage: "expr", Expr: e.Render(), Use: u.Name, Conf: "default"}
		site := "expr:" + e.Root() + "|" + u.Name
		var r *ex.Run
		out := g.do(site, e.Render(), p, func() gx.Outcome {
			r = ex.Exec(imp, e, u, gx.Options{}, false)
			if r.WriteErr != "" && strings.Contains(r.WriteErr, "runtime error") {
				return gx.Outcome{Panicked: true, Fault: true, Msg: r.WriteErr}
			}
			return r.Outcome
		})
		c.Tally("stage:expr", 1)
		judge(out, site, "`"+e.Render()+"` in "+u.Name, p)
	})
	// (b') single-operator space with each optional configuration absent
	for _, cv := range confs() {
		cv := cv
		blank := ex.UseByName("blank")
		exprstmt := ex.UseByName("exprstmt")
		emit := func(e *ex.E) {
			for _, u := range []*ex.Use{blank, exprstmt} {
				if !mine() || c.Expired() {
					continue
				}
				p := payload{Stage: "expr", Expr: e.Render(), Use: u.Name, Conf: cv.name}
				site := "conf:" + cv.name + ":" + e.Root() + "|" + u.Name
				out := g.do(site, e.Render(), p, func() gx.Outcome { return ex.Exec(imp, e, u, cv.opt, false).Outcome })
				c.Tally("stage:conf:"+cv.name, 1)
				judge(out, site, "`"+e.Render()+"` in "+u.Name+" with configuration "+cv.name, p)
			}
		}
		atoms := ex.Reduced()
		if c.Thorough() {
			atoms = ex.Atoms
		}
		ex.Depth1(atoms, ex.BinOps, emit)
		ex.Forms(ex.Tiny(), emit)
	}
	// (c) extremes
	for _, x := range extremes() {
		if !mine() {
			continue
		}
		x := x
		p := payload{Stage: "extreme", Op: x.name}
		site := "extreme:" + x.name
		t0 := time.Now()
		out := g.do(site, site, p, func() gx.Outcome {
			return gx.Try(func() {
				w := newWorld(imp, gx.Options{})
				w.cb = w.b.Pkg.NewFunc(nil, "f", nil, nil, false).BodyStart(w.b.Pkg)
				x.run(w)
			})
		})
		c.Tally("stage:extreme", 1)
		c.Note(fmt.Sprintf("extreme %s: %v (%s)", x.name, time.Since(t0).Round(time.Millisecond), map[bool]string{true: "reported error", false: "ok"}[out.Panicked]))
		judge(out, site, site, p)
	}
	if c.Idx == 0 {
		c.Sample(map[string]any{"raw_example": "IncDec++(const-int)", "extreme_example": "1 << 9223372036854775807"})
	}
}

type extreme struct {
	name string
	run  func(w *world)
}

func extremes() []extreme {
	var out []extreme
	lit := func(k token.Token, v string) *ast.BasicLit { return &ast.BasicLit{Kind: k, Value: v} }
	for _, cnt := range []string{"63", "64", "1074", "1075", "1048576", "2147483648", "4611686018427387904", "9223372036854775807", "9223372036854775808", "18446744073709551616"} {
		cnt := cnt
		out = append(out, extreme{"shl-count-" + cnt, func(w *world) { w.cb.Val(1).Val(lit(token.INT, cnt)).BinaryOp(token.SHL).EndStmt() }})
		out = append(out, extreme{"shr-count-" + cnt, func(w *world) { w.cb.Val(1).Val(lit(token.INT, cnt)).BinaryOp(token.SHR).EndStmt() }})
		out = append(out, extreme{"var-shl-count-" + cnt, func(w *world) {
			w.cb.VarRef(nil).Val(w.env.Ref("VInt")).Val(lit(token.INT, cnt)).BinaryOp(token.SHL).Assign(1)
		}})
		out = append(out, extreme{"shl-assign-count-" + cnt, func(w *world) {
			w.cb.VarRef(w.env.Ref("VInt")).Val(lit(token.INT, cnt)).AssignOp(token.SHL_ASSIGN)
		}})
	}
	digits := strings.Repeat("9", 10000)
	out = append(out, extreme{"literal-10k-digits", func(w *world) { w.cb.VarRef(nil).Val(lit(token.INT, digits)).Val(1).BinaryOp(token.ADD).Assign(1) }})
	out = append(out, extreme{"literal-10k-digits-mul", func(w *world) {
		w.cb.VarRef(nil).Val(lit(token.INT, digits)).Val(lit(token.INT, digits)).BinaryOp(token.MUL).Assign(1)
	}})
	out = append(out, extreme{"float-exp-1e100000", func(w *world) {
		w.cb.VarRef(nil).Val(lit(token.FLOAT, "1e100000")).Val(2).BinaryOp(token.MUL).Assign(1)
	}})
	out = append(out, extreme{"float-exp-1e-100000", func(w *world) {
		w.cb.VarRef(nil).Val(lit(token.FLOAT, "1e-100000")).Val(2).BinaryOp(token.QUO).Assign(1)
	}})
	out = append(out, extreme{"float-10k-digits", func(w *world) { w.cb.VarRef(nil).Val(lit(token.FLOAT, "0."+digits)).Assign(1) }})
	out = append(out, extreme{"unary-nesting-10k", func(w *world) {
		w.cb.VarRef(nil).Val(w.env.Ref("VInt"))
		for i := 0; i < 10000; i++ {
			w.cb.UnaryOp(token.SUB)
		}
		w.cb.Assign(1).EndStmt()
		writeAll(w)
	}})
	out = append(out, extreme{"binary-nesting-10k", func(w *world) {
		w.cb.VarRef(nil).Val(w.env.Ref("VInt"))
		for i := 0; i < 10000; i++ {
			w.cb.Val(1).BinaryOp(token.ADD)
		}
		w.cb.Assign(1).EndStmt()
		writeAll(w)
	}})
	out = append(out, extreme{"const-binary-nesting-10k", func(w *world) {
		w.cb.VarRef(nil).Val(1)
		for i := 0; i < 10000; i++ {
			w.cb.Val(3).BinaryOp(token.MUL)
		}
		w.cb.Assign(1).EndStmt()
	}})
	out = append(out, extreme{"block-nesting-2k", func(w *world) {
		for i := 0; i < 2000; i++ {
			w.cb.Block()
		}
		w.cb.Val(w.env.Ref("FN")).Call(0).EndStmt()
		for i := 0; i < 2000; i++ {
			w.cb.End()
		}
		w.cb.End()
		writeAll(w)
	}})
	out = append(out, extreme{"if-else-chain-2k", func(w *world) {
		for i := 0; i < 2000; i++ {
			w.cb.If().Val(w.env.Ref("VBool")).Then().Else()
		}
		for i := 0; i < 2000; i++ {
			w.cb.End()
		}
		w.cb.End()
		writeAll(w)
	}})
	out = append(out, extreme{"closure-nesting-500", func(w *world) {
		for i := 0; i < 500; i++ {
			w.cb.NewClosure(nil, nil, false).BodyStart(w.b.Pkg)
		}
		for i := 0; i < 500; i++ {
			w.cb.End().Call(0).EndStmt()
		}
		w.cb.End()
		writeAll(w)
	}})
	out = append(out, extreme{"args-10k", func(w *world) {
		w.cb.Val(w.env.Ref("FV"))
		for i := 0; i < 10000; i++ {
			w.cb.Val(i)
		}
		w.cb.Call(10000).EndStmt()
	}})
	out = append(out, extreme{"cases-10k", func(w *world) {
		w.cb.Switch().Val(w.env.Ref("VInt")).Then()
		for i := 0; i < 10000; i++ {
			w.cb.Case().Val(i).Then().End()
		}
		w.cb.End().End()
		writeAll(w)
	}})
	out = append(out, extreme{"stmts-10k", func(w *world) {
		for i := 0; i < 10000; i++ {
			w.cb.Val(w.env.Ref("FN")).Call(0).EndStmt()
		}
		w.cb.End()
		writeAll(w)
	}})
	out = append(out, extreme{"slicelit-10k", func(w *world) {
		w.cb.VarRef(nil)
		for i := 0; i < 10000; i++ {
			w.cb.Val(i)
		}
		w.cb.SliceLit(types.NewSlice(types.Typ[types.Int]), 10000).Assign(1)
	}})
	out = append(out, extreme{"struct-10k-fields", func(w *world) {
		var fs []*types.Var
		for i := 0; i < 10000; i++ {
			fs = append(fs, types.NewField(0, w.b.Pkg.Types, fmt.Sprintf("F%d", i), types.Typ[types.Int], false))
		}
		w.cb.NewVar(types.NewStruct(fs, nil), "s")
		w.cb.VarRef(nil).VarVal("s").MemberVal("F9999", 0).Assign(1)
		w.cb.End()
		writeAll(w)
	}})
	out = append(out, extreme{"params-10k", func(w *world) {
		var ps []*types.Var
		for i := 0; i < 10000; i++ {
			ps = append(ps, w.b.Pkg.NewParam(token.NoPos, fmt.Sprintf("p%d", i), types.Typ[types.Int], false))
		}
		w.b.Pkg.NewFunc(nil, "g", types.NewTuple(ps...), nil, false).BodyStart(w.b.Pkg).End()
	}})
	out = append(out, extreme{"bigint-huge", func(w *world) {
		w.cb.VarRef(nil).Val(new(big.Int).Lsh(big.NewInt(1), 100000)).Val(1).BinaryOp(token.ADD).Assign(1)
	}})
	out = append(out, extreme{"deep-embedding-selector", func(w *world) {
		// struct chain of depth 200 through embedded pointers
		pkg := w.b.Pkg
		var prev types.Type = types.Typ[types.Int]
		for i := 0; i < 200; i++ {
			name := fmt.Sprintf("E%d", i)
			var fs []*types.Var
			if i == 0 {
				fs = []*types.Var{types.NewField(0, pkg.Types, "leaf", prev, false)}
			} else {
				fs = []*types.Var{types.NewField(0, pkg.Types, fmt.Sprintf("E%d", i-1), prev, true)}
			}
			prev = pkg.NewType(name).InitType(pkg, types.NewStruct(fs, nil))
		}
		w.cb.NewVar(prev, "v")
		w.cb.VarRef(nil).VarVal("v").MemberVal("leaf", 0).Assign(1)
	}})
	return out
}

func writeAll(w *world) {
	if w.cb.Func() != nil {
		w.cb.End()
	}
	var sink strings.Builder
	w.b.Pkg.WriteTo(&sink)
}

func replay(raw json.RawMessage) (string, bool) {
	var p payload
	if err := json.Unmarshal(raw, &p); err != nil {
		return err.Error(), false
	}
	imp := ex.Importer(nil)
	ex.NewOwn(imp)
	switch p.Stage {
	case "raw":
		for _, op := range rawOps() {
			if op.name != p.Op {
				continue
			}
			var sel []kind
			for _, n := range p.Kinds {
				for _, k := range kinds() {
					if k.name == n {
						sel = append(sel, k)
					}
				}
			}
			out := execRaw(imp, op, sel)
			return fmt.Sprintf("%s(%v): panicked=%v fault=%v %s\n%s", p.Op, p.Kinds, out.Panicked, out.Fault, out.Msg, out.Stack), out.Fault
		}
	case "expr":
		opt := gx.Options{}
		for _, cv := range confs() {
			if cv.name == p.Conf {
				opt = cv.opt
			}
		}
		var res string
		var bad, found bool
		try := func(e *ex.E, u *ex.Use) {
			if found || e.Render() != p.Expr || u.Name != p.Use {
				return
			}
			found = true
			r := ex.Exec(imp, e, u, opt, false)
			res = fmt.Sprintf("`%s` in %s (%s): panicked=%v fault=%v %s\n%s", p.Expr, p.Use, p.Conf, r.Outcome.Panicked, r.Outcome.Fault, r.Outcome.Msg, r.Outcome.Stack)
			bad = r.Outcome.Fault
		}
		for _, th := range []bool{false, true} {
			ex.Plan{Thorough: th}.Each(func(stage string, e *ex.E, u *ex.Use) { try(e, u) })
		}
		if !found {
			for _, u := range []*ex.Use{ex.UseByName("blank"), ex.UseByName("exprstmt")} {
				ex.Depth1(ex.Atoms, ex.BinOps, func(e *ex.E) { try(e, u) })
				ex.Forms(ex.Tiny(), func(e *ex.E) { try(e, u) })
			}
		}
		if found {
			return res, bad
		}
	case "extreme":
		for _, x := range extremes() {
			if x.name == p.Op {
				out := gx.Try(func() {
					w := newWorld(imp, gx.Options{})
					w.cb = w.b.Pkg.NewFunc(nil, "f", nil, nil, false).BodyStart(w.b.Pkg)
					x.run(w)
				})
				return fmt.Sprintf("%s: panicked=%v fault=%v %s\n%s", p.Op, out.Panicked, out.Fault, out.Msg, out.Stack), out.Fault
			}
		}
	}
	return "case not found", false
}

var _ = st.KExpr
