// Package c02: every well-typed Go program is accepted and reproduced faithfully.
package c02

import (
	"encoding/json"
	"fmt"
	"sort"
	"strings"
	"time"

	"verifengine/ex"
	"verifengine/fixture"
	"verifengine/gx"
	"verifengine/oracle"
	"verifengine/props/c10"
	"verifengine/st"
	"verifengine/vf"
)

func init() {
	vf.Register(&vf.Prop{
		ID: "C02", Level: "exploration",
		Rule: "three program spaces, restricted to programs whose REFERENCE rendering go/types accepts: (a) the C01 expression space (single-operator over 78 atoms in `_ = e` / `x := e`, atoms and single-operator expressions over 18 atoms in ~100 use contexts, depth 2 reduced); " +
			"(b) the C10 body space (every statement form nested to depth 2, 1.2M bodies; only those without any go/types error); (c) a statement corpus generated from templates (6 init shapes x 5 conditions x 9 header forms, 15 range forms, select, labels, closures, multi-value forms, parameter shadowing an import, conversions, precedence) converted from Go text to IR. " +
			"Oracle: the builder reports no error, the emitted package type-checks, and the typed canonical form of func f (identifiers replaced by the identity of the object they resolve to, parentheses/import names/positions dropped) equals that of the reference. non-trivial = valid reference with >=1 operator or compound statement; distinct = reference text",
		Assumptions:    []string{"go/types 1.23.5 decides validity of the reference", "the reference text is rendered from the same IR the driver builds from; the driver's canonical operation sequences are transcribed from the repository's tests"},
		ThoroughBudget: 60 * time.Minute,
		Run:            run,
		Replay:         replay,
	})
}

type payload struct {
	Space string `json:"space"`
	Key   string `json:"key"`
	Use   string `json:"use,omitempty"`
}

var imp *fixture.Importer

func setup() {
	if imp == nil {
		imp = ex.Importer(nil)
		ex.NewOwn(imp)
	}
}

type result struct {
	refOK     bool
	accepted  bool
	msg       string
	emittedOK bool
	emErr     string
	same      bool
	ref, em   string
	text      string
}

func compare(refSrc string, b *gx.Build, out gx.Outcome) result {
	var r result
	ref := oracle.CheckSrc(refSrc, imp, gx.PkgPath)
	r.refOK = ref.OK()
	if !r.refOK {
		return r
	}
	r.accepted = b.Accepted(out)
	r.msg = out.Msg + strings.Join(b.Errs, "; ")
	if !r.accepted {
		return r
	}
	texts, err := oracle.WriteAll(b.Pkg)
	for _, t := range texts {
		r.text += t
	}
	if err != nil {
		r.emErr = err.Error()
		return r
	}
	em := oracle.Check(texts, imp, gx.PkgPath)
	r.emittedOK = em.OK()
	if !r.emittedOK {
		r.emErr = em.ErrString()
		return r
	}
	r.ref, _ = oracle.CanonFunc(ref, "f")
	r.em, _ = oracle.CanonFunc(em, "f")
	r.same = r.ref == r.em
	return r
}

func firstDiff(a, b string) string {
	i := 0
	for i < len(a) && i < len(b) && a[i] == b[i] {
		i++
	}
	lo := i - 60
	if lo < 0 {
		lo = 0
	}
	cut := func(s string) string {
		hi := i + 80
		if hi > len(s) {
			hi = len(s)
		}
		if lo > len(s) {
			return ""
		}
		return s[lo:hi]
	}
	return "reference …" + cut(a) + "…\nemitted   …" + cut(b) + "…"
}

func normErr(msg string) string {
	// builder error messages: strip positions and quoted operand text, keep the shape
	m := msg
	if i := strings.Index(m, "\n"); i > 0 {
		m = m[:i]
	}
	m = strings.TrimPrefix(m, "-: ")
	var ws []string
	for _, w := range strings.Fields(m) {
		if strings.ContainsAny(w, "0123456789\"'`") && !strings.HasPrefix(w, "int") && !strings.HasPrefix(w, "uint") && !strings.HasPrefix(w, "float") && !strings.HasPrefix(w, "complex") {
			w = "#"
		}
		if strings.HasPrefix(w, "env.") && len(w) > 4 && w[4] >= 'A' && w[4] <= 'Z' && strings.ContainsAny(w[4:], "(") {
			w = "#"
		}
		ws = append(ws, w)
	}
	if len(ws) > 12 {
		ws = ws[:12]
	}
	return strings.Join(ws, " ")
}

func report(c *vf.Ctx, site string, r result, refSrc string, p payload) {
	switch {
	case !r.accepted:
		c.Outcome("valid-rejected")
		c.Violation(site+"|valid-rejected:"+normErr(r.msg), fmt.Sprintf("valid Go rejected by the builder: %s\nreference:\n%s", r.msg, refSrc), p)
	case !r.emittedOK:
		c.Outcome("emitted-ill-typed")
		c.Violation(site+"|emitted-ill-typed:"+oracle.NormMsg(strings.SplitN(r.emErr, ";", 2)[0]), fmt.Sprintf("valid Go accepted but the emitted package is rejected: %s\nreference:\n%s\nemitted:\n%s", r.emErr, refSrc, r.text), p)
	case !r.same:
		c.Outcome("not-faithful")
		c.Violation(site+"|not-faithful", fmt.Sprintf("emitted program differs from the reference program\n%s\nreference:\n%s\nemitted:\n%s", firstDiff(r.ref, r.em), refSrc, r.text), p)
	default:
		c.Outcome("faithful")
	}
}

func runFunc(f *st.Func) (gx.Outcome, *gx.Build) {
	b := gx.New(imp, gx.Options{})
	out := gx.Try(func() {
		xb := ex.NewBuilder(b)
		sb := st.NewBuilder(xb)
		sb.Func(f)
	})
	return out, b
}

func refOfFunc(f *st.Func) string {
	return "package p\n\nimport (\n\t\"env\"\n\t\"unsafe\"\n)\n\nvar _ unsafe.Pointer\nvar _ = env.VInt\n\n" + f.Render()
}

func shapeOfFunc(f *st.Func) string {
	var b strings.Builder
	var walk func(ss []*st.S)
	walk = func(ss []*st.S) {
		b.WriteString("[")
		for i, s := range ss {
			if i > 0 {
				b.WriteString(";")
			}
			b.WriteString(s.K)
			if s.Init != nil {
				b.WriteString("+init:" + s.Init.K)
			}
			for _, bb := range s.B {
				walk(bb)
			}
			for _, cs := range s.Cases {
				walk(cs.Body)
			}
		}
		b.WriteString("]")
	}
	walk(f.Body)
	return b.String()
}

func run(c *vf.Ctx) {
	setup()
	var idx int64
	mine := func() (int64, bool) {
		i := idx
		idx++
		return i, c.MineIdx(i)
	}
	// (a) expressions
	ex.Plan{Thorough: c.Thorough()}.Each(func(stage string, e *ex.E, u *ex.Use) {
		i, ok := mine()
		if !ok || c.Expired() {
			return
		}
		refSrc := ex.RefSource(e, u)
		// cheap pre-filter: only valid references matter
		ref := oracle.CheckSrc(refSrc, imp, gx.PkgPath)
		c.Eval(1)
		if !ref.OK() {
			c.Outcome("invalid-reference")
			return
		}
		r0 := ex.Exec(imp, e, u, gx.Options{}, false)
		r := compare(refSrc, r0.Build, r0.Outcome)
		c.Tally("valid:expr:"+stage, 1)
		if e.Size() > 1 {
			c.Distinct(refSrc)
		}
		report(c, "expr:"+e.Root()+"|"+u.Name, r, refSrc, payload{"expr", e.Render(), u.Name})
		if r.same && i%30011 == 0 {
			c.Sample(map[string]string{"space": "expr", "expr": e.Render(), "use": u.Name})
		}
	})
	// (b) bodies
	c10.Bodies(c.Thorough(), func(family string, body []*st.S) {
		if !c.Thorough() && family == "termination-w1d2" && len(body) == 1 {
			// quick bound: single depth-2 statements only for the constructs whose emission
			// reorders or restructures statements (if/else flattening, labels, switch)
			switch body[0].K {
			case st.KIf, st.KSwitch, st.KLabeled:
			default:
				return
			}
		}
		i, ok := mine()
		if !ok || c.Expired() {
			return
		}
		f := &st.Func{Name: "f", Results: []string{"int"}, Body: body}
		refSrc := refOfFunc(f)
		ref := oracle.CheckSrc(refSrc, imp, gx.PkgPath)
		c.Eval(1)
		if !ref.OK() {
			c.Outcome("invalid-reference")
			return
		}
		out, b := runFunc(f)
		r := compare(refSrc, b, out)
		c.Tally("valid:body", 1)
		c.Distinct(refSrc)
		report(c, "body:"+shapeOfFunc(f), r, refSrc, payload{Space: "body", Key: refSrc})
		if r.same && i%30011 == 0 {
			c.Sample(map[string]string{"space": "body", "reference": refSrc})
		}
	})
	// (c) corpus
	cp := corpus()
	var keys []string
	for k := range cp {
		keys = append(keys, k)
	}
	sort.Strings(keys)
	for _, k := range keys {
		_, ok := mine()
		if !ok {
			continue
		}
		src := strings.Replace(cp[k], "import \"env\"", "import (\n\t\"env\"\n\t\"unsafe\"\n)\n\nvar _ unsafe.Pointer", 1)
		fs, err := st.ParseFuncs(src)
		c.Eval(1)
		if err != nil || len(fs) != 1 {
			c.Tally("corpus_not_in_ir", 1)
			c.Note(fmt.Sprintf("corpus %s not convertible to IR: %v", k, err))
			continue
		}
		refSrc := refOfFunc(fs[0])
		ref := oracle.CheckSrc(refSrc, imp, gx.PkgPath)
		if !ref.OK() {
			c.Tally("corpus_invalid", 1)
			c.Note(fmt.Sprintf("corpus %s: reference rejected by go/types: %s", k, ref.ErrString()))
			continue
		}
		out, b := runFunc(fs[0])
		r := compare(refSrc, b, out)
		c.Tally("valid:corpus", 1)
		c.Distinct(refSrc)
		kind := k
		if j := strings.Index(k, "/"); j > 0 {
			kind = k[:j]
		}
		report(c, "corpus:"+kind+"|"+k, r, refSrc, payload{Space: "corpus", Key: k})
	}
}

func replay(raw json.RawMessage) (string, bool) {
	var p payload
	if err := json.Unmarshal(raw, &p); err != nil {
		return err.Error(), false
	}
	setup()
	describe := func(r result, refSrc string) (string, bool) {
		switch {
		case !r.refOK:
			return "reference is not valid Go", false
		case !r.accepted:
			return "valid Go rejected: " + r.msg + "\n" + refSrc, true
		case !r.emittedOK:
			return "emitted package rejected: " + r.emErr + "\n" + r.text, true
		case !r.same:
			return "not faithful:\n" + firstDiff(r.ref, r.em) + "\n" + r.text, true
		}
		return "accepted and faithful\n" + r.text, false
	}
	switch p.Space {
	case "expr":
		var res string
		var bad, found bool
		for _, th := range []bool{false, true} {
			ex.Plan{Thorough: th}.Each(func(stage string, e *ex.E, u *ex.Use) {
				if found || u.Name != p.Use || e.Render() != p.Key {
					return
				}
				found = true
				refSrc := ex.RefSource(e, u)
				r0 := ex.Exec(imp, e, u, gx.Options{}, false)
				res, bad = describe(compare(refSrc, r0.Build, r0.Outcome), refSrc)
			})
			if found {
				return res, bad
			}
		}
	case "body":
		var res string
		var bad, found bool
		for _, th := range []bool{false, true} {
			c10.Bodies(th, func(family string, body []*st.S) {
				if found {
					return
				}
				f := &st.Func{Name: "f", Results: []string{"int"}, Body: body}
				if refOfFunc(f) != p.Key {
					return
				}
				found = true
				out, b := runFunc(f)
				res, bad = describe(compare(p.Key, b, out), p.Key)
			})
			if found {
				return res, bad
			}
		}
	case "corpus":
		src := strings.Replace(corpus()[p.Key], "import \"env\"", "import (\n\t\"env\"\n\t\"unsafe\"\n)\n\nvar _ unsafe.Pointer", 1)
		fs, err := st.ParseFuncs(src)
		if err != nil || len(fs) != 1 {
			return "corpus entry not convertible", false
		}
		refSrc := refOfFunc(fs[0])
		out, b := runFunc(fs[0])
		return describe(compare(refSrc, b, out), refSrc)
	}
	return "case not found", false
}
