package c02

import (
	"fmt"
	"strings"
)

// The statement corpus: valid Go function bodies over the env package and local variables,
// generated from templates (header shapes x body shapes) plus hand-written cases that target
// statement order, initialiser commit order, else-if flattening, labels, multi-value forms.

func corpus() map[string]string {
	m := map[string]string{}
	add := func(k, params, results, body string) {
		m[k] = fmt.Sprintf("package p\n\nimport \"env\"\n\nvar _ = env.VInt\n\nfunc f(%s) %s {\n%s\n}\n", params, results, body)
	}
	simple := []string{
		"env.FN()",
		"x := env.F1(1)\n_ = x",
		"var y string = env.FS(\"a\")\n_ = y",
		"env.VInt = env.F1(env.VInt) + 1",
		"env.VInt++",
		"env.VSl[0], env.VMap[\"k\"] = 1, 2",
		"a, b := env.FR2()\n_, _ = a, b",
		"v, ok := env.VMap[\"k\"]\n_, _ = v, ok",
		"t, ok := env.VAny.(int)\n_, _ = t, ok",
		"r, ok := <-env.VCh\n_, _ = r, ok",
		"env.VCh <- 1",
		"env.VS.X, env.VPS.Y = 3, \"s\"",
		"*env.VPtr = 4",
		"env.VInt += 2\nenv.VInt <<= 1\nenv.VStr += \"x\"",
		"defer env.FN()\ngo env.F1(2)",
		"const c = 10\nvar z [10]int\n_, _ = z, c",
		"var p, q = 1, \"s\"\n_, _ = p, q",
		"s := []int{1, 2, 3}\nm := map[string]int{\"a\": 1}\nst := env.S{1, \"y\", nil}\n_, _, _ = s, m, st",
		"u := env.VSl[1:2]\nw := env.VStr[:1]\n_, _ = u, w",
		"n := len(env.VSl) + cap(env.VSl)\nenv.VSl = append(env.VSl, n, 2)\n_ = copy(env.VSl, env.VSl)",
		"pp := new(int)\nmm := make(map[string]int, 4)\ncc := make(chan int)\n_, _, _ = pp, mm, cc",
		"f1 := env.VFn\n_ = f1(3)",
		"_ = env.G(1)\n_ = env.G(\"s\")",
		"var e error\nif e != nil {\n\tpanic(e)\n}",
		"i8 := int8(env.VInt)\nf := float64(i8) * 1.5\n_ = f",
		"_ = env.VM.Meth()\n_ = env.VI.Meth()\n_ = env.VPS.PM()\n_ = env.VS.VM()",
	}
	for i, s := range simple {
		add(fmt.Sprintf("simple/%d", i), "", "", s)
	}
	inits := []string{"", "x := env.F0(); ", "env.FN(); ", "x, err := env.FR2(); ", "env.VInt++; ", "env.VInt = 1; "}
	conds := []string{"env.VBool", "env.VInt < 3", "!env.VBool && env.VInt == 1", "(env.S{1, \"y\", nil}).X > 0", "len([]int{1}) > 0"}
	use := func(in string) string {
		switch {
		case strings.HasPrefix(in, "x, err"):
			return "_, _ = x, err"
		case strings.HasPrefix(in, "x :="):
			return "_ = x"
		}
		return "env.FN()"
	}
	for i, in := range inits {
		for j, c := range conds {
			k := fmt.Sprintf("%d-%d", i, j)
			add("if/"+k, "", "", "if "+in+c+" {\n"+use(in)+"\n}")
			add("if-else/"+k, "", "", "if "+in+c+" {\n"+use(in)+"\n} else {\nenv.FN()\n}")
			add("if-elseif/"+k, "", "", "if "+in+c+" {\n"+use(in)+"\n} else if "+c+" {\nenv.VInt++\n} else if env.VBool {\nenv.VInt--\n} else {\n"+use(in)+"\n}")
			add("if-nested-else/"+k, "", "", "if "+c+" {\nenv.FN()\n} else {\nif "+in+c+" {\n"+use(in)+"\n}\nenv.FN()\n}")
			add("switch-tag/"+k, "", "", "switch "+in+"env.VInt {\ncase 1, 2:\n"+use(in)+"\ncase 3:\nenv.FN()\nfallthrough\ndefault:\nenv.VInt++\n}")
			add("switch-notag/"+k, "", "", "switch "+in+"{\ncase "+c+":\n"+use(in)+"\ndefault:\n}")
			if in != "" {
				add("for3/"+k, "", "", "for "+in+c+"; env.VInt++ {\n"+use(in)+"\nif env.VBool {\nbreak\n}\ncontinue\n}")
			} else {
				add("for/"+k, "", "", "for "+c+" {\nenv.FN()\n}")
			}
			add("typeswitch/"+k, "", "", "switch "+in+"v := env.VAny.(type) {\ncase int:\n_ = v + 1\ncase string, env.M:\n_ = v\ncase nil:\n"+use(in)+"\ndefault:\n_ = v\n}")
		}
	}
	ranges := []string{
		"for i := range env.VSl {\n_ = i\n}", "for i, v := range env.VSl {\n_, _ = i, v\n}", "for _, v := range env.VArr {\n_ = v\n}", "for k, v := range env.VMap {\n_, _ = k, v\n}",
		"for v := range env.VCh {\n_ = v\n}", "for i, r := range env.VStr {\n_, _ = i, r\n}", "for range env.VSl {\n}", "for i := range 10 {\n_ = i\n}", "for range 3 {\nenv.FN()\n}",
		"var i int\nvar s string\nfor i, s = range env.VSlStr {\n}\n_, _ = i, s", "for env.VSl[0] = range env.VSl {\n}", "for i, v := range env.VPArr {\n_, _ = i, v\n}",
		"for i := range []int{1, 2} {\n_ = i\n}", "for k := range env.VMpn {\n_ = k\n}", "for i := range env.VSln {\n_ = i\n}",
	}
	for i, r := range ranges {
		add(fmt.Sprintf("range/%d", i), "", "", r)
	}
	add("select", "", "", "select {\ncase v := <-env.VCh:\n_ = v\ncase v, ok := <-env.VRCh:\n_, _ = v, ok\ncase env.VInt = <-env.VCh:\ncase <-env.VCh:\nenv.FN()\ncase env.VSCh <- 1:\ndefault:\nenv.VInt++\n}")
	add("select-empty", "", "", "select {\n}")
	add("labels", "", "", "L:\nfor {\nfor {\nif env.VBool {\nbreak L\n}\ncontinue L\n}\n}\nM:\nswitch {\ncase env.VBool:\nbreak M\n}\ngoto N\nN:\nenv.FN()")
	add("labels-2", "", "int", "i := 0\nLoop:\nif i < 3 {\ni++\ngoto Loop\n}\nreturn i")
	add("closure", "", "", "func() {\nenv.FN()\n}()\nfunc() int {\nreturn env.F0()\n}()")
	add("block-shadow", "", "", "x := 1\n{\nx := \"s\"\n_ = x\n}\n_ = x")
	add("return-tuple", "", "(int, error)", "return env.FR2()")
	add("return-two", "", "(int, error)", "if env.VBool {\nreturn 1, nil\n}\nreturn env.F0(), env.VErr")
	add("params", "a int, b string, c []int", "string", "c = append(c, a)\nreturn env.F2(a+len(c), b)")
	add("param-shadow-env", "env int", "int", "return env + 1")
	add("order", "", "", "a := 1\nb := a + 1\nvar c = b * 2\nconst d = 3\ne, f := c+d, \"s\"\na, b = b, a\n_, _, _ = e, f, a")
	add("multi-assign-call", "", "", "var x int\nvar err error\nx, err = env.FR2()\n_, _ = x, err")
	add("nested-deep", "", "", "for i := 0; i < 2; i++ {\nswitch {\ncase i == 0:\nif env.VBool {\nfor range env.VSl {\nselect {\ndefault:\nenv.FN()\n}\n}\n} else {\nenv.VInt++\n}\ndefault:\n{\nenv.FN()\n}\n}\n}")
	add("complit-header", "", "", "if v := (env.S{1, \"a\", nil}); v.X > 0 {\nenv.FN()\n}\nswitch (env.S{1, \"a\", nil}).X {\ncase 1:\n}\nfor _, w := range (env.Sl{1, 2}) {\n_ = w\n}")
	add("conversions", "", "", "a := (*int)(nil)\nb := (func())(nil)\nc := (<-chan int)(env.VCh)\nd := []byte(\"s\")\ne := string(d)\n_, _, _, _, _ = a, b, c, d, e")
	add("ops-precedence", "", "", "a, b, c := 1, 2, 3\nx := (a + b) * c\ny := a + b*c\nz := -(a + b)\nw := a << (b + 1)\nu := (a < b) == (b < c)\n_, _, _, _, _ = x, y, z, w, u")
	add("unsafe", "", "", "n := unsafe.Sizeof(env.VS)\np := unsafe.Pointer(env.VPtr)\n_, _ = n, p")
	return m
}
