// Package c07: generic inference and instantiation agree with go/types.
package c07

import (
	"encoding/json"
	"fmt"
	"go/ast"
	"go/token"
	"go/types"
	"strings"
	"time"

	"github.com/goplus/gogen"

	"verifengine/fixture"
	"verifengine/gx"
	"verifengine/oracle"
	"verifengine/vf"
)

func init() {
	vf.Register(&vf.Prop{
		ID: "C07", Level: "exploration",
		Rule: "generic signatures generated as source of a fixture package: one type parameter with constraint in {any, comparable, ~int|~string, int|string, Num(~int|~float64), Str(~int + String())} and one or two parameters whose types use T as T, []T, *T, map[string]T, map[T]int, func(T) T, func() T, Box[T], chan T, [2]T, ...T; plus hand-written 2- and 3-type-parameter signatures (core-type constraints ~[]E, ~map[K]V, ~*E, ~func(A) B, pointer-method constraint, un-inferable and reordered parameters). " +
			"For every signature: every argument list of the signature's arity (and arity±1) over {1, 1.5, \"s\", 'a', true, nil, 15 typed variables incl. named, generic-instance and function types, two generic function values}, spread calls for variadic signatures; crossed with every explicit type-argument prefix of length 0..n+1 over a type alphabet; in five modes: call, assignment to a typed function variable, reference without call, XGox_ call with leading type arguments, and generic type instantiation (CodeBuilder and Package.Instantiate). " +
			"Oracle: go/types on the reference text decides accept/reject; on accept the type arguments go/types records (Info.Instances) for the callee in the EMITTED text must equal those of the reference text, the emitted text must type-check, and the result type / instantiated signature the builder reports must equal go/types'. " +
			"non-trivial = uses where at least one type argument is inferred (not explicit) or a constraint/inference failure is expected; distinct = signature x explicit list x argument list x mode",
		Assumptions:    []string{"go/types 1.23.5 is the reference inference", "the fixture importer serves the same packages to builder and oracle"},
		ThoroughBudget: 60 * time.Minute,
		Run:            run,
		Replay:         replay,
	})
}

// ---------------------------------------------------------------- signatures

type sig struct {
	Name    string   `json:"name"`
	TParams string   `json:"tparams"` // "T any" / "K comparable, V any"
	NTP     int      `json:"ntp"`
	Params  []string `json:"params"` // parameter types; last may start with "..."
	Result  string   `json:"result"`
}

func (s sig) variadic() bool {
	return len(s.Params) > 0 && strings.HasPrefix(s.Params[len(s.Params)-1], "...")
}

func (s sig) decl(name string) string {
	var ps []string
	for i, p := range s.Params {
		ps = append(ps, fmt.Sprintf("a%d %s", i, p))
	}
	res := s.Result
	if res != "" {
		res = " " + res
	}
	return fmt.Sprintf("func %s[%s](%s)%s { panic(0) }\n", name, s.TParams, strings.Join(ps, ", "), res)
}

const helperSrc = `package gen

const XGoPackage = true

type MyInt int

func (MyInt) String() string { return "" }

type MySlice []int

type MyStr string

type Box[T any] struct{ V T }

type Pair[K comparable, V any] struct {
	K K
	V V
}

type NumBox[T Num] struct{ V T }

type Num interface{ ~int | ~float64 }

type Str interface {
	~int
	String() string
}

type PS struct{}

func (*PS) String() string { return "" }

func Id[T any](a T) T { return a }

func Mk[T any]() T { panic(0) }

`

func (s sig) source() string {
	return helperSrc + s.decl("F") + s.decl("XGox_X")
}

var constraints = []string{"any", "comparable", "~int | ~string", "int | string", "Num", "Str"}
var shapes = []string{"T", "[]T", "*T", "map[string]T", "map[T]int", "func(T) T", "func() T", "Box[T]", "chan T", "[2]T", "...T"}
var coreShapes = []int{0, 1, 2, 3, 5, 10}

func signatures(thorough bool, yield func(s sig)) {
	for ci, c := range constraints {
		for si, s := range shapes {
			if c == "any" && s == "map[T]int" {
				continue // not a valid declaration
			}
			yield(sig{fmt.Sprintf("c%d-%s", ci, s), "T " + c, 1, []string{s}, "T"})
			_ = si
		}
		first := coreShapes
		if thorough {
			first = nil
			for i := range shapes {
				first = append(first, i)
			}
		}
		for _, i := range first {
			if shapes[i] == "...T" {
				continue
			}
			second := coreShapes
			if thorough {
				second = first
			}
			for _, j := range second {
				if c == "any" && (shapes[i] == "map[T]int" || shapes[j] == "map[T]int") {
					continue
				}
				yield(sig{fmt.Sprintf("c%d-%s,%s", ci, shapes[i], shapes[j]), "T " + c, 1, []string{shapes[i], shapes[j]}, "T"})
			}
		}
	}
	multi := []sig{
		{"keys", "K comparable, V any", 2, []string{"map[K]V"}, "K"},
		{"elem", "S ~[]E, E any", 2, []string{"S"}, "E"},
		{"append", "S ~[]E, E any", 2, []string{"S", "E"}, "S"},
		{"appendv", "S ~[]E, E any", 2, []string{"S", "...E"}, "S"},
		{"apply", "A, B any", 2, []string{"A", "func(A) B"}, "B"},
		{"apply2", "A, B any", 2, []string{"func(A) B", "A"}, "B"},
		{"conv", "A, B any", 2, []string{"A"}, "B"},
		{"convr", "B, A any", 2, []string{"A"}, "B"},
		{"intflt", "T ~int, U ~float64", 2, []string{"T", "U"}, "U"},
		{"anycmp", "A any, B comparable", 2, []string{"A", "B"}, "A"},
		{"deref", "P ~*E, E any", 2, []string{"P"}, "E"},
		{"numsl", "E Num, S ~[]E", 2, []string{"S"}, "E"},
		{"ptrm", "T any, PT interface{ *T; String() string }", 2, []string{"T"}, "PT"},
		{"ptrm2", "T any, PT interface{ *T; String() string }", 2, []string{"PT"}, "T"},
		{"same2", "A, B any", 2, []string{"A", "A", "B"}, "B"},
		{"boxes", "A, B any", 2, []string{"Box[A]", "Box[B]"}, "Pair[int, B]"},
		{"mapm", "M ~map[K]V, K comparable, V any", 3, []string{"M"}, "V"},
		{"chain", "A, B, C any", 3, []string{"A", "func(A) B", "func(B) C"}, "C"},
		{"three", "A, B, C any", 3, []string{"A", "B", "C"}, "A"},
		{"lead3", "C, A, B any", 3, []string{"A", "B"}, "C"},
		{"fnc", "F ~func(A) B, A, B any", 3, []string{"F", "A"}, "B"},
	}
	for _, m := range multi {
		yield(m)
	}
}

// ---------------------------------------------------------------- arguments

type world struct {
	b   *gx.Build
	cb  *gogen.CodeBuilder
	loc map[string]types.Object
	gen gogen.PkgRef
}

type arg struct {
	text string
	push func(w *world)
}

type tyArg struct {
	text string
	typ  func(w *world) types.Type
}

var locals = []struct{ name, typ string }{
	{"x", "int"}, {"y", "string"}, {"fl", "float64"}, {"z", "[]int"}, {"m", "map[string]int"}, {"mk", "map[int]string"},
	{"p", "*int"}, {"f", "func(int) int"}, {"fs", "func(string) string"}, {"f0", "func() int"}, {"mi", "gen.MyInt"},
	{"sl", "gen.MySlice"}, {"bx", "gen.Box[int]"}, {"ch", "chan int"}, {"e", "any"}, {"ps", "gen.PS"}, {"pps", "*gen.PS"},
}

func parseType(w *world, text string) types.Type {
	T := types.Typ
	pkg := w.b.Pkg
	switch text {
	case "int":
		return T[types.Int]
	case "string":
		return T[types.String]
	case "float64":
		return T[types.Float64]
	case "bool":
		return T[types.Bool]
	case "any":
		return types.Universe.Lookup("any").Type()
	case "[]int":
		return types.NewSlice(T[types.Int])
	case "[]string":
		return types.NewSlice(T[types.String])
	case "map[string]int":
		return types.NewMap(T[types.String], T[types.Int])
	case "map[int]string":
		return types.NewMap(T[types.Int], T[types.String])
	case "*int":
		return types.NewPointer(T[types.Int])
	case "chan int":
		return types.NewChan(types.SendRecv, T[types.Int])
	case "func()":
		return types.NewSignatureType(nil, nil, nil, nil, nil, false)
	case "func(int) int":
		v := types.NewTuple(types.NewParam(0, pkg.Types, "", T[types.Int]))
		return types.NewSignatureType(nil, nil, nil, v, v, false)
	case "func(string) string":
		v := types.NewTuple(types.NewParam(0, pkg.Types, "", T[types.String]))
		return types.NewSignatureType(nil, nil, nil, v, v, false)
	case "func() int":
		v := types.NewTuple(types.NewParam(0, pkg.Types, "", T[types.Int]))
		return types.NewSignatureType(nil, nil, nil, nil, v, false)
	case "gen.MyInt", "gen.MySlice", "gen.PS", "gen.MyStr":
		return w.gen.Ref(text[4:]).Type()
	case "*gen.PS":
		return types.NewPointer(w.gen.Ref("PS").Type())
	case "gen.Box[int]":
		t, err := types.Instantiate(nil, w.gen.Ref("Box").Type(), []types.Type{T[types.Int]}, true)
		if err != nil {
			panic(err)
		}
		return t
	}
	panic("c07: unknown type text " + text)
}

func atoms() []arg {
	lit := func(k token.Token, v string) arg {
		return arg{v, func(w *world) { w.cb.Val(&ast.BasicLit{Kind: k, Value: v}, gx.SrcNode(v)) }}
	}
	out := []arg{
		lit(token.INT, "1"), lit(token.FLOAT, "1.5"), lit(token.STRING, `"s"`), lit(token.CHAR, "'a'"),
		{"true", func(w *world) { w.cb.Val(types.Universe.Lookup("true"), gx.SrcNode("true")) }},
		{"nil", func(w *world) { w.cb.Val(nil, gx.SrcNode("nil")) }},
	}
	for _, l := range locals {
		n := l.name
		out = append(out, arg{n, func(w *world) { w.cb.Val(w.loc[n], gx.SrcNode(n)) }})
	}
	out = append(out,
		arg{"gen.Id", func(w *world) { w.cb.Val(w.gen.Ref("Id"), gx.SrcNode("gen.Id")) }},
		arg{"gen.Mk", func(w *world) { w.cb.Val(w.gen.Ref("Mk"), gx.SrcNode("gen.Mk")) }},
	)
	return out
}

var smallAtoms = []string{"1", "1.5", `"s"`, "nil", "x", "y", "z", "f", "mi", "gen.Id"}

type arglist struct {
	text  string
	items []arg
	ell   bool
}

func arglists(s sig, thorough bool) []arglist {
	as := atoms()
	n := len(s.Params)
	if n >= 3 {
		var sm []arg
		for _, a := range as {
			for _, t := range smallAtoms {
				if a.text == t {
					sm = append(sm, a)
				}
			}
		}
		as = sm
	}
	var out []arglist
	var rec func(k int, cur []arg)
	rec = func(k int, cur []arg) {
		if len(cur) == k {
			var ts []string
			for _, a := range cur {
				ts = append(ts, a.text)
			}
			out = append(out, arglist{text: strings.Join(ts, ", "), items: append([]arg{}, cur...)})
			return
		}
		for _, a := range as {
			rec(k, append(cur, a))
		}
	}
	lens := map[int]bool{n: true}
	if s.variadic() {
		lens[n-1] = true
		if n+1 <= 3 {
			lens[n+1] = true
		}
	} else if n == 1 {
		lens[0], lens[2] = true, thorough
	}
	for k := 0; k <= 3; k++ {
		if lens[k] {
			rec(k, nil)
		}
	}
	if s.variadic() {
		// spread calls
		var z, sl, y arg
		for _, a := range as {
			switch a.text {
			case "z":
				z = a
			case "sl":
				sl = a
			case "y":
				y = a
			}
		}
		for _, sp := range []arg{z, sl, y} {
			if sp.push == nil {
				continue
			}
			if n == 1 {
				out = append(out, arglist{text: sp.text + "...", items: []arg{sp}, ell: true})
			} else if n == 2 {
				for _, a := range as {
					out = append(out, arglist{text: a.text + ", " + sp.text + "...", items: []arg{a, sp}, ell: true})
				}
			}
		}
	}
	return out
}

var typeAlphabet = []string{"int", "string", "[]int", "gen.MyInt", "float64", "func(int) int", "map[string]int", "*int", "*gen.PS", "gen.PS"}

func explicitLists(s sig, thorough bool) [][]string {
	alpha := typeAlphabet
	if !thorough {
		if s.NTP == 1 {
			alpha = typeAlphabet[:5]
		} else {
			alpha = []string{"int", "string", "[]int", "gen.PS"}
		}
	} else if s.NTP >= 2 {
		alpha = []string{"int", "string", "[]int", "gen.MyInt", "float64", "func(int) int", "gen.PS", "*gen.PS"}
	}
	if s.NTP == 3 {
		alpha = []string{"int", "string", "func(int) int"}
		if thorough {
			alpha = append(alpha, "map[string]int", "[]int")
		}
	}
	out := [][]string{nil}
	var rec func(k int, cur []string)
	rec = func(k int, cur []string) {
		if len(cur) == k {
			out = append(out, append([]string{}, cur...))
			return
		}
		for _, a := range alpha {
			rec(k, append(cur, a))
		}
	}
	for k := 1; k <= s.NTP; k++ {
		rec(k, nil)
	}
	// one over-long list
	over := make([]string, s.NTP+1)
	for i := range over {
		over[i] = "int"
	}
	out = append(out, over)
	return out
}

// target function types for mode "assign": the signature with type parameters replaced
func targets(s sig) []string {
	if s.NTP != 1 {
		return []string{"func(int) int", "func(string) string", "func([]int) int", "func(map[string]int) string", "func(int, func(int) int) int", "func()"}
	}
	var out []string
	for _, t := range []string{"int", "string", "gen.MyInt", "[]int"} {
		var ps []string
		for _, p := range s.Params {
			ps = append(ps, subst(p, t))
		}
		out = append(out, "func("+strings.Join(ps, ", ")+") "+t)
	}
	out = append(out, "func()", "func(int) string")
	return out
}

func subst(p, t string) string {
	var b strings.Builder
	for i := 0; i < len(p); i++ {
		if p[i] == 'T' && (i+1 == len(p) || !isIdent(p[i+1])) && (i == 0 || !isIdent(p[i-1])) {
			b.WriteString(t)
		} else {
			b.WriteByte(p[i])
		}
	}
	r := b.String()
	return strings.ReplaceAll(r, "Box[", "gen.Box[")
}

func isIdent(c byte) bool {
	return c == '_' || c >= 'a' && c <= 'z' || c >= 'A' && c <= 'Z' || c >= '0' && c <= '9'
}

// ---------------------------------------------------------------- uses

type use struct {
	Mode     string   `json:"mode"` // call | assign | ref | xgox
	Explicit []string `json:"explicit"`
	Args     string   `json:"args"`
	Target   string   `json:"target,omitempty"`
	al       arglist
}

func (u use) key() string {
	return u.Mode + "[" + strings.Join(u.Explicit, ",") + "](" + u.Args + ")" + u.Target
}

func (u use) refText() string {
	idx := ""
	if len(u.Explicit) > 0 {
		idx = "[" + strings.Join(u.Explicit, ", ") + "]"
	}
	switch u.Mode {
	case "call":
		return "_ = gen.F" + idx + "(" + u.Args + ")"
	case "xgox":
		return "_ = gen.XGox_X" + idx + "(" + u.Args + ")"
	case "assign":
		return "var v " + u.Target + " = gen.F" + idx + "; _ = v"
	case "ref":
		return "_ = gen.F" + idx
	}
	panic("mode")
}

func uses(s sig, thorough bool) []use {
	var out []use
	als := arglists(s, thorough)
	exs := explicitLists(s, thorough)
	for _, ex := range exs {
		for _, al := range als {
			out = append(out, use{Mode: "call", Explicit: ex, Args: al.text, al: al})
		}
		if len(ex) >= 1 && len(ex) <= s.NTP {
			for _, al := range als {
				if len(al.items) > 2 && !thorough {
					continue
				}
				out = append(out, use{Mode: "xgox", Explicit: ex, Args: al.text, al: al})
			}
		}
		for _, t := range targets(s) {
			out = append(out, use{Mode: "assign", Explicit: ex, Target: t})
		}
		out = append(out, use{Mode: "ref", Explicit: ex})
	}
	return out
}

func prelude() string {
	var b strings.Builder
	b.WriteString("package p\n\nimport \"gen\"\n\nvar (\n")
	for _, l := range locals {
		fmt.Fprintf(&b, "\t%s %s\n", l.name, l.typ)
	}
	b.WriteString(")\n\n")
	return b.String()
}

type refAns struct {
	ok     bool
	err    string
	targs  string // canonical type arguments recorded for F
	result string // canonical type of the call / instantiated signature
}

func instOf(c *oracle.Checked, fn string, names ...string) (targs string, inst string, found bool) {
	for _, file := range c.Files {
		for _, d := range file.Decls {
			fd, ok := d.(*ast.FuncDecl)
			if !ok || fd.Name.Name != fn {
				continue
			}
			ast.Inspect(fd.Body, func(n ast.Node) bool {
				id, ok := n.(*ast.Ident)
				if !ok || found {
					return true
				}
				for _, nm := range names {
					if id.Name == nm {
						if in, ok := c.Info.Instances[id]; ok {
							var ts []string
							for i := 0; i < in.TypeArgs.Len(); i++ {
								ts = append(ts, oracle.Canon(in.TypeArgs.At(i)))
							}
							targs, inst, found = strings.Join(ts, ", "), oracle.Canon(in.Type), true
						}
					}
				}
				return true
			})
		}
	}
	return
}

func valueType(c *oracle.Checked, fn string) string {
	// type of the right-hand side of the first assignment `_ = X` in fn
	res := ""
	for _, file := range c.Files {
		for _, d := range file.Decls {
			fd, ok := d.(*ast.FuncDecl)
			if !ok || fd.Name.Name != fn {
				continue
			}
			for _, st := range fd.Body.List {
				if as, ok := st.(*ast.AssignStmt); ok && len(as.Rhs) == 1 && res == "" {
					if tv, ok := c.Info.Types[as.Rhs[0]]; ok && tv.Type != nil {
						res = oracle.Canon(tv.Type)
					}
				}
			}
		}
	}
	return res
}

func reference(s sig, imp *fixture.Importer, us []use) []refAns {
	var b strings.Builder
	b.WriteString(prelude())
	for i, u := range us {
		fmt.Fprintf(&b, "func q_%d() {\n\t%s\n}\n", i, u.refText())
	}
	c := oracle.CheckSrc(b.String(), imp, gx.PkgPath)
	if len(c.Parse) > 0 {
		panic("c07: reference does not parse: " + c.Parse[0] + "\n" + s.source())
	}
	by := c.ErrsByFunc()
	if len(by[""]) > 0 {
		panic("c07: reference prelude rejected: " + by[""][0] + "\n" + s.source())
	}
	out := make([]refAns, len(us))
	for i, u := range us {
		fn := fmt.Sprintf("q_%d", i)
		errs := by[fn]
		out[i].ok = len(errs) == 0
		if !out[i].ok {
			out[i].err = errs[0]
			continue
		}
		out[i].targs, out[i].result, _ = instOf(c, fn, "F", "XGox_X")
		if u.Mode == "call" || u.Mode == "xgox" {
			out[i].result = valueType(c, fn)
		}
	}
	return out
}

type answer struct {
	ok      bool
	msg     string
	resType string
}

func stdType(t types.Type) bool {
	switch t.(type) {
	case *types.Basic, *types.Named, *types.Signature, *types.Slice, *types.Map, *types.Pointer, *types.Array, *types.Chan, *types.Struct, *types.Interface, *types.Tuple, *types.Alias, *types.TypeParam:
		return true
	}
	return false
}

// build runs every use in its own function of one package (verdicts), then builds a second package that
// contains only the accepted uses and prints that one: a rejected use may legitimately leave a half-built
// declaration behind, which must not be mistaken for emitted output.
func build(s sig, imp *fixture.Importer, us []use) ([]answer, map[string]string, error) {
	ans, _, _ := build1(s, imp, us, nil)
	skip := make([]bool, len(us))
	for i := range ans {
		skip[i] = !ans[i].ok
	}
	ans2, texts, err := build1(s, imp, us, skip)
	for i := range ans {
		if ans[i].ok && (!ans2[i].ok || ans2[i].resType != ans[i].resType) {
			ans[i].ok = false
			ans[i].msg = "FAULT verdict differs between two builds: " + ans2[i].msg + " / " + ans2[i].resType
		}
	}
	return ans, texts, err
}

func build1(s sig, imp *fixture.Importer, us []use, skip []bool) ([]answer, map[string]string, error) {
	b := gx.New(imp, gx.Options{})
	w := &world{b: b, loc: map[string]types.Object{}}
	pkg := b.Pkg
	ans := make([]answer, len(us))
	out := gx.Try(func() {
		w.gen = pkg.Import("gen")
		for _, l := range locals {
			pkg.NewVar(token.NoPos, parseType(w, l.typ), l.name)
			w.loc[l.name] = pkg.Types.Scope().Lookup(l.name)
		}
		for i, u := range us {
			if skip != nil && skip[i] {
				continue
			}
			nErr := len(b.Errs)
			cb := pkg.NewFunc(nil, fmt.Sprintf("q_%d", i), nil, nil, false).BodyStart(pkg)
			w.cb = cb
			o := gx.Try(func() {
				src := gx.SrcNode("use")
				pushF := func() {
					cb.Val(w.gen.Ref("F"), src)
					if n := len(u.Explicit); n > 0 {
						for _, t := range u.Explicit {
							cb.Typ(parseType(w, t), gx.SrcNode(t))
						}
						cb.Index(n, 0, src)
					}
				}
				var flags gogen.InstrFlags
				if u.al.ell {
					flags = gogen.InstrFlagEllipsis
				}
				switch u.Mode {
				case "call":
					cb.VarRef(nil)
					pushF()
					for _, a := range u.al.items {
						a.push(w)
					}
					if err := cb.CallWithEx(len(u.al.items), 0, flags, src); err != nil {
						panic(err)
					}
					if t := cb.Get(-1).Type; stdType(t) {
						ans[i].resType = oracle.Canon(t)
					} else {
						ans[i].resType = fmt.Sprintf("%T", t)
					}
					cb.Assign(1).EndStmt()
				case "xgox":
					cb.VarRef(nil)
					cb.Val(w.gen.Ref("X"), src)
					for _, t := range u.Explicit {
						cb.Typ(parseType(w, t), gx.SrcNode(t))
					}
					for _, a := range u.al.items {
						a.push(w)
					}
					if err := cb.CallWithEx(len(u.Explicit)+len(u.al.items), 0, flags, src); err != nil {
						panic(err)
					}
					if t := cb.Get(-1).Type; stdType(t) {
						ans[i].resType = oracle.Canon(t)
					} else {
						ans[i].resType = fmt.Sprintf("%T", t)
					}
					cb.Assign(1).EndStmt()
				case "assign":
					cb.NewVarStart(parseTarget(w, u.Target), "v")
					pushF()
					cb.EndInit(1)
					cb.VarRef(nil).Val(cb.Scope().Lookup("v")).Assign(1).EndStmt()
				case "ref":
					cb.VarRef(nil)
					pushF()
					if t := cb.Get(-1).Type; stdType(t) {
						ans[i].resType = oracle.Canon(t)
					} else {
						ans[i].resType = fmt.Sprintf("%T", t)
					}
					cb.Assign(1).EndStmt()
				}
			})
			ans[i].ok = !o.Panicked && len(b.Errs) == nErr
			if !ans[i].ok {
				ans[i].msg = o.Msg + strings.Join(b.Errs[nErr:], ";")
				if o.Fault {
					ans[i].msg = "FAULT@" + gx.Where(o.Stack) + " " + ans[i].msg
				}
				b.Errs = b.Errs[:nErr]
				gx.Try(func() { cb.ResetStmt() })
			}
			gx.Try(func() { cb.End() })
		}
	})
	if out.Panicked {
		for i := range ans {
			if ans[i].msg == "" && !ans[i].ok {
				ans[i].msg = "setup failed: " + out.Msg
			}
		}
	}
	texts, err := oracle.WriteAll(b.Pkg)
	return ans, texts, err
}

// parseTarget parses "func(P1, P2) R" target types from a small grammar via go/types on a snippet.
func parseTarget(w *world, text string) types.Type {
	if t, ok := w.b.Extra[text]; ok {
		return t.(types.Type)
	}
	src := "package q\nimport \"gen\"\nvar _ gen.MyInt\nvar V " + text + "\n"
	c := oracle.CheckSrc(src, w.b.Imp, "q")
	if !c.OK() {
		panic("c07: target type does not check: " + text + ": " + c.ErrString())
	}
	t := c.Pkg.Scope().Lookup("V").Type()
	if w.b.Extra == nil {
		w.b.Extra = map[string]any{}
	}
	w.b.Extra[text] = t
	return t
}

type payload struct {
	Sig sig `json:"sig"`
	Use use `json:"use"`
}

func judge(s sig, thorough bool, report func(u use, kind, detail string), count func(u use, r refAns, a answer)) {
	imp := fixture.New(map[string]string{"gen": s.source()}, false)
	us := uses(s, thorough)
	// chunk to keep single packages small
	const chunk = 4000
	for lo := 0; lo < len(us); lo += chunk {
		hi := lo + chunk
		if hi > len(us) {
			hi = len(us)
		}
		judgeChunk(s, imp, us[lo:hi], report, count)
	}
}

func judgeChunk(s sig, imp *fixture.Importer, us []use, report func(u use, kind, detail string), count func(u use, r refAns, a answer)) {
	want := reference(s, imp, us)
	ans, texts, werr := build(s, imp, us)
	c := oracle.Check(texts, imp, gx.PkgPath)
	by := map[string][]string{}
	if len(c.Parse) == 0 {
		by = c.ErrsByFunc()
	}
	for i, u := range us {
		a, r := ans[i], want[i]
		count(u, r, a)
		switch {
		case strings.HasPrefix(a.msg, "FAULT"):
			report(u, "fault:"+strings.SplitN(a.msg, " ", 2)[0], a.msg)
		case !r.ok && a.ok:
			report(u, "rejected-by-go-accepted:"+oracle.NormMsg(r.err), fmt.Sprintf("go/types rejects `%s` (%s), builder accepted", u.refText(), r.err))
		case r.ok && !a.ok:
			report(u, "accepted-by-go-rejected:"+oracle.NormMsg(a.msg), fmt.Sprintf("go/types accepts `%s` with type arguments [%s], builder rejects: %s", u.refText(), r.targs, a.msg))
		case r.ok && a.ok:
			fn := fmt.Sprintf("q_%d", i)
			if werr != nil {
				report(u, "write-failed", werr.Error())
				continue
			}
			if len(c.Parse) > 0 {
				report(u, "emitted-no-parse", c.Parse[0])
				continue
			}
			if errs := by[fn]; len(errs) > 0 {
				report(u, "emitted-rejected:"+oracle.NormMsg(errs[0]), fmt.Sprintf("`%s` accepted, but the emitted code is rejected: %s", u.refText(), errs[0]))
				continue
			}
			targs, inst, found := instOf(c, fn, "F", "XGox_X")
			if !found {
				report(u, "emitted-not-an-instance", fmt.Sprintf("`%s`: no instantiation of F recorded in the emitted code", u.refText()))
				continue
			}
			if targs != r.targs {
				report(u, "type-arguments-differ", fmt.Sprintf("`%s`: go/types infers [%s] on the reference text but [%s] on the emitted text", u.refText(), r.targs, targs))
				continue
			}
			got := valueType(c, fn)
			switch u.Mode {
			case "call", "xgox":
				if a.resType != r.result {
					report(u, "result-type-differs", fmt.Sprintf("`%s`: builder reports result type %s, go/types %s", u.refText(), a.resType, r.result))
				} else if got != r.result {
					report(u, "emitted-result-type-differs", fmt.Sprintf("`%s`: emitted call has type %s, reference %s", u.refText(), got, r.result))
				}
			case "ref":
				if a.resType != r.result {
					report(u, "instantiated-signature-differs", fmt.Sprintf("`%s`: builder reports %s, go/types instantiates to %s", u.refText(), a.resType, r.result))
				}
			case "assign":
				if inst != r.result {
					report(u, "instantiated-signature-differs", fmt.Sprintf("`%s`: emitted instantiates to %s, reference to %s", u.refText(), inst, r.result))
				}
			}
		}
	}
}

func run(c *vf.Ctx) {
	var idx int64
	signatures(c.Thorough(), func(s sig) {
		i := idx
		idx++
		if !c.MineIdx(i) {
			return
		}
		if c.Expired() {
			c.Cap("wall budget")
			return
		}
		judge(s, c.Thorough(), func(u use, kind, detail string) {
			c.Violation(kind+"|"+s.Name+"|"+u.key(), "signature "+strings.TrimSpace(s.decl("F"))+": "+detail, payload{s, u})
		}, func(u use, r refAns, a answer) {
			c.Eval(1)
			c.Outcome(fmt.Sprintf("%s:go=%v,builder=%v", u.Mode, r.ok, a.ok))
			if len(u.Explicit) < s.NTP || !r.ok {
				c.Distinct(s.Name + "|" + u.key())
			}
			if r.ok {
				c.Tally("accepted_by_go:"+u.Mode, 1)
			}
		})
		c.Tally("signatures", 1)
		if i%37 == 0 {
			c.Sample(map[string]string{"signature": s.decl("F")})
		}
	})
	typeInstances(c)
}

func replay(raw json.RawMessage) (string, bool) {
	var p payload
	if err := json.Unmarshal(raw, &p); err != nil {
		return err.Error(), false
	}
	if p.Sig.Name == "types" {
		return replayTypes(p.Use)
	}
	var out []string
	key := p.Use.key()
	judge(p.Sig, true, func(u use, kind, detail string) {
		if u.key() == key {
			out = append(out, kind+": "+detail)
		}
	}, func(use, refAns, answer) {})
	if len(out) == 0 {
		judge(p.Sig, false, func(u use, kind, detail string) {
			if u.key() == key {
				out = append(out, kind+": "+detail)
			}
		}, func(use, refAns, answer) {})
	}
	if len(out) == 0 {
		return "signature " + p.Sig.Name + " use " + key + ": agrees with go/types", false
	}
	return strings.Join(out, "\n") + "\n" + p.Sig.decl("F"), true
}
