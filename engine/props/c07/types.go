package c07

import (
	"fmt"
	"go/token"
	"go/types"
	"strings"

	"verifengine/fixture"
	"verifengine/gx"
	"verifengine/oracle"
	"verifengine/vf"
)

// mode "type": instantiation of generic types, through CodeBuilder.Index and Package.Instantiate.

var genericTypes = []struct {
	name string
	ntp  int
}{{"Box", 1}, {"Pair", 2}, {"NumBox", 1}, {"MyInt", 0}}

func typeUses(thorough bool) []use {
	alpha := []string{"int", "string", "[]int", "gen.MyInt", "float64", "func(int) int", "map[string]int", "*int", "any"}
	var out []use
	for _, g := range genericTypes {
		var rec func(k int, cur []string)
		rec = func(k int, cur []string) {
			if len(cur) == k {
				for _, via := range []string{"index", "instantiate"} {
					out = append(out, use{Mode: "type-" + via, Explicit: append([]string{}, cur...), Target: g.name})
				}
				return
			}
			for _, a := range alpha {
				rec(k, append(cur, a))
			}
		}
		for k := 0; k <= 3; k++ {
			if k == 0 && g.ntp == 0 {
				continue // a plain named type without arguments is no instantiation
			}
			if k == 0 && g.ntp > 0 {
				// `gen.Box` without arguments is not expressible through Index(0); Instantiate with none is
				out = append(out, use{Mode: "type-instantiate", Target: g.name})
				continue
			}
			if k == 3 && !thorough && g.ntp != 2 {
				continue
			}
			rec(k, nil)
		}
	}
	return out
}

func typeRefText(u use) string {
	t := "gen." + u.Target
	if len(u.Explicit) > 0 {
		t += "[" + strings.Join(u.Explicit, ", ") + "]"
	}
	if u.Mode == "type-index" {
		return "_ = (*" + t + ")(nil)"
	}
	return "var v " + t + "; _ = v"
}

func judgeTypes(thorough bool, report func(u use, kind, detail string), count func(u use, refOK, ok bool)) {
	imp := fixture.New(map[string]string{"gen": helperSrc}, false)
	us := typeUses(thorough)
	var sb strings.Builder
	sb.WriteString(prelude())
	for i, u := range us {
		fmt.Fprintf(&sb, "func q_%d() {\n\t%s\n}\n", i, typeRefText(u))
	}
	rc := oracle.CheckSrc(sb.String(), imp, gx.PkgPath)
	if len(rc.Parse) > 0 {
		panic("c07: type reference does not parse: " + rc.Parse[0])
	}
	rby := rc.ErrsByFunc()

	b := gx.New(imp, gx.Options{})
	w := &world{b: b, loc: map[string]types.Object{}}
	pkg := b.Pkg
	type ans struct {
		ok  bool
		msg string
		typ string
	}
	as := make([]ans, len(us))
	gx.Try(func() {
		w.gen = pkg.Import("gen")
		for _, l := range locals {
			pkg.NewVar(token.NoPos, parseType(w, l.typ), l.name)
		}
		for i, u := range us {
			nErr := len(b.Errs)
			cb := pkg.NewFunc(nil, fmt.Sprintf("q_%d", i), nil, nil, false).BodyStart(pkg)
			w.cb = cb
			o := gx.Try(func() {
				g := w.gen.Ref(u.Target).Type()
				var targs []types.Type
				for _, t := range u.Explicit {
					if t == "any" {
						targs = append(targs, types.Universe.Lookup("any").Type())
					} else {
						targs = append(targs, parseType(w, t))
					}
				}
				if u.Mode == "type-index" {
					cb.VarRef(nil).Typ(g)
					for i, t := range targs {
						cb.Typ(t, gx.SrcNode(u.Explicit[i]))
					}
					cb.Index(len(targs), 0, gx.SrcNode("idx"))
					if tt, ok := cb.Get(-1).Type.(interface{ Type() types.Type }); ok {
						as[i].typ = oracle.Canon(tt.Type())
					}
					cb.Star().Val(nil).Call(1).Assign(1).EndStmt()
				} else {
					t := pkg.Instantiate(g, targs, gx.SrcNode("inst"))
					if len(b.Errs) > nErr {
						return
					}
					as[i].typ = oracle.Canon(t)
					cb.NewVar(t, "v")
					cb.VarRef(nil).Val(cb.Scope().Lookup("v")).Assign(1).EndStmt()
				}
			})
			as[i].ok = !o.Panicked && len(b.Errs) == nErr
			if !as[i].ok {
				as[i].msg = o.Msg + strings.Join(b.Errs[nErr:], ";")
				if o.Fault {
					as[i].msg = "FAULT@" + gx.Where(o.Stack) + " " + as[i].msg
				}
				b.Errs = b.Errs[:nErr]
				gx.Try(func() { cb.ResetStmt() })
			}
			gx.Try(func() { cb.End() })
		}
	})
	texts, _ := oracle.WriteAll(pkg)
	ec := oracle.Check(texts, imp, gx.PkgPath)
	eby := map[string][]string{}
	if len(ec.Parse) == 0 {
		eby = ec.ErrsByFunc()
	}
	for i, u := range us {
		fn := fmt.Sprintf("q_%d", i)
		rok := len(rby[fn]) == 0
		a := as[i]
		count(u, rok, a.ok)
		switch {
		case strings.HasPrefix(a.msg, "FAULT"):
			report(u, "fault:"+strings.SplitN(a.msg, " ", 2)[0], a.msg)
		case !rok && a.ok:
			report(u, "rejected-by-go-accepted:"+oracle.NormMsg(rby[fn][0]), fmt.Sprintf("go/types rejects `%s` (%s), builder accepted", typeRefText(u), rby[fn][0]))
		case rok && !a.ok:
			report(u, "accepted-by-go-rejected:"+oracle.NormMsg(a.msg), fmt.Sprintf("go/types accepts `%s`, builder rejects: %s", typeRefText(u), a.msg))
		case rok && a.ok:
			if len(ec.Parse) > 0 {
				report(u, "emitted-no-parse", ec.Parse[0])
				continue
			}
			if errs := eby[fn]; len(errs) > 0 {
				report(u, "emitted-rejected:"+oracle.NormMsg(errs[0]), fmt.Sprintf("`%s` accepted, but the emitted code is rejected: %s", typeRefText(u), errs[0]))
				continue
			}
			want := "gen." + u.Target
			if len(u.Explicit) > 0 {
				_, inst, _ := instOf(rc, fn, u.Target)
				want = inst
				_, einst, found := instOf(ec, fn, u.Target)
				if !found || einst != inst {
					report(u, "instantiated-type-differs", fmt.Sprintf("`%s`: emitted code instantiates %s, reference %s", typeRefText(u), einst, inst))
					continue
				}
			}
			if a.typ != want {
				report(u, "reported-type-differs", fmt.Sprintf("`%s`: builder reports %s, go/types %s", typeRefText(u), a.typ, want))
			}
		}
	}
}

var typesSig = sig{Name: "types"}

func typeInstances(c *vf.Ctx) {
	if !c.MineIdx(1 << 20) {
		return
	}
	judgeTypes(c.Thorough(), func(u use, kind, detail string) {
		c.Violation(kind+"|types|"+u.key(), detail, payload{typesSig, u})
	}, func(u use, rok, ok bool) {
		c.Eval(1)
		c.Outcome(fmt.Sprintf("%s:go=%v,builder=%v", u.Mode, rok, ok))
		c.Distinct("types|" + u.key())
	})
}

func replayTypes(u use) (string, bool) {
	var out []string
	judgeTypes(true, func(v use, kind, detail string) {
		if v.key() == u.key() {
			out = append(out, kind+": "+detail)
		}
	}, func(use, bool, bool) {})
	if len(out) == 0 {
		return "type use " + u.key() + ": agrees with go/types", false
	}
	return strings.Join(out, "\n"), true
}
