// Package c06: overload resolution picks the first applicable candidate and leaves no residue.
package c06

import (
	"encoding/json"
	"fmt"
	"go/ast"
	"go/token"
	"go/types"
	"strings"

	"github.com/goplus/gogen"

	"verifengine/fixture"
	"verifengine/gx"
	"verifengine/oracle"
	"verifengine/vf"
)

func init() {
	vf.Register(&vf.Prop{
		ID: "C06", Level: "exploration",
		Rule: "overload families generated as source of XGo-marked fixture packages: all ordered selections of 1..N distinct parameter shapes out of 15 ((), (int), (string), (float64), (any), (int,string), (...int), (int,...string), ([]int), [T any](T), [T ~int|~string](T), (func(int)), (func(string)), (func(string),int), (func(int),string)) as package functions F__0.., " +
			"as methods M__i on value and pointer receivers and as interface methods (non-generic shapes); for every family every argument list of length 0..2 over {1, 1.5, \"s\", nil, int var, string var, []int var, func(int) var, a generic function value}, a spread `z...` and a tuple call. " +
			"Oracle: reference index = first i for which go/types accepts the call of candidate i on the reference text; the builder must pick exactly that candidate (emitted callee name, Recorder.Call object) or reject when there is none; the emitted argument expressions must be the argument texts themselves (no residue of failed candidates), the emitted package must type-check. " +
			"non-trivial = families with >=2 candidates and a call that skips at least one candidate; distinct = family x argument list",
		Assumptions: []string{"go/types 1.23.5 call rules decide applicability of each candidate", "candidate order is the __N suffix order"},
		Run:         run,
		Replay:      replay,
	})
}

type shape struct {
	name   string
	tparam string
	params string
	winit  []bool // parameters of type W: an argument is passed through the documented W_Init conversion
}

var shapes = []shape{
	{"none", "", "", nil},
	{"int", "", "a int", nil},
	{"string", "", "a string", nil},
	{"float64", "", "a float64", nil},
	{"any", "", "a any", nil},
	{"int-string", "", "a int, b string", nil},
	{"var-int", "", "a ...int", nil},
	{"int-var-string", "", "a int, b ...string", nil},
	{"slice-int", "", "a []int", nil},
	{"func-int", "", "a func(int)", nil},
	{"func-string", "", "a func(string)", nil},
	{"funcstr-int", "", "a func(string), b int", nil},
	{"funcint-string", "", "a func(int), b string", nil},
	{"int-int", "", "a int, b int", nil},
	{"W", "", "a W", []bool{true}},
	{"W-string", "", "a W, b string", []bool{true, false}},
	{"int-W", "", "a int, b W", []bool{false, true}},
	{"generic-any", "[T any]", "a T", nil},
	{"generic-union", "[T ~int | ~string]", "a T", nil},
}

const nonGeneric = 17

type arg struct {
	text string
	push func(w *world)
}

type world struct {
	b   *gx.Build
	cb  *gogen.CodeBuilder
	loc map[string]types.Object
	hlp gogen.PkgRef
}

const helperSrc = `package hlp

func T2() (int, string) { return 0, "" }

func G[T any](a T) {}
`

func args() []arg {
	lit := func(k token.Token, v string) arg {
		return arg{v, func(w *world) { w.cb.Val(&ast.BasicLit{Kind: k, Value: v}, gx.SrcNode(v)) }}
	}
	local := func(n string) arg { return arg{n, func(w *world) { w.cb.Val(w.loc[n], gx.SrcNode(n)) }} }
	return []arg{
		lit(token.INT, "1"), lit(token.FLOAT, "1.5"), lit(token.STRING, `"s"`),
		{"nil", func(w *world) { w.cb.Val(nil, gx.SrcNode("nil")) }},
		local("x"), local("y"), local("z"), local("f"),
		{"hlp.G", func(w *world) { w.cb.Val(w.hlp.Ref("G"), gx.SrcNode("hlp.G")) }},
	}
}

type arglist struct {
	text  string
	items []arg
	ell   bool
}

func arglists() []arglist {
	as := args()
	out := []arglist{{text: ""}}
	for _, a := range as {
		out = append(out, arglist{text: a.text, items: []arg{a}})
	}
	for _, a := range as {
		for _, b := range as {
			out = append(out, arglist{text: a.text + ", " + b.text, items: []arg{a, b}})
		}
	}
	z := as[6]
	out = append(out, arglist{text: "z...", items: []arg{z}, ell: true})
	out = append(out, arglist{text: "1, z...", items: []arg{as[0], z}, ell: true})
	tuple := arg{"hlp.T2()", func(w *world) { w.cb.Val(w.hlp.Ref("T2")).Call(0) }}
	out = append(out, arglist{text: "hlp.T2()", items: []arg{tuple}})
	return out
}

type family struct {
	Kind   string `json:"kind"` // func | method | pmethod | iface
	Shapes []int  `json:"shapes"`
}

func (f family) name() string {
	var s []string
	for _, i := range f.Shapes {
		s = append(s, shapes[i].name)
	}
	return f.Kind + ":" + strings.Join(s, "/")
}

// source of the fixture package for a family
func (f family) source() string {
	var b strings.Builder
	b.WriteString("package ov\n\nconst XGoPackage = true\n\ntype N struct{ V int }\n\n// W has the documented implicit conversion: a value assignable to W_Init's parameter is accepted for W\ntype W struct{ v int }\n\nfunc W_Init(x int) W { return W{x} }\n\n")
	switch f.Kind {
	case "func":
		for i, si := range f.Shapes {
			s := shapes[si]
			fmt.Fprintf(&b, "func F__%d%s(%s) int { return %d }\n", i, s.tparam, s.params, i)
		}
	case "method":
		for i, si := range f.Shapes {
			fmt.Fprintf(&b, "func (N) M__%d(%s) int { return %d }\n", i, shapes[si].params, i)
		}
	case "pmethod":
		for i, si := range f.Shapes {
			fmt.Fprintf(&b, "func (*N) M__%d(%s) int { return %d }\n", i, shapes[si].params, i)
		}
	case "iface":
		b.WriteString("type I interface {\n")
		for i, si := range f.Shapes {
			fmt.Fprintf(&b, "\tM__%d(%s) int\n", i, shapes[si].params)
		}
		b.WriteString("}\n")
	}
	return b.String()
}

// argsFor renders the arguments as candidate i receives them: an argument for a parameter of type W goes
// through W_Init.
func (f family) argsFor(i int, al arglist) string {
	w := shapes[f.Shapes[i]].winit
	if w == nil || al.ell || len(al.items) == 0 || strings.Contains(al.text, "T2()") {
		return al.text
	}
	var out []string
	for k, a := range al.items {
		if k < len(w) && w[k] {
			out = append(out, "ov.W_Init("+a.text+")")
		} else {
			out = append(out, a.text)
		}
	}
	return strings.Join(out, ", ")
}

func (f family) callText(i int, al arglist) string {
	al = arglist{text: f.argsFor(i, al), items: al.items, ell: al.ell}
	switch f.Kind {
	case "func":
		return fmt.Sprintf("ov.F__%d(%s)", i, al.text)
	case "method":
		return fmt.Sprintf("n.M__%d(%s)", i, al.text)
	case "pmethod":
		return fmt.Sprintf("n.M__%d(%s)", i, al.text)
	}
	return fmt.Sprintf("iv.M__%d(%s)", i, al.text)
}

const prelude = "package p\n\nimport (\n\t\"hlp\"\n\t\"ov\"\n)\n\nvar _ = hlp.T2\n\nvar (\n\tx  int\n\ty  string\n\tz  []int\n\tf  func(int)\n\tn  ov.N\n\tiv ov.I\n)\n\n"

// reference: for each arglist the lowest applicable candidate (-1 = none)
func reference(f family, imp *fixture.Importer, als []arglist) []int {
	var b strings.Builder
	p := prelude
	if f.Kind != "iface" {
		p = strings.Replace(p, "\tiv ov.I\n", "", 1)
	}
	b.WriteString(p)
	for ai, al := range als {
		for i := range f.Shapes {
			fmt.Fprintf(&b, "func q_%d_%d() {\n\t_ = %s\n}\n", ai, i, f.callText(i, al))
		}
	}
	c := oracle.CheckSrc(b.String(), imp, gx.PkgPath)
	if len(c.Parse) > 0 {
		panic("c06: reference does not parse: " + c.Parse[0])
	}
	by := c.ErrsByFunc()
	if len(by[""]) > 0 {
		panic("c06: reference prelude rejected: " + by[""][0] + "\n" + f.source())
	}
	out := make([]int, len(als))
	for ai := range als {
		out[ai] = -1
		for i := range f.Shapes {
			if len(by[fmt.Sprintf("q_%d_%d", ai, i)]) == 0 {
				out[ai] = i
				break
			}
		}
	}
	return out
}

type answer struct {
	ok      bool
	msg     string
	callee  string
	recObj  string
	resType string
}

func buildFamily(f family, imp *fixture.Importer, als []arglist) ([]answer, map[string]string, *gx.Build) {
	b := gx.New(imp, gx.Options{})
	w := &world{b: b, loc: map[string]types.Object{}}
	pkg := b.Pkg
	ans := make([]answer, len(als))
	out := gx.Try(func() {
		ov := pkg.Import("ov")
		w.hlp = pkg.Import("hlp")
		T := types.Typ
		fsig := types.NewSignatureType(nil, nil, nil, types.NewTuple(types.NewParam(0, pkg.Types, "", T[types.Int])), nil, false)
		decl := func(n string, t types.Type) {
			pkg.NewVar(token.NoPos, t, n)
			w.loc[n] = pkg.Types.Scope().Lookup(n)
		}
		decl("x", T[types.Int])
		decl("y", T[types.String])
		decl("z", types.NewSlice(T[types.Int]))
		decl("f", fsig)
		decl("n", ov.Ref("N").Type())
		if f.Kind == "iface" {
			decl("iv", ov.Ref("I").Type())
		}
		for ai, al := range als {
			nErr := len(b.Errs)
			nEv := len(b.Rec.Events)
			cb := pkg.NewFunc(nil, fmt.Sprintf("q_%d", ai), nil, nil, false).BodyStart(pkg)
			w.cb = cb
			o := gx.Try(func() {
				cb.VarRef(nil)
				src := gx.SrcNode("call")
				switch f.Kind {
				case "func":
					cb.Val(ov.Ref("F"), src)
				case "method", "pmethod":
					cb.Val(w.loc["n"]).MemberVal("M", 0, src)
				case "iface":
					cb.Val(w.loc["iv"]).MemberVal("M", 0, src)
				}
				for _, a := range al.items {
					a.push(w)
				}
				var flags gogen.InstrFlags
				if al.ell {
					flags = gogen.InstrFlagEllipsis
				}
				if err := cb.CallWithEx(len(al.items), 0, flags, src); err != nil {
					panic(err)
				}
				ans[ai].resType = fmt.Sprint(cb.Get(-1).Type)
				cb.Assign(1).EndStmt()
			})
			ans[ai].ok = !o.Panicked && len(b.Errs) == nErr
			if !ans[ai].ok {
				ans[ai].msg = o.Msg + strings.Join(b.Errs[nErr:], ";")
				if o.Fault {
					ans[ai].msg = "FAULT " + ans[ai].msg
				}
				b.Errs = b.Errs[:nErr]
				gx.Try(func() { cb.ResetStmt() })
			}
			for _, ev := range b.Rec.Events[nEv:] {
				if ev.Kind == "call" {
					ans[ai].recObj = ev.Obj.Name()
				}
			}
			gx.Try(func() { cb.End() })
		}
	})
	if out.Panicked {
		for i := range ans {
			if ans[i].msg == "" && !ans[i].ok {
				ans[i].msg = "setup failed: " + out.Msg
			}
		}
	}
	texts, _ := oracle.WriteAll(b.Pkg)
	return ans, texts, b
}

type payload struct {
	Family family `json:"family"`
	Args   string `json:"args"`
}

func families(thorough bool, yield func(f family)) {
	maxN := 3
	var rec func(kind string, limit, n int, cur []int)
	rec = func(kind string, limit, n int, cur []int) {
		if len(cur) >= 1 {
			yield(family{kind, append([]int{}, cur...)})
		}
		if len(cur) == n {
			return
		}
		for i := 0; i < limit; i++ {
			dup := false
			for _, c := range cur {
				if c == i {
					dup = true
				}
			}
			if dup {
				continue
			}
			rec(kind, limit, n, append(cur, i))
		}
	}
	rec("func", len(shapes), maxN, nil)
	mN := 2
	if thorough {
		mN = 3
	}
	rec("method", nonGeneric, mN, nil)
	rec("pmethod", nonGeneric, mN, nil)
	rec("iface", nonGeneric, mN, nil)
}

func judge(f family, imp0 *fixture.Importer, report func(al arglist, kind, detail string), count func(skipped bool, outcome string)) {
	imp := fixture.New(map[string]string{"ov": f.source(), "hlp": helperSrc}, false)
	als := arglists()
	want := reference(f, imp, als)
	ans, texts, _ := buildFamily(f, imp, als)
	c := oracle.Check(texts, imp, gx.PkgPath)
	by := map[string][]string{}
	if len(c.Parse) == 0 {
		by = c.ErrsByFunc()
	}
	for ai, al := range als {
		a := ans[ai]
		count(want[ai] > 0, fmt.Sprintf("want=%v,ok=%v", want[ai] >= 0, a.ok))
		switch {
		case strings.HasPrefix(a.msg, "FAULT"):
			report(al, "fault", a.msg)
		case want[ai] < 0 && a.ok:
			report(al, "none-applicable-but-accepted", fmt.Sprintf("no candidate accepts (%s) under go/types, builder accepted (recorder: %s)", al.text, a.recObj))
		case want[ai] >= 0 && !a.ok:
			report(al, fmt.Sprintf("applicable-rejected:cand%d:%s", want[ai], shapes[f.Shapes[want[ai]]].name), fmt.Sprintf("candidate %d (%s) accepts (%s) under go/types, builder rejects: %s", want[ai], shapes[f.Shapes[want[ai]]].name, al.text, a.msg))
		case want[ai] >= 0 && a.ok:
			// emitted callee and arguments
			fn := fmt.Sprintf("q_%d", ai)
			if len(c.Parse) > 0 {
				report(al, "emitted-no-parse", c.Parse[0])
				continue
			}
			if errs := by[fn]; len(errs) > 0 {
				report(al, "emitted-rejected:"+oracle.NormMsg(errs[0]), "accepted, but the emitted call is rejected: "+errs[0])
				continue
			}
			callee, argTexts := emittedCall(c, fn)
			wantName := fmt.Sprintf("__%d", want[ai])
			if !strings.HasSuffix(callee, wantName) {
				report(al, fmt.Sprintf("wrong-candidate:want%d:%s:got%s", want[ai], shapes[f.Shapes[want[ai]]].name, candShape(f, callee)), fmt.Sprintf("args (%s): first applicable candidate is %d (%s), emitted call names %s", al.text, want[ai], shapes[f.Shapes[want[ai]]].name, callee))
				continue
			}
			if a.recObj != "" && !strings.HasSuffix(a.recObj, wantName) {
				report(al, "recorder-wrong-candidate", fmt.Sprintf("Recorder.Call got %s, chosen candidate is %d", a.recObj, want[ai]))
			}
			for k, at := range argTexts {
				if strings.HasPrefix(at, "hlp.G[") { // explicit instantiation of the generic function value is part of the chosen candidate's call
					argTexts[k] = "hlp.G"
				}
			}
			wantArgs := f.argsFor(want[ai], al)
			if strings.Join(argTexts, ", ") != strings.TrimSuffix(wantArgs, "...") && strings.Join(argTexts, ", ")+"..." != wantArgs {
				report(al, "residue-in-arguments", fmt.Sprintf("args (%s) for candidate %d must be emitted as (%s), were emitted as (%s)", al.text, want[ai], wantArgs, strings.Join(argTexts, ", ")))
			}
			if a.resType != "int" {
				report(al, "result-type:"+a.resType, fmt.Sprintf("result type reported as %s, candidate returns int", a.resType))
			}
		}
	}
}

func candShape(f family, callee string) string {
	if i := strings.LastIndex(callee, "__"); i >= 0 {
		var k int
		if _, err := fmt.Sscanf(callee[i+2:], "%d", &k); err == nil && k < len(f.Shapes) {
			return fmt.Sprintf("%d:%s", k, shapes[f.Shapes[k]].name)
		}
	}
	return callee
}

func emittedCall(c *oracle.Checked, fn string) (callee string, args []string) {
	for _, file := range c.Files {
		for _, d := range file.Decls {
			fd, ok := d.(*ast.FuncDecl)
			if !ok || fd.Name.Name != fn {
				continue
			}
			ast.Inspect(fd.Body, func(n ast.Node) bool {
				call, ok := n.(*ast.CallExpr)
				if !ok || callee != "" {
					return true
				}
				switch fun := call.Fun.(type) {
				case *ast.SelectorExpr:
					callee = fun.Sel.Name
				case *ast.IndexExpr:
					if s, ok := fun.X.(*ast.SelectorExpr); ok {
						callee = s.Sel.Name
					}
				case *ast.Ident:
					callee = fun.Name
				}
				if strings.HasPrefix(callee, "T2") { // the tuple helper: keep looking for the outer call
					callee = ""
					return true
				}
				for _, a := range call.Args {
					args = append(args, types.ExprString(a))
				}
				return false
			})
		}
	}
	return
}

func run(c *vf.Ctx) {
	var idx int64
	families(c.Thorough(), func(f family) {
		i := idx
		idx++
		if !c.MineIdx(i) {
			return
		}
		if c.Expired() {
			if i%64 == 0 {
				c.Cap("wall budget")
			}
			return
		}
		judge(f, nil, func(al arglist, kind, detail string) {
			c.Violation(kind+"|"+f.name()+"|("+al.text+")", "family "+f.name()+", call with ("+al.text+"): "+detail+"\n"+f.source(), payload{f, al.text})
		}, func(skipped bool, outcome string) {
			c.Eval(1)
			c.Outcome(outcome)
			if skipped && len(f.Shapes) >= 2 {
				c.Tally("calls_skipping_a_candidate", 1)
			}
		})
		c.Tally("families:"+f.Kind, 1)
		if len(f.Shapes) >= 2 {
			c.Distinct(f.name())
		}
		if i%211 == 0 {
			c.Sample(map[string]string{"family": f.name(), "source": f.source()})
		}
	})
}

func replay(raw json.RawMessage) (string, bool) {
	var p payload
	if err := json.Unmarshal(raw, &p); err != nil {
		return err.Error(), false
	}
	var out []string
	judge(p.Family, nil, func(al arglist, kind, detail string) {
		if al.text == p.Args {
			out = append(out, kind+": "+detail)
		}
	}, func(bool, string) {})
	if len(out) == 0 {
		return "family " + p.Family.name() + " with (" + p.Args + "): resolution agrees with go/types", false
	}
	return strings.Join(out, "\n") + "\n" + p.Family.source(), true
}
