// Package c16: builder state is balanced across every construct.
package c16

import (
	"encoding/json"
	"fmt"
	"go/token"
	"go/types"
	"strings"

	"github.com/goplus/gogen"

	"verifengine/ex"
	"verifengine/fixture"
	"verifengine/gx"
	"verifengine/oracle"
	"verifengine/vf"
)

func init() {
	vf.Register(&vf.Prop{
		ID: "C16", Level: "model_checking",
		Rule: "every well-nested history in which 19 block-forming constructs (closure as statement / as := value / as var initialiser / as call argument, block, vblock, if-then, if-else, if with init, for, for with post, range, switch case/default, type-switch case, select comm/default, inline closure, labeled for) are nested to depth D, " +
			"with 0-2 simple statements (call, define+use, 3-operand call; under the second rotation: constant expression statement, receive statement, send) before and after the nested construct at every level, in two current-file regimes; plus all chains of depth 8 over one representative per context-saving mechanism (block, vblock, function body, initialiser). " +
			"A pushdown model predicts, for every operation, the operand-stack delta and, for every construct, the frame (stack height, scope, current function, vblock flag, label visibility) to be restored; the real builder is compared with the model after EVERY operation. " +
			"Finally the package must be written and type-check. state = construct chain prefix; non-trivial = chains of depth>=2",
		Assumptions: []string{"documented arities as listed in the driver table (op wrapper) are the specification of 'documented arity'", "labels are function-scoped: a label of the outer function is invisible inside a function literal"},
		Run:         run,
		Replay:      replay,
	})
}

type frame struct {
	len   int
	scope *types.Scope
	fn    *gogen.Func
	vb    bool
	label bool // outer label OUT visible
}

type harness struct {
	b     *gx.Build
	env   gogen.PkgRef
	cb    *gogen.CodeBuilder
	fresh int
	fails []string
	ops   int
	trace []string
	bases []int
	rot   int
}

func (h *harness) snap() frame {
	_, ok := h.cb.LookupLabel("OUT")
	return frame{h.cb.InternalStack().Len(), h.cb.Scope(), h.cb.Func(), h.cb.InVBlock(), ok}
}

func (h *harness) fail(f string, a ...any) {
	if len(h.fails) < 5 {
		h.fails = append(h.fails, fmt.Sprintf(f, a...)+" after ops: "+strings.Join(h.trace[max(0, len(h.trace)-12):], " "))
	}
}

// op runs one builder operation and checks its stack delta.
func (h *harness) op(name string, delta int, f func()) {
	before := h.cb.InternalStack().Len()
	f()
	h.ops++
	h.trace = append(h.trace, name)
	if after := h.cb.InternalStack().Len(); after != before+delta {
		h.fail("operation %s changed the stack by %+d, documented arity %+d", name, after-before, delta)
	}
}

func (h *harness) name() string {
	h.fresh++
	return fmt.Sprintf("v%d", h.fresh)
}

// stmtBoundary: after a completed statement the stack is at the enclosing body's base.
func (h *harness) stmtBoundary(what string) {
	base := h.bases[len(h.bases)-1]
	if l := h.cb.InternalStack().Len(); l != base {
		h.fail("after statement %s the stack height is %d, the enclosing block's base is %d", what, l, base)
	}
}

func (h *harness) simple(i int) {
	cb := h.cb
	switch (i + h.rot) % 6 {
	case 3: // 1 + 2 as a statement: a constant expression statement is dropped, its operand must still be popped
		h.op("Val(1)", 1, func() { cb.Val(1) })
		h.op("Val(2)", 1, func() { cb.Val(2) })
		h.op("BinaryOp(+)", -1, func() { cb.BinaryOp(token.ADD) })
		h.op("EndStmt", -1, func() { cb.EndStmt() })
		h.stmtBoundary("const-expr-stmt")
	case 4: // <-env.VCh
		h.op("Val(VCh)", 1, func() { cb.Val(h.env.Ref("VCh")) })
		h.op("UnaryOp(<-)", 0, func() { cb.UnaryOp(token.ARROW) })
		h.op("EndStmt", -1, func() { cb.EndStmt() })
		h.stmtBoundary("recv-stmt")
	case 5: // env.VCh <- 1
		h.op("Val(VCh)", 1, func() { cb.Val(h.env.Ref("VCh")) })
		h.op("Val(1)", 1, func() { cb.Val(1) })
		h.op("Send", -2, func() { cb.Send() })
		h.op("EndStmt", 0, func() { cb.EndStmt() })
		h.stmtBoundary("send")
	case 0: // env.FN()
		h.op("Val(FN)", 1, func() { cb.Val(h.env.Ref("FN")) })
		h.op("Call(0)", 0, func() { cb.Call(0) })
		h.op("EndStmt", -1, func() { cb.EndStmt() })
		h.stmtBoundary("call")
	case 1: // v := 1 + 2; _ = v
		n := h.name()
		h.op("DefineVarStart", 0, func() { cb.DefineVarStart(token.NoPos, n) })
		h.op("Val(1)", 1, func() { cb.Val(1) })
		h.op("Val(2)", 1, func() { cb.Val(2) })
		h.op("BinaryOp(+)", -1, func() { cb.BinaryOp(token.ADD) })
		h.op("EndInit(1)", -1, func() { cb.EndInit(1) })
		h.stmtBoundary("define")
		h.op("VarRef(_)", 1, func() { cb.VarRef(nil) })
		h.op("VarVal", 1, func() { cb.VarVal(n) })
		h.op("Assign(1)", -2, func() { cb.Assign(1) })
		h.op("EndStmt", 0, func() { cb.EndStmt() })
		h.stmtBoundary("assign")
	case 2: // env.F2(1+2, "s")
		h.op("Val(F2)", 1, func() { cb.Val(h.env.Ref("F2")) })
		h.op("Val(1)", 1, func() { cb.Val(1) })
		h.op("Val(2)", 1, func() { cb.Val(2) })
		h.op("BinaryOp(+)", -1, func() { cb.BinaryOp(token.ADD) })
		h.op("Val(s)", 1, func() { cb.Val("s") })
		h.op("Call(2)", -2, func() { cb.Call(2) })
		h.op("EndStmt", -1, func() { cb.EndStmt() })
		h.stmtBoundary("call3")
	}
}

type construct struct {
	name  string
	open  func(h *harness)
	close func(h *harness)
	fnNew bool // opens a new function: labels of the outer one are invisible, Func() changes
	vb    bool
}

func constructs() []construct {
	tInt := types.Typ[types.Int]
	closureOpen := func(h *harness) {
		h.op("NewClosure+BodyStart", 0, func() { h.cb.NewClosure(nil, nil, false).BodyStart(h.b.Pkg) })
	}
	return []construct{
		{name: "block", open: func(h *harness) { h.op("Block", 0, func() { h.cb.Block() }) }, close: func(h *harness) { h.op("End(block)", 0, func() { h.cb.End() }) }},
		{name: "vblock", vb: true, open: func(h *harness) { h.op("VBlock", 0, func() { h.cb.VBlock() }) }, close: func(h *harness) { h.op("End(vblock)", 0, func() { h.cb.End() }) }},
		{name: "closure-stmt", fnNew: true, open: closureOpen, close: func(h *harness) {
			h.op("End(closure)", 1, func() { h.cb.End() })
			h.op("Call(0)", 0, func() { h.cb.Call(0) })
			h.op("EndStmt", -1, func() { h.cb.EndStmt() })
		}},
		{name: "closure-varinit", fnNew: true, open: func(h *harness) {
			n := h.name()
			h.op("NewVarStart", 0, func() { h.cb.NewVarStart(nil, n) })
			closureOpen(h)
		}, close: func(h *harness) {
			h.op("End(closure)", 1, func() { h.cb.End() })
			h.op("EndInit(1)", -1, func() { h.cb.EndInit(1) })
		}},
		{name: "closure-define", fnNew: true, open: func(h *harness) {
			n := h.name()
			h.op("DefineVarStart", 0, func() { h.cb.DefineVarStart(token.NoPos, n) })
			closureOpen(h)
		}, close: func(h *harness) {
			h.op("End(closure)", 1, func() { h.cb.End() })
			h.op("EndInit(1)", -1, func() { h.cb.EndInit(1) })
		}},
		{name: "closure-arg", fnNew: true, open: func(h *harness) {
			h.op("Val(FAny)", 1, func() { h.cb.Val(h.env.Ref("FAny")) })
			closureOpen(h)
		}, close: func(h *harness) {
			h.op("End(closure)", 1, func() { h.cb.End() })
			h.op("Call(1)", -1, func() { h.cb.Call(1) })
			h.op("EndStmt", -1, func() { h.cb.EndStmt() })
		}},
		{name: "if-then", open: func(h *harness) {
			h.op("If", 0, func() { h.cb.If() })
			h.op("Val(VBool)", 1, func() { h.cb.Val(h.env.Ref("VBool")) })
			h.op("Then", -1, func() { h.cb.Then() })
		}, close: func(h *harness) { h.op("End(if)", 0, func() { h.cb.End() }) }},
		{name: "if-else", open: func(h *harness) {
			h.op("If", 0, func() { h.cb.If() })
			h.op("Val(VBool)", 1, func() { h.cb.Val(h.env.Ref("VBool")) })
			h.op("Then", -1, func() { h.cb.Then() })
			h.op("Else", 0, func() { h.cb.Else() })
		}, close: func(h *harness) { h.op("End(if)", 0, func() { h.cb.End() }) }},
		{name: "if-init", open: func(h *harness) {
			n := h.name()
			h.op("If", 0, func() { h.cb.If() })
			h.op("DefineVarStart", 0, func() { h.cb.DefineVarStart(token.NoPos, n) })
			h.op("Val(1)", 1, func() { h.cb.Val(1) })
			h.op("EndInit(1)", -1, func() { h.cb.EndInit(1) })
			h.op("VarVal", 1, func() { h.cb.VarVal(n) })
			h.op("Val(0)", 1, func() { h.cb.Val(0) })
			h.op("BinaryOp(>)", -1, func() { h.cb.BinaryOp(token.GTR) })
			h.op("Then", -1, func() { h.cb.Then() })
		}, close: func(h *harness) { h.op("End(if)", 0, func() { h.cb.End() }) }},
		{name: "for", open: func(h *harness) {
			h.op("For", 0, func() { h.cb.For() })
			h.op("Val(VBool)", 1, func() { h.cb.Val(h.env.Ref("VBool")) })
			h.op("Then", -1, func() { h.cb.Then() })
		}, close: func(h *harness) { h.op("End(for)", 0, func() { h.cb.End() }) }},
		{name: "for-post", open: func(h *harness) {
			h.op("For", 0, func() { h.cb.For() })
			h.op("None", 1, func() { h.cb.None() })
			h.op("Then", -1, func() { h.cb.Then() })
		}, close: func(h *harness) {
			h.op("Post", 0, func() { h.cb.Post() })
			h.op("VarRef(VInt)", 1, func() { h.cb.VarRef(h.env.Ref("VInt")) })
			h.op("IncDec", -1, func() { h.cb.IncDec(token.INC) })
			h.op("End(for)", 0, func() { h.cb.End() })
		}},
		{name: "range", open: func(h *harness) {
			n := h.name()
			h.op("ForRange", 0, func() { h.cb.ForRange(n) })
			h.op("Val(VSl)", 1, func() { h.cb.Val(h.env.Ref("VSl")) })
			h.op("RangeAssignThen", -1, func() { h.cb.RangeAssignThen(token.NoPos) })
			h.op("VarRef(_)", 1, func() { h.cb.VarRef(nil) })
			h.op("VarVal", 1, func() { h.cb.VarVal(n) })
			h.op("Assign(1)", -2, func() { h.cb.Assign(1) })
			h.op("EndStmt", 0, func() { h.cb.EndStmt() })
		}, close: func(h *harness) { h.op("End(range)", 0, func() { h.cb.End() }) }},
		{name: "switch-case", open: func(h *harness) {
			h.op("Switch", 0, func() { h.cb.Switch() })
			h.op("Val(VInt)", 1, func() { h.cb.Val(h.env.Ref("VInt")) })
			h.op("Then", -1, func() { h.cb.Then() })
			h.op("Case", 0, func() { h.cb.Case() })
			h.op("Val(1)", 1, func() { h.cb.Val(1) })
			h.op("Val(2)", 1, func() { h.cb.Val(2) })
			h.op("Then(case)", -2, func() { h.cb.Then() })
		}, close: func(h *harness) {
			h.op("End(case)", 0, func() { h.cb.End() })
			h.op("End(switch)", 0, func() { h.cb.End() })
		}},
		{name: "switch-default", open: func(h *harness) {
			h.op("Switch", 0, func() { h.cb.Switch() })
			h.op("None", 1, func() { h.cb.None() })
			h.op("Then", -1, func() { h.cb.Then() })
			h.op("DefaultThen", 0, func() { h.cb.DefaultThen() })
		}, close: func(h *harness) {
			h.op("End(case)", 0, func() { h.cb.End() })
			h.op("End(switch)", 0, func() { h.cb.End() })
		}},
		{name: "typeswitch-case", open: func(h *harness) {
			n := h.name()
			h.op("TypeSwitch", 0, func() { h.cb.TypeSwitch(n) })
			h.op("Val(VAny)", 1, func() { h.cb.Val(h.env.Ref("VAny")) })
			h.op("TypeAssertThen", -1, func() { h.cb.TypeAssertThen() })
			h.op("TypeCase", 0, func() { h.cb.TypeCase() })
			h.op("Typ(int)", 1, func() { h.cb.Typ(tInt) })
			h.op("Then(typecase)", -1, func() { h.cb.Then() })
			h.op("VarRef(_)", 1, func() { h.cb.VarRef(nil) })
			h.op("VarVal", 1, func() { h.cb.VarVal(n) })
			h.op("Assign(1)", -2, func() { h.cb.Assign(1) })
			h.op("EndStmt", 0, func() { h.cb.EndStmt() })
		}, close: func(h *harness) {
			h.op("End(typecase)", 0, func() { h.cb.End() })
			h.op("End(typeswitch)", 0, func() { h.cb.End() })
		}},
		{name: "select-comm", open: func(h *harness) {
			h.op("Select", 0, func() { h.cb.Select() })
			h.op("CommCase", 0, func() { h.cb.CommCase() })
			h.op("Val(VCh)", 1, func() { h.cb.Val(h.env.Ref("VCh")) })
			h.op("UnaryOp(<-)", 0, func() { h.cb.UnaryOp(token.ARROW) })
			h.op("EndStmt", -1, func() { h.cb.EndStmt() })
			h.op("Then(comm)", 0, func() { h.cb.Then() })
		}, close: func(h *harness) {
			h.op("End(comm)", 0, func() { h.cb.End() })
			h.op("End(select)", 0, func() { h.cb.End() })
		}},
		{name: "select-default", open: func(h *harness) {
			h.op("Select", 0, func() { h.cb.Select() })
			h.op("CommDefaultThen", 0, func() { h.cb.CommDefaultThen() })
		}, close: func(h *harness) {
			h.op("End(comm)", 0, func() { h.cb.End() })
			h.op("End(select)", 0, func() { h.cb.End() })
		}},
		{name: "inline-closure", fnNew: true, open: func(h *harness) {
			sig := types.NewSignatureType(nil, nil, nil, nil, nil, false)
			h.op("CallInlineClosureStart", 0, func() { h.cb.CallInlineClosureStart(sig, 0, false) })
		}, close: func(h *harness) { h.op("End(inline)", 0, func() { h.cb.End() }) }},
		{name: "labeled-for", open: func(h *harness) {
			n := "L" + h.name()
			var l *gogen.Label
			h.op("NewLabel", 0, func() { l = h.cb.NewLabel(token.NoPos, token.NoPos, n) })
			h.op("Label", 0, func() { h.cb.Label(l) })
			h.op("For", 0, func() { h.cb.For() })
			h.op("Val(VBool)", 1, func() { h.cb.Val(h.env.Ref("VBool")) })
			h.op("Then", -1, func() { h.cb.Then() })
			h.op("Break(L)", 0, func() { h.cb.Break(l) })
		}, close: func(h *harness) { h.op("End(for)", 0, func() { h.cb.End() }) }},
	}
}

// history: chain of construct indices; pre/post = number of simple statements around the
// nested construct at every level; files = current-file regime.
type history struct {
	Chain []int `json:"chain"`
	Pre   int   `json:"pre"`
	Post  int   `json:"post"`
	Files int   `json:"files"`
	Rot   int   `json:"rot,omitempty"` // rotation of the simple-statement kinds (0: call/define/call3 first, 3: const-expr/recv/send first)
}

func (hs history) String(cs []construct) string {
	var n []string
	for _, i := range hs.Chain {
		n = append(n, cs[i].name)
	}
	return fmt.Sprintf("%s pre=%d post=%d files=%d rot=%d", strings.Join(n, ">"), hs.Pre, hs.Post, hs.Files, hs.Rot)
}

var theImp *fixture.Importer

func execute(hs history) (fails []string, ops int, text string) {
	if theImp == nil {
		theImp = ex.Importer(nil)
	}
	cs := constructs()
	b := gx.New(theImp, gx.Options{DefaultGo: ""})
	h := &harness{b: b, rot: hs.Rot}
	out := gx.Try(func() {
		pkg := b.Pkg
		h.env = pkg.Import(ex.EnvPath)
		if hs.Files == 1 {
			pkg.SetCurFile("b.go", true)
		}
		h.cb = pkg.NewFunc(nil, "f", nil, nil, false).BodyStart(pkg)
		cb := h.cb
		top := h.snap()
		if top.len != 0 {
			h.fail("stack not empty at function start")
		}
		out := cb.NewLabel(token.NoPos, token.NoPos, "OUT")
		cb.Label(out)
		h.bases = []int{cb.InternalStack().Len()}
		var rec func(level int)
		rec = func(level int) {
			for i := 0; i < hs.Pre; i++ {
				h.simple(level + i)
			}
			if level < len(hs.Chain) {
				c := cs[hs.Chain[level]]
				before := h.snap()
				if hs.Files == 2 && level == 1 {
					pkg.SetCurFile("b.go", true)
				}
				c.open(h)
				inside := h.snap()
				h.bases = append(h.bases, inside.len)
				// model of the frame inside
				if c.fnNew {
					if inside.fn == before.fn {
						h.fail("inside %s the current function did not change", c.name)
					}
					if inside.label {
						h.fail("inside %s the label of the enclosing function is visible", c.name)
					}
				} else {
					if inside.fn != before.fn {
						h.fail("inside %s the current function changed", c.name)
					}
					if inside.label != before.label {
						h.fail("inside %s label visibility changed", c.name)
					}
				}
				if inside.scope == before.scope {
					h.fail("inside %s no new scope was opened", c.name)
				}
				if c.vb != inside.vb && !(before.vb && !c.vb && false) {
					if c.vb || inside.vb {
						h.fail("inside %s InVBlock()=%v, model %v", c.name, inside.vb, c.vb)
					}
				}
				rec(level + 1)
				h.bases = h.bases[:len(h.bases)-1]
				c.close(h)
				if hs.Files == 2 && level == 1 {
					pkg.SetCurFile("", true)
				}
				after := h.snap()
				if after != before {
					h.fail("closing %s did not restore the frame: stack %d->%d scope-same=%v func-same=%v vblock %v->%v label %v->%v",
						c.name, before.len, after.len, before.scope == after.scope, before.fn == after.fn, before.vb, after.vb, before.label, after.label)
				}
				h.stmtBoundary("construct " + c.name)
			}
			for i := 0; i < hs.Post; i++ {
				h.simple(level + i + 1)
			}
		}
		rec(0)
		cb.Goto(out)
		cb.End()
		if l := cb.InternalStack().Len(); l != 0 {
			h.fail("stack height %d after the function was closed", l)
		}
		if cb.Func() != nil || cb.Scope() != pkg.Types.Scope() {
			h.fail("function/scope context not restored to package level")
		}
	})
	if out.Panicked {
		h.fails = append(h.fails, "builder panicked on a well-formed history: "+out.Msg+" after ops: "+strings.Join(h.trace[max(0, len(h.trace)-12):], " "))
	}
	if len(b.Errs) > 0 {
		h.fails = append(h.fails, "builder reported errors on a well-formed history: "+strings.Join(b.Errs, "; "))
	}
	if len(h.fails) == 0 && hs.Files != 2 {
		// (regime 2 switches the current file in the middle of a body: balance is checked, but the
		// import bookkeeping of such a history belongs to the file current at reference time, so
		// the text is not expected to type-check and is none of this property's business)
		texts, err := oracle.WriteAll(b.Pkg)
		for _, t := range texts {
			text += t
		}
		if err != nil {
			h.fails = append(h.fails, "writing failed: "+err.Error())
		} else if c := oracle.Check(texts, theImp, gx.PkgPath); !c.OK() {
			h.fails = append(h.fails, "emitted package rejected by go/types: "+c.ErrString())
		}
	}
	return h.fails, h.ops, text
}

func max(a, b int) int {
	if a > b {
		return a
	}
	return b
}

func each(thorough bool, yield0 func(hs history)) {
	// every history with at least one simple statement is run under both rotations of the statement kinds
	yield := func(hs history) {
		yield0(hs)
		if hs.Pre+hs.Post > 0 {
			hs.Rot = 3
			yield0(hs)
		}
	}
	n := len(constructs())
	depth := 3
	if thorough {
		depth = 4
	}
	var chain []int
	var rec func(d int)
	rec = func(d int) {
		for _, pp := range [][2]int{{0, 0}, {1, 0}, {0, 1}, {2, 1}} {
			if len(chain) == depth && pp != [2]int{1, 1} || true {
				for files := 0; files < 3; files++ {
					if files > 0 && (pp != [2]int{1, 0} || len(chain) < 2) {
						continue
					}
					yield(history{Chain: append([]int{}, chain...), Pre: pp[0], Post: pp[1], Files: files})
				}
			}
		}
		if d == depth {
			return
		}
		for i := 0; i < n; i++ {
			chain = append(chain, i)
			rec(d + 1)
			chain = chain[:len(chain)-1]
		}
	}
	rec(0)
	// mechanism chains of depth 8: block, vblock, closure-stmt, closure-varinit
	reps := []int{0, 1, 2, 3}
	L := 8
	total := 1
	for i := 0; i < L; i++ {
		total *= len(reps)
	}
	for code := 0; code < total; code++ {
		c := make([]int, L)
		x := code
		for i := 0; i < L; i++ {
			c[i] = reps[x%len(reps)]
			x /= len(reps)
		}
		yield(history{Chain: c, Pre: 1, Post: 1})
	}
}

func run(c *vf.Ctx) {
	cs := constructs()
	var idx int64
	prefixes := map[string]struct{}{}
	each(c.Thorough(), func(hs history) {
		i := idx
		idx++
		if !c.MineIdx(i) {
			return
		}
		if c.Expired() {
			if i%512 == 0 {
				c.Cap("wall budget")
			}
			return
		}
		fails, ops, text := execute(hs)
		c.Eval(1)
		c.Transition(ops)
		c.Trace(1)
		key := fmt.Sprint(hs.Chain)
		if _, ok := prefixes[key]; !ok {
			prefixes[key] = struct{}{}
			c.State(1)
		}
		if len(hs.Chain) >= 2 {
			c.Distinct(text)
		}
		c.Tally(fmt.Sprintf("depth:%d", len(hs.Chain)), 1)
		if len(fails) == 0 {
			c.Outcome("balanced")
			if i%7919 == 0 {
				c.Sample(map[string]any{"history": hs.String(cs), "operations": ops})
			}
			return
		}
		// class: the innermost two constructs + kind of failure
		var names []string
		for _, k := range hs.Chain {
			names = append(names, cs[k].name)
		}
		tail := names
		if len(tail) > 2 {
			tail = tail[len(tail)-2:]
		}
		kind := fails[0]
		if j := strings.Index(kind, " after ops"); j > 0 {
			kind = kind[:j]
		}
		kind = strings.Map(func(r rune) rune {
			if r >= '0' && r <= '9' {
				return '#'
			}
			return r
		}, kind)
		if len(kind) > 90 {
			kind = kind[:90]
		}
		c.Outcome("fail:" + kind)
		c.Violation(strings.Join(tail, ">")+"|"+kind, hs.String(cs)+"\n"+strings.Join(fails, "\n")+"\n"+text, hs)
	})
}

func replay(raw json.RawMessage) (string, bool) {
	var hs history
	if err := json.Unmarshal(raw, &hs); err != nil {
		return err.Error(), false
	}
	fails, ops, text := execute(hs)
	if len(fails) == 0 {
		return fmt.Sprintf("history %s: balanced after each of %d operations\n%s", hs.String(constructs()), ops, text), false
	}
	return hs.String(constructs()) + "\n" + strings.Join(fails, "\n") + "\n" + text, true
}
