// Package c03: types the builder reports equal the types Go assigns to the emitted code.
package c03

import (
	"encoding/json"
	"fmt"
	"go/ast"
	"go/types"
	"strings"

	"verifengine/ex"
	"verifengine/gx"
	"verifengine/oracle"
	"verifengine/vf"
)

func init() {
	vf.Register(&vf.Prop{
		ID: "C03", Level: "exploration",
		Rule: "the expression space of C01 (every single-operator expression over 78 atoms; atoms and single-operator expressions over 18 atoms; depth-2 over a reduced alphabet) in the value-flow uses (`_ = e`, `x := e`, `var x = e`, `const c = e`, `x, y := e`, range with 1/2 variables, argument to func(any)); " +
			"for every accepted program whose emitted text type-checks: (1) every IR sub-expression is paired with its emitted syntax by parallel traversal and the type recorded when the builder pushed it is compared with the type go/types gives the emitted sub-expression evaluated ON ITS OWN (types.Eval of the emitted syntax: no context conversion; typed: identical canonical type; untyped: same untyped kind); " +
			"(2) every declared object (x, y, c, k, v) as reported by the builder's scope right after the declaration vs go/types' Info.Defs; (3) selector nodes: the object passed to Recorder.Member vs go/types' selection. non-trivial = accepted with >=2 paired nodes; distinct = emitted text",
		Assumptions: []string{"go/types 1.23.5 assigns the reference types", "an untyped builder type corresponds to itself or to the type go/types records once the context has converted the operand"},
		Run:         run,
		Replay:      replay,
	})
}

var useNames = map[string]bool{"blank": true, "define": true, "var-infer": true, "const": true, "define2": true, "range1": true, "range2": true, "arg-any": true, "return:any": true, "var:any": true}

type payload struct {
	Expr string `json:"expr"`
	Use  string `json:"use"`
}

type finding struct{ class, detail string }

func untypedKind(t types.Type) (types.BasicKind, bool) {
	b, ok := t.(*types.Basic)
	if ok && b.Info()&types.IsUntyped != 0 {
		return b.Kind(), true
	}
	return 0, false
}

func canonT(t types.Type) string {
	if t == nil {
		return "<no value>"
	}
	if tup, ok := t.(*types.Tuple); ok {
		var s []string
		for i := 0; i < tup.Len(); i++ {
			s = append(s, oracle.Canon(tup.At(i).Type()))
		}
		return "(" + strings.Join(s, ",") + ")"
	}
	if _, ok := t.(interface{ Underlying() types.Type }); ok {
		switch t.(type) {
		case *types.Basic, *types.Pointer, *types.Slice, *types.Array, *types.Map, *types.Chan, *types.Signature, *types.Struct, *types.Interface, *types.Named, *types.Alias, *types.TypeParam, *types.Union:
			return oracle.Canon(t)
		}
	}
	return fmt.Sprintf("gogen:%T", t) // builder-internal type (TypeType, instruction, overload ...)
}

func judge(r *ex.Run) (out []finding, pairs int) {
	if !r.Accepted || r.Emitted == nil || !r.Emitted.OK() {
		return nil, 0
	}
	root := ex.RootExpr(r.Emitted.Files)
	if root != nil {
		ex.Match(r.E, root, func(e *ex.E, a ast.Expr) {
			rec, ok := r.Recs[e]
			if !ok {
				return
			}
			tv, ok := r.Emitted.Info.Types[a]
			if !ok {
				return
			}
			switch e.K {
			case ex.KTypeArg:
				return
			case ex.KUni:
				if tv.IsBuiltin() {
					return
				}
			}
			if tv.IsType() || tv.IsBuiltin() {
				return
			}
			if sig, ok := rec.Type.(*types.Signature); ok && sig.TypeParams() != nil {
				return // generic function operand: go/types records the instantiated signature
			}
			pairs++
			site := e.Root()
			if e != r.E {
				site = "sub:" + site
			}
			if e.Lhs == 2 {
				return // comma-ok forms: the builder reports the pair, an expression on its own has one value
			}
			own, err := theOwn.Eval(types.ExprString(a))
			if err != nil {
				return
			}
			if own.IsVoid() || own.Type == nil {
				if rec.Type != nil {
					out = append(out, finding{fmt.Sprintf("%s|%s|builder=%s|go=<no value>", site, r.U.Name, canonT(rec.Type)),
						fmt.Sprintf("`%s`: builder reports %s, go/types: no value", e.Render(), canonT(rec.Type))})
				}
				return
			}
			if rec.Type == nil {
				out = append(out, finding{fmt.Sprintf("%s|%s|builder=<no value>|go=%s", site, r.U.Name, canonT(own.Type)), fmt.Sprintf("`%s`: builder reports no value, go/types %s", e.Render(), own.Type)})
				return
			}
			bk, bu := untypedKind(rec.Type)
			gk, gu := untypedKind(own.Type)
			b, g := canonT(rec.Type), canonT(own.Type)
			if bu {
				b = rec.Type.String()
			}
			if gu {
				g = own.Type.String()
			}
			if bu != gu || (bu && bk != gk) || (!bu && b != g) {
				out = append(out, finding{fmt.Sprintf("%s|%s|builder=%s|go=%s", site, r.U.Name, b, g),
					fmt.Sprintf("`%s` (in `%s`): builder reports %s, go/types (expression on its own) %s", e.Render(), r.E.Render(), b, g)})
			}
			// recorder: selector member objects
			if e.K == ex.KSel && r.Build.Rec != nil {
				if sel, ok := a.(*ast.SelectorExpr); ok {
					var gobj types.Object
					if s := r.Emitted.Info.Selections[sel]; s != nil {
						gobj = s.Obj()
					}
					for _, ev := range r.Build.Rec.Events {
						if ev.Kind != "member" {
							continue
						}
						if src, ok := ev.Src.(*gx.Src); ok && src.Text == e.Render() && gobj != nil && ev.Obj != gobj {
							if !(ev.Obj.Name() == gobj.Name() && ev.Obj.Pkg() == gobj.Pkg() && ev.Obj.Type().String() == gobj.Type().String()) {
								out = append(out, finding{fmt.Sprintf("recorder:%s|%s|member-object-differs", site, r.U.Name),
									fmt.Sprintf("`%s`: Recorder.Member got %v, go/types selects %v", e.Render(), ev.Obj, gobj)})
							}
						}
					}
				}
			}
		})
	}
	// declared objects
	for name, bt := range r.Decls {
		var gobj types.Object
		for id, o := range r.Emitted.Info.Defs {
			if id.Name == name && o != nil {
				if _, isVarOrConst := o.(interface{ Type() types.Type }); isVarOrConst {
					gobj = o
				}
			}
		}
		if gobj == nil {
			continue
		}
		pairs++
		b, g := canonT(bt), canonT(gobj.Type())
		if _, bu := untypedKind(bt); bu {
			if _, gu := untypedKind(gobj.Type()); gu {
				b, g = bt.String(), gobj.Type().String()
			}
		}
		if b != g {
			out = append(out, finding{fmt.Sprintf("decl:%s:%s|%s|builder=%s|go=%s", name, r.E.Root(), r.U.Name, b, g),
				fmt.Sprintf("declared %s in use %s with `%s`: builder scope says %s, go/types says %s", name, r.U.Name, r.E.Render(), b, g)})
		}
	}
	return out, pairs
}

var theOwn *ex.Own

func run(c *vf.Ctx) {
	imp := ex.Importer(nil)
	theOwn = ex.NewOwn(imp)
	plan := ex.Plan{Thorough: c.Thorough(), UseOK: func(u *ex.Use) bool { return useNames[u.Name] }}
	var idx int64
	plan.Each(func(stage string, e *ex.E, u *ex.Use) {
		i := idx
		idx++
		if !c.MineIdx(i) {
			return
		}
		if c.Expired() {
			if i%4096 == 0 {
				c.Cap("wall budget")
			}
			return
		}
		r := ex.Exec(imp, e, u, gx.Options{}, false)
		c.Eval(1)
		c.Tally("stage:"+stage, 1)
		if (i/int64(c.N))%500 == 0 {
			if d := ex.SelfCheck(imp, r, gx.Options{}); d != "" {
				panic("harness self-check failed: " + d)
			}
			c.Tally("selfcheck_real_builtin", 1)
		}
		if !r.Accepted {
			c.Outcome("rejected")
			return
		}
		if r.Emitted == nil || !r.Emitted.OK() {
			c.Tally("accepted_but_illtyped_skipped", 1)
			c.Outcome("ill-typed")
			return
		}
		fs, pairs := judge(r)
		c.Tally("pairs_compared", pairs)
		if pairs >= 2 {
			for _, t := range r.Texts {
				c.Distinct(t)
			}
		}
		if len(fs) == 0 {
			c.Outcome("agree")
			if i%40009 == 0 {
				c.Sample(map[string]any{"expr": e.Render(), "use": u.Name, "pairs": pairs})
			}
		}
		for _, f := range fs {
			c.Outcome("differs")
			c.Violation(f.class, f.detail, payload{e.Render(), u.Name})
		}
	})
	constBlocks(c, &idx)
}

func replay(raw json.RawMessage) (string, bool) {
	var cp constPayload
	if json.Unmarshal(raw, &cp) == nil && len(cp.Block) > 0 {
		class, detail, _ := judgeBlock(cp.Block)
		if class == "" {
			return blockText(cp.Block) + ": builder and go/types agree on every constant's type", false
		}
		return detail, true
	}
	var p payload
	if err := json.Unmarshal(raw, &p); err != nil {
		return err.Error(), false
	}
	imp := ex.Importer(nil)
	theOwn = ex.NewOwn(imp)
	var found *ex.Run
	for _, th := range []bool{false, true} {
		ex.Plan{Thorough: th}.Each(func(stage string, e *ex.E, u *ex.Use) {
			if found == nil && u.Name == p.Use && e.Render() == p.Expr {
				found = ex.Exec(imp, e, u, gx.Options{}, false)
			}
		})
		if found != nil {
			break
		}
	}
	if found == nil {
		return "case not found", false
	}
	fs, pairs := judge(found)
	if len(fs) == 0 {
		return fmt.Sprintf("`%s` in %s: %d type pairs agree", p.Expr, p.Use, pairs), false
	}
	var b strings.Builder
	for _, f := range fs {
		b.WriteString(f.detail + "\n")
	}
	return b.String(), true
}

var _ = promotes

func promotes(from, to types.BasicKind) bool {
	rank := map[types.BasicKind]int{types.UntypedInt: 1, types.UntypedRune: 2, types.UntypedFloat: 3, types.UntypedComplex: 4}
	a, ok1 := rank[from]
	b, ok2 := rank[to]
	return ok1 && ok2 && a <= b
}
