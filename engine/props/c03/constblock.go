package c03

import (
	"fmt"
	"go/ast"
	"go/token"
	"go/types"
	"strings"

	"github.com/goplus/gogen"

	"verifengine/ex"
	"verifengine/gx"
	"verifengine/oracle"
	"verifengine/vf"
)

// Constant declaration groups: every sequence of 1..4 specs over {typed with value, untyped with value,
// implicit repetition} (the first spec is never a repetition); each spec may use iota. The type the builder's
// scope reports for every constant must be the type go/types gives the constant in the emitted group.

type cspec struct {
	Kind string `json:"kind"` // typed | untyped | next
	Typ  string `json:"typ,omitempty"`
	Val  string `json:"val,omitempty"`
}

var cspecs = []cspec{
	{"typed", "int8", "iota"}, {"typed", "uint16", "1 << iota"}, {"typed", "string", `"s"`}, {"typed", "float64", "1.5"},
	{"untyped", "", "iota"}, {"untyped", "", `"x"`}, {"untyped", "", "2.5"}, {"untyped", "", "'r'"},
	{"next", "", ""},
}

func pushConstVal(cb *gogen.CodeBuilder, v string) {
	iota := types.Universe.Lookup("iota")
	switch v {
	case "iota":
		cb.Val(iota)
	case "1 << iota":
		cb.Val(1).Val(iota).BinaryOp(token.SHL)
	case `"s"`, `"x"`:
		cb.Val(&ast.BasicLit{Kind: token.STRING, Value: v})
	case "1.5", "2.5":
		cb.Val(&ast.BasicLit{Kind: token.FLOAT, Value: v})
	case "'r'":
		cb.Val(&ast.BasicLit{Kind: token.CHAR, Value: v})
	default:
		panic("pushConstVal " + v)
	}
}

func basicType(n string) types.Type {
	switch n {
	case "int8":
		return types.Typ[types.Int8]
	case "uint16":
		return types.Typ[types.Uint16]
	case "string":
		return types.Typ[types.String]
	case "float64":
		return types.Typ[types.Float64]
	}
	panic("basicType " + n)
}

type constPayload struct {
	Block []cspec `json:"const_block"`
}

func blockText(b []cspec) string {
	var ss []string
	for i, s := range b {
		switch s.Kind {
		case "typed":
			ss = append(ss, fmt.Sprintf("k%d %s = %s", i, s.Typ, s.Val))
		case "untyped":
			ss = append(ss, fmt.Sprintf("k%d = %s", i, s.Val))
		default:
			ss = append(ss, fmt.Sprintf("k%d", i))
		}
	}
	return "const ( " + strings.Join(ss, "; ") + " )"
}

// judgeBlock builds the group and compares; it returns a violation description or "".
func judgeBlock(b []cspec) (class, detail string, accepted bool) {
	imp := ex.Importer(nil)
	bd := gx.New(imp, gx.Options{})
	pkg := bd.Pkg
	o := gx.Try(func() {
		defs := pkg.NewConstDefs(pkg.Types.Scope())
		for i, s := range b {
			name := fmt.Sprintf("k%d", i)
			switch s.Kind {
			case "typed", "untyped":
				var typ types.Type
				if s.Kind == "typed" {
					typ = basicType(s.Typ)
				}
				v := s.Val
				defs.New(func(cb *gogen.CodeBuilder) int { pushConstVal(cb, v); return 1 }, i, token.NoPos, typ, name)
			default:
				defs.Next(i, token.NoPos, name)
			}
		}
	})
	if o.Panicked || len(bd.Errs) > 0 {
		return "", "", false
	}
	texts, err := oracle.WriteAll(pkg)
	if err != nil {
		return "const-block|write-failed", err.Error(), true
	}
	c := oracle.Check(texts, imp, gx.PkgPath)
	if !c.OK() {
		return "", "", true // ill-typed emitted code is C01's business
	}
	for i := range b {
		name := fmt.Sprintf("k%d", i)
		bo := pkg.Types.Scope().Lookup(name)
		goObj := c.Pkg.Scope().Lookup(name)
		if bo == nil || goObj == nil {
			return "const-block|missing|" + blockText(b), "constant " + name + " missing", true
		}
		bt, gt := oracle.Canon(bo.Type()), oracle.Canon(goObj.Type())
		if bt != gt {
			return fmt.Sprintf("const-block|%s|builder=%s|go=%s", specKinds(b, i), bt, gt),
				fmt.Sprintf("%s: the builder's scope gives %s the type %s, go/types gives it %s\nemitted:\n%s", blockText(b), name, bt, gt, texts[""]), true
		}
	}
	return "", "", true
}

// specKinds: the shape of the block up to constant i (kinds only), the class of a disagreement.
func specKinds(b []cspec, i int) string {
	var ss []string
	for _, s := range b[:i+1] {
		k := s.Kind
		if s.Kind == "typed" {
			k += ":" + s.Typ
		} else if s.Kind == "untyped" {
			k += ":" + s.Val
		}
		ss = append(ss, k)
	}
	return strings.Join(ss, ",")
}

func constBlocks(c *vf.Ctx, idx *int64) {
	maxLen := 4
	if c.Thorough() {
		maxLen = 5
	}
	var rec func(b []cspec)
	rec = func(b []cspec) {
		if len(b) > 0 {
			k := *idx
			*idx++
			if c.MineIdx(k) {
				class, detail, accepted := judgeBlock(b)
				c.Eval(1)
				c.Tally("stage:const-block", 1)
				if accepted {
					c.Distinct(blockText(b))
					c.Outcome("const-block-compared")
				}
				if class != "" {
					c.Violation(class, detail, constPayload{b})
				}
			}
		}
		if len(b) == maxLen {
			return
		}
		for _, s := range cspecs {
			if len(b) == 0 && s.Kind == "next" {
				continue
			}
			rec(append(append([]cspec{}, b...), s))
		}
	}
	rec(nil)
}
