package c05

import (
	"fmt"
	"go/ast"
	"go/token"
	"go/types"
	"strings"

	"github.com/goplus/gogen"

	"verifengine/fixture"
	"verifengine/gx"
	"verifengine/vf"
)

// The same assignability question asked through each construct of the builder.

var constructNames = []string{"varinit", "assign", "arg", "return", "sliceelt", "arrayelt", "mapval", "structfield", "send", "case"}

type src struct {
	typ  int // index into world.types, or -1 for a constant
	cons int
}

// pushValue pushes the value (variable v of type V, or the constant) on the stack.
func pushValue(w *world, cb *gogen.CodeBuilder, s src) {
	if s.typ >= 0 {
		V := w.types[s.typ]
		if untyped(V.t) {
			_, el, _ := valueOf(V, "1")
			if V.t == types.Typ[types.UntypedNil] {
				cb.Val(nil)
			} else {
				cb.Val(el.Val.(*ast.BasicLit))
			}
			return
		}
		cb.VarVal("v1")
		return
	}
	k := w.cons[s.cons]
	text := k.text
	neg := strings.HasPrefix(text, "-")
	text = strings.TrimPrefix(text, "-")
	switch k.kind {
	case types.UntypedInt:
		cb.Val(&ast.BasicLit{Kind: token.INT, Value: text})
	case types.UntypedFloat:
		cb.Val(&ast.BasicLit{Kind: token.FLOAT, Value: text})
	case types.UntypedRune:
		cb.Val(&ast.BasicLit{Kind: token.CHAR, Value: text})
	case types.UntypedComplex:
		cb.Val(&ast.BasicLit{Kind: token.IMAG, Value: text})
	case types.UntypedString:
		cb.Val(&ast.BasicLit{Kind: token.STRING, Value: text})
	case types.UntypedBool:
		cb.Val(types.Universe.Lookup("true"))
	}
	if neg {
		cb.UnaryOp(token.SUB)
	}
}

// buildConstruct builds `construct` asking whether the source is assignable to T.
// It returns whether the builder accepted.
func buildConstruct(name string, s src, tIdx int) (accepted bool, panicMsg string) {
	w := newWorld() // fresh package with the named types declared
	pkg := w.b.Pkg
	Tt := w.types[tIdx].t
	out := gx.Try(func() {
		var results *types.Tuple
		if name == "return" {
			results = types.NewTuple(pkg.NewParam(token.NoPos, "", Tt, false))
		}
		var callee *gogen.Func
		if name == "arg" {
			callee = pkg.NewFunc(nil, "callee", types.NewTuple(pkg.NewParam(token.NoPos, "p", Tt, false)), nil, false)
			callee.BodyStart(pkg).End()
		}
		cb := pkg.NewFunc(nil, "f", nil, results, false).BodyStart(pkg)
		if s.typ >= 0 && !untyped(w.types[s.typ].t) {
			cb.NewVar(w.types[s.typ].t, "v1")
		}
		switch name {
		case "varinit":
			cb.NewVarStart(Tt, "x")
			pushValue(w, cb, s)
			cb.EndInit(1)
		case "assign":
			cb.NewVar(Tt, "x")
			cb.VarRef(cb.Scope().Lookup("x"))
			pushValue(w, cb, s)
			cb.Assign(1).EndStmt()
		case "arg":
			cb.Val(callee.Obj())
			pushValue(w, cb, s)
			cb.Call(1).EndStmt()
		case "return":
			pushValue(w, cb, s)
			cb.Return(1)
		case "sliceelt":
			cb.VarRef(nil)
			pushValue(w, cb, s)
			cb.SliceLit(types.NewSlice(Tt), 1).Assign(1).EndStmt()
		case "arrayelt":
			cb.VarRef(nil)
			pushValue(w, cb, s)
			cb.ArrayLit(types.NewArray(Tt, 1), 1).Assign(1).EndStmt()
		case "mapval":
			cb.VarRef(nil).Val("k")
			pushValue(w, cb, s)
			cb.MapLit(types.NewMap(types.Typ[types.String], Tt), 2).Assign(1).EndStmt()
		case "structfield":
			st := types.NewStruct([]*types.Var{types.NewField(0, pkg.Types, "F", Tt, false)}, nil)
			cb.VarRef(nil)
			pushValue(w, cb, s)
			cb.StructLit(st, 1, false).Assign(1).EndStmt()
		case "send":
			cb.NewVar(types.NewChan(types.SendRecv, Tt), "ch")
			cb.VarVal("ch")
			pushValue(w, cb, s)
			cb.Send().EndStmt()
		case "case":
			// case clauses ask comparability against the tag, handled by cmp questions; here:
			// switch x(T) { case v: }
			cb.NewVar(Tt, "x")
			cb.Switch().VarVal("x").Then().Case()
			pushValue(w, cb, s)
			cb.Then().End().End()
		}
		cb.End()
	})
	return w.b.Accepted(out), out.Msg + strings.Join(w.b.Errs, ";")
}

func constructText(w *world, name string, s src, tIdx int) string {
	Tn := w.types[tIdx].name
	var vtext, vdecl string
	if s.typ >= 0 {
		vtext, _, vdecl = valueOf(w.types[s.typ], "1")
	} else {
		vtext = w.cons[s.cons].text
	}
	switch name {
	case "varinit":
		return vdecl + "var x " + Tn + " = " + vtext + "\n_ = x"
	case "assign":
		return vdecl + "var x " + Tn + "\nx = " + vtext
	case "arg":
		return vdecl + "callee := func(p " + Tn + ") {}\ncallee(" + vtext + ")"
	case "return":
		return vdecl + "_ = func() " + Tn + " { return " + vtext + " }"
	case "sliceelt":
		return vdecl + "_ = []" + Tn + "{" + vtext + "}"
	case "arrayelt":
		return vdecl + "_ = [1]" + Tn + "{" + vtext + "}"
	case "mapval":
		return vdecl + "_ = map[string]" + Tn + "{\"k\": " + vtext + "}"
	case "structfield":
		return vdecl + "_ = struct{ F " + Tn + " }{" + vtext + "}"
	case "send":
		return vdecl + "var ch chan " + convText(Tn) + "\nch <- " + vtext
	case "case":
		return vdecl + "var x " + Tn + "\nswitch x {\ncase " + vtext + ":\n}"
	}
	panic(name)
}

func srcName(w *world, s src) string {
	if s.typ >= 0 {
		return w.types[s.typ].name
	}
	return "const " + w.cons[s.cons].text
}

// reducedTypes picks the indices used for the construct grid.
func gridTypes(w *world, thorough bool) []int {
	if thorough {
		var all []int
		for i := range w.types {
			all = append(all, i)
		}
		return all
	}
	want := map[string]bool{"bool": true, "int": true, "int8": true, "uint8": true, "float32": true, "float64": true, "complex128": true, "string": true, "M": true, "Str": true, "Sl": true, "If": true, "A": true,
		"*int": true, "[]int": true, "[2]int": true, "map[string]int": true, "chan int": true, "<-chan int": true, "func(int) int": true, "struct{ X int }": true, "any": true, "interface{ Meth() }": true, "error": true,
		"untyped int": true, "untyped float": true, "untyped nil": true, "untyped string": true, "unsafe.Pointer": true, "St": true, "*St": true, "PS": true}
	var out []int
	for i, t := range w.types {
		if want[t.name] {
			out = append(out, i)
		}
	}
	return out
}

func constructs(c *vf.Ctx, w *world) {
	grid := gridTypes(w, c.Thorough())
	var sources []src
	for _, i := range grid {
		sources = append(sources, src{typ: i})
	}
	for ci := range w.cons {
		sources = append(sources, src{typ: -1, cons: ci})
	}
	var idx int64
	for _, s := range sources {
		for _, j := range grid {
			if untyped(w.types[j].t) {
				continue
			}
			i := idx
			idx++
			if !c.MineIdx(i) {
				continue
			}
			if c.Expired() {
				c.Cap("wall budget (constructs)")
				return
			}
			q := map[string]string{}
			for _, name := range constructNames {
				q[name] = constructText(w, name, s, j)
			}
			want, msgs := oracleAll(q)
			var verd []string
			for _, name := range constructNames {
				got, msg := buildConstruct(name, s, j)
				c.Eval(1)
				c.Distinct(fmt.Sprintf("construct|%s|%s|%d", name, srcName(w, s), j))
				verd = append(verd, fmt.Sprintf("%s=%v", name, got))
				if got != want[name] {
					c.Violation(fmt.Sprintf("construct:%s|%s|%s|builder=%v,go=%v", name, srcName(w, s), w.types[j].name, got, want[name]),
						fmt.Sprintf("%s with %s into %s: builder accepted=%v (%s), go/types accepts=%v %s\nprogram:\n%s", name, srcName(w, s), w.types[j].name, got, msg, want[name], msgs[name], q[name]),
						payload{"construct:" + name, srcName(w, s), w.types[j].name})
				} else {
					c.Outcome(fmt.Sprintf("construct-agree=%v", got))
				}
			}
		}
	}
}

func replayConstruct(p payload) (string, bool) {
	w := newWorld()
	name := strings.TrimPrefix(p.Pred, "construct:")
	var s src
	found := false
	for i, t := range w.types {
		if t.name == p.V {
			s, found = src{typ: i}, true
		}
	}
	for i, k := range w.cons {
		if "const "+k.text == p.V {
			s, found = src{typ: -1, cons: i}, true
		}
	}
	tj := -1
	for j, t := range w.types {
		if t.name == p.T {
			tj = j
		}
	}
	if !found || tj < 0 {
		return "case not found", false
	}
	q := map[string]string{name: constructText(w, name, s, tj)}
	want, msgs := oracleAll(q)
	got, msg := buildConstruct(name, s, tj)
	return fmt.Sprintf("%s with %s into %s: builder accepted=%v (%s); go/types accepts=%v %s\n%s", name, p.V, p.T, got, msg, want[name], msgs[name], q[name]), got != want[name]
}

var _ = fixture.New
