// Package c05: assignability, comparability and convertibility verdicts match the Go spec.
package c05

import (
	"encoding/json"
	"fmt"
	"go/ast"
	"go/constant"
	"go/token"
	"go/types"
	"strings"

	"github.com/goplus/gogen"

	"verifengine/fixture"
	"verifengine/gx"
	"verifengine/oracle"
	"verifengine/vf"
)

func init() {
	vf.Register(&vf.Prop{
		ID: "C05", Level: "exploration",
		Rule: "closed universe of 62 types (18 basic, 7 untyped incl. nil, 15 named/alias forms over int/string/float64/bool/slice/map/chan/func/struct/pointer/interface, 22 composite) and 49 untyped constants (incl. runes beyond int8/uint8/uint16) at every integer/float boundary: " +
			"ALL ordered pairs (V,T) for AssignableTo, ConvertibleTo and ComparableTo (both operand orders, symmetry), all (constant,T) for AssignableConv, Default for every type; then the same question asked through 9 constructs " +
			"(var init, assignment, call argument, return, slice/array/map-value/struct-field element, case clause, send) on the real builder, each in a fresh package. Oracle: go/types on one-statement programs (`var _ T = v`, `_ = T(v)`, `_ = v == w`). " +
			"non-trivial = pairs of distinct types; distinct = predicate x V x T",
		Assumptions: []string{"go/types 1.23.5 verdicts on one-statement programs are the specification", "default configuration only (no implicit-cast hook, no big-number types)"},
		Run:         run,
		Replay:      replay,
	})
}

const preamble = `package p

import "unsafe"

type M int
type Str string
type F64 float64
type B bool
type Sl []int
type Mp map[string]int
type Ch chan int
type Fn func(int) int
type St struct{ X int }
type PS *St
type If interface{ Meth() }
type E interface{}
type A = int
type AS = []int

func (M) Meth() {}

var _ unsafe.Pointer
`

type utype struct {
	name string // stable descriptor, also valid Go type text in the oracle package
	t    types.Type
}

type uconst struct {
	text string
	kind types.BasicKind
	val  constant.Value
}

type world struct {
	b     *gx.Build
	types []utype
	cons  []uconst
}

func newWorld() *world {
	imp := fixture.New(nil, false)
	b := gx.New(imp, gx.Options{})
	pkg := b.Pkg
	T := types.Typ
	w := &world{b: b}
	add := func(name string, t types.Type) types.Type {
		w.types = append(w.types, utype{name, t})
		return t
	}
	for _, k := range []types.BasicKind{types.Bool, types.Int, types.Int8, types.Int16, types.Int32, types.Int64, types.Uint, types.Uint8, types.Uint16, types.Uint32, types.Uint64, types.Uintptr,
		types.Float32, types.Float64, types.Complex64, types.Complex128, types.String} {
		add(T[k].Name(), T[k])
	}
	add("unsafe.Pointer", T[types.UnsafePointer])
	p := func(n string, t types.Type) *types.Var { return types.NewParam(0, pkg.Types, n, t) }
	stU := types.NewStruct([]*types.Var{types.NewField(0, pkg.Types, "X", T[types.Int], false)}, nil)
	methSig := types.NewSignatureType(nil, nil, nil, nil, nil, false)
	ifU := types.NewInterfaceType([]*types.Func{types.NewFunc(0, pkg.Types, "Meth", methSig)}, nil).Complete()
	fnU := types.NewSignatureType(nil, nil, nil, types.NewTuple(p("", T[types.Int])), types.NewTuple(p("", T[types.Int])), false)
	m := add("M", pkg.NewType("M").InitType(pkg, T[types.Int]))
	add("Str", pkg.NewType("Str").InitType(pkg, T[types.String]))
	add("F64", pkg.NewType("F64").InitType(pkg, T[types.Float64]))
	add("B", pkg.NewType("B").InitType(pkg, T[types.Bool]))
	add("Sl", pkg.NewType("Sl").InitType(pkg, types.NewSlice(T[types.Int])))
	add("Mp", pkg.NewType("Mp").InitType(pkg, types.NewMap(T[types.String], T[types.Int])))
	add("Ch", pkg.NewType("Ch").InitType(pkg, types.NewChan(types.SendRecv, T[types.Int])))
	add("Fn", pkg.NewType("Fn").InitType(pkg, fnU))
	st := add("St", pkg.NewType("St").InitType(pkg, stU))
	add("PS", pkg.NewType("PS").InitType(pkg, types.NewPointer(st)))
	add("If", pkg.NewType("If").InitType(pkg, ifU))
	add("E", pkg.NewType("E").InitType(pkg, types.NewInterfaceType(nil, nil).Complete()))
	add("A", pkg.AliasType("A", T[types.Int]))
	add("AS", pkg.AliasType("AS", types.NewSlice(T[types.Int])))
	// method M.Meth so that M implements If
	recv := pkg.NewParam(token.NoPos, "", m, false)
	pkg.NewFunc(recv, "Meth", nil, nil, false).BodyStart(pkg).End()
	errT := types.Universe.Lookup("error").Type()
	add("*int", types.NewPointer(T[types.Int]))
	add("*M", types.NewPointer(m))
	add("*St", types.NewPointer(st))
	add("[]int", types.NewSlice(T[types.Int]))
	add("[]M", types.NewSlice(m))
	add("[2]int", types.NewArray(T[types.Int], 2))
	add("[3]int", types.NewArray(T[types.Int], 3))
	add("map[string]int", types.NewMap(T[types.String], T[types.Int]))
	add("chan int", types.NewChan(types.SendRecv, T[types.Int]))
	add("<-chan int", types.NewChan(types.RecvOnly, T[types.Int]))
	add("chan<- int", types.NewChan(types.SendOnly, T[types.Int]))
	add("func(int) int", fnU)
	add("func()", types.NewSignatureType(nil, nil, nil, nil, nil, false))
	add("struct{ X int }", stU)
	add("struct{ X int `t` }", types.NewStruct([]*types.Var{types.NewField(0, pkg.Types, "X", T[types.Int], false)}, []string{"t"}))
	add("any", gogen.TyAny)
	add("interface{ Meth() }", ifU)
	add("error", errT)
	add("[]byte", types.NewSlice(types.Universe.Lookup("byte").Type()))
	add("[]any", types.NewSlice(gogen.TyAny))
	add("func(...int)", types.NewSignatureType(nil, nil, nil, types.NewTuple(p("", types.NewSlice(T[types.Int]))), nil, true))
	add("*[2]int", types.NewPointer(types.NewArray(T[types.Int], 2)))
	for _, k := range []types.BasicKind{types.UntypedBool, types.UntypedInt, types.UntypedRune, types.UntypedFloat, types.UntypedComplex, types.UntypedString, types.UntypedNil} {
		add(T[k].Name(), T[k])
	}
	ic := func(s string) { w.cons = append(w.cons, uconst{s, types.UntypedInt, constant.MakeFromLiteral(strings.TrimPrefix(s, "-"), token.INT, 0)}) }
	for _, s := range []string{"0", "1", "-1", "127", "128", "-128", "-129", "255", "256", "32767", "32768", "-32768", "-32769", "65535", "65536", "2147483647", "2147483648", "-2147483648", "-2147483649",
		"4294967295", "4294967296", "9223372036854775807", "9223372036854775808", "-9223372036854775808", "-9223372036854775809", "18446744073709551615", "18446744073709551616"} {
		ic(s)
		if strings.HasPrefix(s, "-") {
			c := &w.cons[len(w.cons)-1]
			c.val = constant.UnaryOp(token.SUB, c.val, 0)
		}
	}
	fc := func(s string) {
		v := constant.MakeFromLiteral(strings.TrimPrefix(s, "-"), token.FLOAT, 0)
		if strings.HasPrefix(s, "-") {
			v = constant.UnaryOp(token.SUB, v, 0)
		}
		w.cons = append(w.cons, uconst{s, types.UntypedFloat, v})
	}
	for _, s := range []string{"0.5", "1.0", "-1.0", "0.0", "3e38", "3.5e38", "1e308", "1e309", "255.0", "256.0"} {
		fc(s)
	}
	w.cons = append(w.cons,
		uconst{"'a'", types.UntypedRune, constant.MakeInt64('a')},
		uconst{"'\u00e9'", types.UntypedRune, constant.MakeInt64(0xe9)},
		uconst{"'\u3042'", types.UntypedRune, constant.MakeInt64(0x3042)},
		uconst{"'\U00010000'", types.UntypedRune, constant.MakeInt64(0x10000)},
		uconst{"'\U0010ffff'", types.UntypedRune, constant.MakeInt64(0x10ffff)},
		uconst{"1i", types.UntypedComplex, constant.MakeFromLiteral("1i", token.IMAG, 0)},
		uconst{"0i", types.UntypedComplex, constant.MakeFromLiteral("0i", token.IMAG, 0)},
		uconst{`"s"`, types.UntypedString, constant.MakeString("s")},
		uconst{"true", types.UntypedBool, constant.MakeBool(true)},
	)
	return w
}

func untyped(t types.Type) bool {
	b, ok := t.(*types.Basic)
	return ok && b.Info()&types.IsUntyped != 0
}

// valueText gives an expression text of type t usable in the oracle program, and the
// builder-side element.
func valueOf(t utype, ord string) (text string, elem *gogen.Element, decl string) {
	if untyped(t.t) {
		switch t.t.(*types.Basic).Kind() {
		case types.UntypedBool:
			return "true", &gogen.Element{Val: ast.NewIdent("true"), Type: t.t, CVal: constant.MakeBool(true)}, ""
		case types.UntypedInt:
			return "1", &gogen.Element{Val: &ast.BasicLit{Kind: token.INT, Value: "1"}, Type: t.t, CVal: constant.MakeInt64(1)}, ""
		case types.UntypedRune:
			return "'a'", &gogen.Element{Val: &ast.BasicLit{Kind: token.CHAR, Value: "'a'"}, Type: t.t, CVal: constant.MakeInt64('a')}, ""
		case types.UntypedFloat:
			return "1.5", &gogen.Element{Val: &ast.BasicLit{Kind: token.FLOAT, Value: "1.5"}, Type: t.t, CVal: constant.MakeFromLiteral("1.5", token.FLOAT, 0)}, ""
		case types.UntypedComplex:
			return "1i", &gogen.Element{Val: &ast.BasicLit{Kind: token.IMAG, Value: "1i"}, Type: t.t, CVal: constant.MakeFromLiteral("1i", token.IMAG, 0)}, ""
		case types.UntypedString:
			return `"s"`, &gogen.Element{Val: &ast.BasicLit{Kind: token.STRING, Value: `"s"`}, Type: t.t, CVal: constant.MakeString("s")}, ""
		case types.UntypedNil:
			return "nil", &gogen.Element{Val: ast.NewIdent("nil"), Type: t.t}, ""
		}
	}
	name := "v" + ord
	return name, &gogen.Element{Val: ast.NewIdent(name), Type: t.t}, "var " + name + " " + t.name + "\n"
}

type verdicts map[string]bool

// oracleAll type-checks one program with one function per question and returns which
// functions are error-free.
func oracleAll(questions map[string]string) (verdicts, map[string]string) {
	var b strings.Builder
	b.WriteString(preamble)
	for name, body := range questions {
		fmt.Fprintf(&b, "func q_%s() {\n%s\n}\n", name, body)
	}
	c := oracle.CheckSrc(b.String(), fixture.New(nil, false), gx.PkgPath)
	if len(c.Parse) > 0 {
		panic("c05: oracle program does not parse: " + c.Parse[0] + "\n" + b.String())
	}
	by := c.ErrsByFunc()
	if len(by[""]) > 0 {
		panic("c05: oracle preamble has errors: " + strings.Join(by[""], "; "))
	}
	v := verdicts{}
	msgs := map[string]string{}
	for name := range questions {
		v[name] = len(by["q_"+name]) == 0
		if len(by["q_"+name]) > 0 {
			msgs[name] = by["q_"+name][0]
		}
	}
	return v, msgs
}

type payload struct {
	Pred string `json:"predicate"`
	V    string `json:"v"`
	T    string `json:"t"`
}

func safe(f func() bool) (res bool, panicked string) {
	defer func() {
		if e := recover(); e != nil {
			panicked = fmt.Sprint(e)
		}
	}()
	return f(), ""
}

func run(c *vf.Ctx) {
	w := newWorld()
	pkg := w.b.Pkg
	n := len(w.types)
	report := func(pred, v, t string, got, want bool, extra string) {
		c.Violation(fmt.Sprintf("%s|%s|%s|builder=%v,go=%v", pred, v, t, got, want),
			fmt.Sprintf("%s(%s, %s): builder says %v, go/types says %v %s", pred, v, t, got, want, extra), payload{pred, v, t})
	}
	// ---- predicates on all ordered pairs (row-sharded)
	for i := 0; i < n; i++ {
		if !c.MineIdx(int64(i)) {
			continue
		}
		V := w.types[i]
		q := map[string]string{}
		vtext, _, vdecl := valueOf(V, "1")
		for j := 0; j < n; j++ {
			Tt := w.types[j]
			if untyped(Tt.t) {
				continue
			}
			q[fmt.Sprintf("asg_%d", j)] = vdecl + "var x " + Tt.name + " = " + vtext + "\n_ = x"
			q[fmt.Sprintf("cnv_%d", j)] = vdecl + "_ = " + convText(Tt.name) + "(" + vtext + ")"
		}
		for j := 0; j < n; j++ {
			wtext, _, wdecl := valueOf(w.types[j], "2")
			q[fmt.Sprintf("cmp_%d", j)] = vdecl + wdecl + "_ = " + vtext + " == " + wtext
		}
		want, msgs := oracleAll(q)
		for j := 0; j < n; j++ {
			Tt := w.types[j]
			if !untyped(Tt.t) {
				_, velem, _ := valueOf(V, "1")
				// AssignableTo / AssignableConv with the representative value
				got, pan := safe(func() bool { return gogen.AssignableConv(pkg, V.t, Tt.t, velem) })
				c.Eval(1)
				if i != j {
					c.Distinct(fmt.Sprintf("asg|%d|%d", i, j))
				}
				wv := want[fmt.Sprintf("asg_%d", j)]
				if pan != "" {
					c.Violation("AssignableConv|"+V.name+"|"+Tt.name+"|panic", "AssignableConv panics: "+pan, payload{"AssignableConv", V.name, Tt.name})
				} else if got != wv {
					report("AssignableConv", V.name, Tt.name, got, wv, msgs[fmt.Sprintf("asg_%d", j)])
				} else {
					c.Outcome(fmt.Sprintf("asg=%v", got))
				}
				if !untyped(V.t) {
					got2, _ := safe(func() bool { return gogen.AssignableTo(pkg, V.t, Tt.t) })
					if got2 != wv {
						report("AssignableTo", V.name, Tt.name, got2, wv, msgs[fmt.Sprintf("asg_%d", j)])
					}
				}
				// ConvertibleTo (typed operands and nil)
				if !untyped(V.t) || V.t == types.Typ[types.UntypedNil] {
					gotc, pan := safe(func() bool { return gogen.ConvertibleTo(pkg, V.t, Tt.t) })
					c.Eval(1)
					wc := want[fmt.Sprintf("cnv_%d", j)]
					if pan != "" {
						c.Violation("ConvertibleTo|"+V.name+"|"+Tt.name+"|panic", "ConvertibleTo panics: "+pan, payload{"ConvertibleTo", V.name, Tt.name})
					} else if gotc != wc {
						report("ConvertibleTo", V.name, Tt.name, gotc, wc, msgs[fmt.Sprintf("cnv_%d", j)])
					} else {
						c.Outcome(fmt.Sprintf("cnv=%v", gotc))
					}
				}
			}
			// ComparableTo, both orders
			_, a, _ := valueOf(V, "1")
			_, bb, _ := valueOf(w.types[j], "2")
			g1, p1 := safe(func() bool { return gogen.ComparableTo(pkg, a, bb) })
			_, a2, _ := valueOf(V, "1")
			_, b2, _ := valueOf(w.types[j], "2")
			g2, p2 := safe(func() bool { return gogen.ComparableTo(pkg, b2, a2) })
			c.Eval(2)
			wq := want[fmt.Sprintf("cmp_%d", j)]
			switch {
			case p1 != "" || p2 != "":
				c.Violation("ComparableTo|"+V.name+"|"+w.types[j].name+"|panic", "ComparableTo panics: "+p1+p2, payload{"ComparableTo", V.name, w.types[j].name})
			case g1 != g2:
				c.Violation(fmt.Sprintf("ComparableTo-asymmetric|%s|%s|ab=%v,ba=%v,go=%v", V.name, w.types[j].name, g1, g2, wq),
					fmt.Sprintf("ComparableTo(%s,%s)=%v but ComparableTo(%s,%s)=%v (go/types: %v)", V.name, w.types[j].name, g1, w.types[j].name, V.name, g2, wq), payload{"ComparableTo", V.name, w.types[j].name})
			case g1 != wq:
				report("ComparableTo", V.name, w.types[j].name, g1, wq, msgs[fmt.Sprintf("cmp_%d", j)])
			default:
				c.Outcome(fmt.Sprintf("cmp=%v", g1))
			}
		}
		// Default
		gd, pan := func() (t types.Type, p string) {
			defer func() {
				if e := recover(); e != nil {
					p = fmt.Sprint(e)
				}
			}()
			return gogen.Default(pkg, V.t), ""
		}()
		c.Eval(1)
		if pan != "" || gd != types.Default(V.t) {
			c.Violation("Default|"+V.name, fmt.Sprintf("Default(%s)=%v, go/types %v %s", V.name, gd, types.Default(V.t), pan), payload{"Default", V.name, ""})
		}
	}
	// ---- constants x target types
	for ci, k := range w.cons {
		if !c.MineIdx(int64(ci)) {
			continue
		}
		q := map[string]string{}
		for j, Tt := range w.types {
			if untyped(Tt.t) {
				continue
			}
			q[fmt.Sprintf("k_%d", j)] = "var x " + Tt.name + " = " + k.text + "\n_ = x"
		}
		want, msgs := oracleAll(q)
		for j, Tt := range w.types {
			if untyped(Tt.t) {
				continue
			}
			el := &gogen.Element{Val: &ast.BasicLit{Kind: token.INT, Value: k.text}, Type: types.Typ[k.kind], CVal: k.val}
			got, pan := safe(func() bool { return gogen.AssignableConv(pkg, types.Typ[k.kind], Tt.t, el) })
			c.Eval(1)
			c.Distinct(fmt.Sprintf("const|%d|%d", ci, j))
			wv := want[fmt.Sprintf("k_%d", j)]
			if pan != "" {
				c.Violation("AssignableConv-const|"+k.text+"|"+Tt.name+"|panic", pan, payload{"AssignableConv-const", k.text, Tt.name})
			} else if got != wv {
				report("AssignableConv-const", k.text, Tt.name, got, wv, msgs[fmt.Sprintf("k_%d", j)])
			} else {
				c.Outcome(fmt.Sprintf("const=%v", got))
			}
		}
	}
	// ---- the same question through every construct
	constructs(c, w)
	if c.Idx == 0 {
		c.Sample(map[string]any{"types": n, "constants": len(w.cons), "example": "AssignableConv(untyped int 256, uint8) vs `var x uint8 = 256`"})
	}
}

func convText(t string) string {
	if strings.HasPrefix(t, "*") || strings.HasPrefix(t, "<-") || strings.HasPrefix(t, "func") || strings.HasPrefix(t, "chan") || strings.HasPrefix(t, "struct") || strings.HasPrefix(t, "interface") || strings.HasPrefix(t, "[") || strings.HasPrefix(t, "map") {
		return "(" + t + ")"
	}
	return t
}

func replay(raw json.RawMessage) (string, bool) {
	var p payload
	if err := json.Unmarshal(raw, &p); err != nil {
		return err.Error(), false
	}
	if strings.HasPrefix(p.Pred, "construct:") {
		return replayConstruct(p)
	}
	w := newWorld()
	find := func(n string) *utype {
		for i := range w.types {
			if w.types[i].name == n {
				return &w.types[i]
			}
		}
		return nil
	}
	V, T := find(p.V), find(p.T)
	pkg := w.b.Pkg
	switch p.Pred {
	case "AssignableConv", "AssignableTo":
		vt, el, vd := valueOf(*V, "1")
		want, msgs := oracleAll(map[string]string{"q": vd + "var x " + T.name + " = " + vt + "\n_ = x"})
		got, pan := safe(func() bool { return gogen.AssignableConv(pkg, V.t, T.t, el) })
		return fmt.Sprintf("AssignableConv(%s,%s)=%v %s; go/types: %v %s", p.V, p.T, got, pan, want["q"], msgs["q"]), got != want["q"] || pan != ""
	case "ConvertibleTo":
		vt, _, vd := valueOf(*V, "1")
		want, msgs := oracleAll(map[string]string{"q": vd + "_ = " + convText(T.name) + "(" + vt + ")"})
		got, pan := safe(func() bool { return gogen.ConvertibleTo(pkg, V.t, T.t) })
		return fmt.Sprintf("ConvertibleTo(%s,%s)=%v %s; go/types: %v %s", p.V, p.T, got, pan, want["q"], msgs["q"]), got != want["q"] || pan != ""
	case "ComparableTo":
		vt, a, vd := valueOf(*V, "1")
		wt, b, wd := valueOf(*T, "2")
		want, msgs := oracleAll(map[string]string{"q": vd + wd + "_ = " + vt + " == " + wt})
		g1, p1 := safe(func() bool { return gogen.ComparableTo(pkg, a, b) })
		_, a2, _ := valueOf(*V, "1")
		_, b2, _ := valueOf(*T, "2")
		g2, p2 := safe(func() bool { return gogen.ComparableTo(pkg, b2, a2) })
		return fmt.Sprintf("ComparableTo(%s,%s)=%v, reversed=%v %s%s; go/types: %v %s", p.V, p.T, g1, g2, p1, p2, want["q"], msgs["q"]), g1 != g2 || g1 != want["q"] || p1 != "" || p2 != ""
	case "AssignableConv-const":
		for _, k := range w.cons {
			if k.text == p.V {
				want, msgs := oracleAll(map[string]string{"q": "var x " + T.name + " = " + k.text + "\n_ = x"})
				el := &gogen.Element{Val: &ast.BasicLit{Kind: token.INT, Value: k.text}, Type: types.Typ[k.kind], CVal: k.val}
				got, pan := safe(func() bool { return gogen.AssignableConv(pkg, types.Typ[k.kind], T.t, el) })
				return fmt.Sprintf("AssignableConv(%s,%s)=%v %s; go/types: %v %s", p.V, p.T, got, pan, want["q"], msgs["q"]), got != want["q"] || pan != ""
			}
		}
	case "Default":
		gd := gogen.Default(pkg, V.t)
		return fmt.Sprintf("Default(%s)=%v go/types %v", p.V, gd, types.Default(V.t)), gd != types.Default(V.t)
	}
	return "replay: unknown case", false
}
