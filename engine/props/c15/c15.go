// Package c15: output is a deterministic function of the operation sequence.
package c15

import (
	"crypto/sha256"
	"encoding/hex"
	"encoding/json"
	"fmt"
	"go/token"
	"go/types"
	"os"
	"os/exec"
	"sort"
	"strings"

	"github.com/goplus/gogen"
	"github.com/goplus/gogen/verifrt"

	"verifengine/fixture"
	"verifengine/gx"
	"verifengine/oracle"
	"verifengine/vf"
)

func init() {
	vf.Register(&vf.Prop{
		ID: "C15", Level: "model_checking",
		Rule: "every `range` over a map in the library is rewritten (mechanically, by the overlay generator) to ask the explorer for the iteration order. For each history (several imports per file in two files; 1-3 XGo-marked dependency packages in exported signatures; imported packages with several overload families, overloaded methods and overloaded named types; several unused labels; builtin type-info lookups) " +
			"the default execution (sorted keys) gives the baseline bytes; then EVERY permutation (n<=4 keys: all n!; larger: all rotations and adjacent transpositions, reported as a cap) at EVERY reached map range is explored with up to D simultaneous deviations (choice-point DFS with replay). " +
			"Oracle: bytes of every written file equal the baseline; the builder's error list is equal as a multiset; the baseline digests recomputed in a second process (different addresses, map seeds) are equal. state = (history, choice vector); non-trivial = executions with >=1 deviation",
		Assumptions: []string{"a permutation of the live keys is the most general iteration behaviour Go permits for a map that is not modified during the loop; where the loop deletes or inserts, skipping deleted and not visiting inserted keys is one permitted behaviour", "sources of nondeterminism other than map order (time, randomness, environment) are absent from output paths (static scan recorded in evidence)"},
		Run:         run,
		Replay:      replay,
	})
}

var fixtures = map[string]string{
	"a/fmt":  "package fmt\n\ntype T struct{ X int }\n\nvar V T\n\nfunc F() {}\n",
	"b/fmt":  "package fmt\n\ntype T struct{ Y string }\n\nvar V T\n\nfunc F() {}\n",
	"c/util": "package util\n\ntype T []int\n\nvar V T\n\nfunc F() {}\n",
	"d/more": "package more\n\nvar V int\n",
	"x/one":  "package one\n\nconst XGoPackage = true\n\ntype T struct{ A int }\n\nfunc (T) M() {}\n",
	"x/two":  "package two\n\nconst XGoPackage = true\n\ntype T struct{ B int }\n",
	"x/three": "package three\n\nconst GopPackage = true\n\ntype T struct{ C int }\n\ntype I interface{ Get() T }\n",
	"o/ov": `package ov

const XGoPackage = true

type N struct{ v int }

func F__0(x int) int       { return x }
func F__1(x string) string { return x }
func F__2(x, y int) int    { return x + y }
func G__0(x float64)       {}
func G__1(x []int)         {}
func H__0()                {}
func H__1(x int)           {}

func (N) M__0(x int) int       { return x }
func (N) M__1(x string) string { return x }
func (*N) P__0()               {}
func (*N) P__1(x int)          {}
func (N) Q__0(x bool)          {}
func (N) Q__1(x int)           {}

type W__0 struct{ a int }
type W__1 struct{ b string }
type Z__0 struct{}
type Z__1 struct{}

type K struct{}

func (K) A__0()      {}
func (K) A__1(x int) {}
func (K) B__0()      {}
func (K) B__1(x int) {}
`,
}

const ovSmall = `package ovs

const XGoPackage = true

type N struct{ v int }

func F__0(x int) int       { return x }
func F__1(x string) string { return x }
func G__0(x float64)       {}
func G__1(x []int)         {}

func (N) M__0(x int) int       { return x }
func (N) M__1(x string) string { return x }
func (*N) P__0()               {}
func (*N) P__1(x int)          {}

type W__0 struct{ a int }
type W__1 struct{ b string }
type Z__0 struct{}
type Z__1 struct{}
`

func init() { fixtures["o/ovs"] = ovSmall }

var fullPermLimit = 4

type history struct {
	name  string
	build func(b *gx.Build)
}

func histories() []history {
	hs := allHistories()
	if fullPermLimit < 8 {
		var out []history
		for _, h := range hs {
			if h.name != "overload-families" {
				out = append(out, h)
			}
		}
		return out
	}
	return hs
}

func allHistories() []history {
	ref := func(pkg *gogen.Package, path, name string) types.Object { return pkg.Import(path).Ref(name) }
	use := func(pkg *gogen.Package, fn string, objs ...types.Object) {
		cb := pkg.NewFunc(nil, fn, nil, nil, false).BodyStart(pkg)
		for _, o := range objs {
			cb.VarRef(nil).Val(o).Assign(1).EndStmt()
		}
		cb.End()
	}
	return []history{
		{"imports-two-files", func(b *gx.Build) {
			pkg := b.Pkg
			use(pkg, "f1", ref(pkg, "c/util", "V"), ref(pkg, "a/fmt", "V"), ref(pkg, "b/fmt", "V"), ref(pkg, "d/more", "V"))
			pkg.SetCurFile("b.go", true)
			use(pkg, "f2", ref(pkg, "b/fmt", "V"), ref(pkg, "d/more", "V"), ref(pkg, "a/fmt", "V"))
			pkg.ForceImport("c/util")
		}},
		{"forced-imports", func(b *gx.Build) {
			// several blank imports next to named ones, made in three different ways, in two files
			pkg := b.Pkg
			pkg.ForceImport("d/more")
			pkg.ForceImport("a/fmt")
			pkg.Import("c/util").MarkForceUsed(pkg)
			use(pkg, "f1", ref(pkg, "b/fmt", "V"))
			pkg.Import("x/one") // imported, never referenced
			pkg.SetCurFile("b.go", true)
			pkg.ForceImport("b/fmt")
			pkg.ForceImport("c/util")
			use(pkg, "f2", ref(pkg, "a/fmt", "V"), ref(pkg, "d/more", "V"))
		}},
		{"xgo-deps-in-exported-signatures", func(b *gx.Build) {
			pkg := b.Pkg
			t1 := ref(pkg, "x/one", "T").Type()
			t2 := ref(pkg, "x/two", "T").Type()
			t3 := ref(pkg, "x/three", "I").Type()
			p := func(n string, t types.Type) *types.Var { return pkg.NewParam(token.NoPos, n, t, false) }
			pkg.NewFunc(nil, "Exp1", types.NewTuple(p("a", t2), p("b", types.NewPointer(t1))), nil, false).BodyStart(pkg).End()
			pkg.NewFunc(nil, "Exp2", types.NewTuple(p("c", t3)), types.NewTuple(p("", types.NewSlice(t1))), false).BodyStart(pkg).End()
			pkg.SetCurFile("b.go", true)
			pkg.NewFunc(nil, "Exp3", types.NewTuple(p("d", types.NewMap(types.Typ[types.String], t2))), nil, false).BodyStart(pkg).End()
		}},
		{"overload-families", func(b *gx.Build) {
			pkg := b.Pkg
			ov := pkg.Import("o/ov")
			cb := pkg.NewFunc(nil, "f", nil, nil, false).BodyStart(pkg)
			cb.VarRef(nil).Val(ov.Ref("F")).Val(1).Call(1).Assign(1).EndStmt()
			cb.VarRef(nil).Val(ov.Ref("F")).Val("s").Call(1).Assign(1).EndStmt()
			cb.VarRef(nil).Val(ov.Ref("F")).Val(1).Val(2).Call(2).Assign(1).EndStmt()
			cb.Val(ov.Ref("G")).Val(1.5).Call(1).EndStmt()
			cb.Val(ov.Ref("H")).Call(0).EndStmt()
			cb.NewVar(ov.Ref("N").Type(), "n")
			cb.VarRef(nil).VarVal("n").MemberVal("M", 0).Val("s").Call(1).Assign(1).EndStmt()
			cb.VarVal("n").MemberVal("P", 0).Val(3).Call(1).EndStmt()
			cb.VarVal("n").MemberVal("Q", 0).Val(true).Call(1).EndStmt()
			cb.VarVal("n").MemberVal("q", 0, gx.SrcNode("n.q")).Val(4).Call(1).EndStmt()
			cb.NewVar(ov.Ref("K").Type(), "k")
			cb.VarVal("k").MemberVal("A", 0).Call(0).EndStmt()
			cb.VarVal("k").MemberVal("B", 0).Val(1).Call(1).EndStmt()
			cb.End()
		}},
		{"overload-families-small", func(b *gx.Build) {
			pkg := b.Pkg
			ov := pkg.Import("o/ovs")
			cb := pkg.NewFunc(nil, "f", nil, nil, false).BodyStart(pkg)
			cb.VarRef(nil).Val(ov.Ref("F")).Val(1).Call(1).Assign(1).EndStmt()
			cb.VarRef(nil).Val(ov.Ref("F")).Val("s").Call(1).Assign(1).EndStmt()
			cb.Val(ov.Ref("G")).Val(1.5).Call(1).EndStmt()
			cb.NewVar(ov.Ref("N").Type(), "n")
			cb.VarRef(nil).VarVal("n").MemberVal("M", 0).Val("s").Call(1).Assign(1).EndStmt()
			cb.VarVal("n").MemberVal("P", 0).Val(3).Call(1).EndStmt()
			cb.VarVal("n").MemberVal("p", 0, gx.SrcNode("n.p")).Val(3).Call(1).EndStmt()
			cb.VarRef(nil).Val(ov.Ref("W")).Typ(types.Typ[types.Int]).Index(1, 0).Assign(1)
			cb.End()
		}},
		{"labels-and-errors", func(b *gx.Build) {
			pkg := b.Pkg
			cb := pkg.NewFunc(nil, "f", nil, nil, false).BodyStart(pkg)
			for _, n := range []string{"L3", "L1", "L2", "L4"} {
				cb.Label(cb.NewLabel(token.NoPos, token.NoPos, n))
			}
			cb.Val(pkg.Import("a/fmt").Ref("F")).Call(0).EndStmt()
			cb.End()
		}},
		{"builtin-ti-and-unsafe", func(b *gx.Build) {
			pkg := b.Pkg
			cb := pkg.NewFunc(nil, "f", nil, nil, false).BodyStart(pkg)
			cb.NewVar(types.NewSlice(types.Typ[types.Int]), "s").NewVar(types.NewChan(types.SendRecv, types.Typ[types.Int]), "c")
			cb.VarRef(nil).VarVal("s").MemberVal("Len", 0).Call(0).Assign(1).EndStmt()
			cb.VarRef(nil).VarVal("c").MemberVal("Len", 0).Call(0).Assign(1).EndStmt()
			cb.VarRef(nil).Val(pkg.Unsafe().Ref("Sizeof")).VarVal("s").Call(1).Assign(1).EndStmt()
			cb.End()
			_ = pkg.File
			flags := 0
			pkg.ForEachFile(func(fname string, f *gogen.File) { flags |= f.CheckXGoDeps(pkg) })
		}},
	}
}

type point struct {
	site string
	n    int
}

type execution struct {
	points []point
	texts  map[string]string
	errs   []string
	panic  string
}

// perms lists the alternative orders (as index vectors) for n keys, identity excluded.
func perms(n int) (out [][]int, capped bool) {
	if n <= fullPermLimit {
		idx := make([]int, n)
		for i := range idx {
			idx[i] = i
		}
		var rec func(k int)
		rec = func(k int) {
			if k == n {
				id := true
				for i, v := range idx {
					if i != v {
						id = false
					}
				}
				if !id {
					out = append(out, append([]int{}, idx...))
				}
				return
			}
			for i := k; i < n; i++ {
				idx[k], idx[i] = idx[i], idx[k]
				rec(k + 1)
				idx[k], idx[i] = idx[i], idx[k]
			}
		}
		rec(0)
		return out, false
	}
	// larger: rotations, reversal and adjacent transpositions
	for r := 1; r < n; r++ {
		p := make([]int, n)
		for i := range p {
			p[i] = (i + r) % n
		}
		out = append(out, p)
	}
	rev := make([]int, n)
	for i := range rev {
		rev[i] = n - 1 - i
	}
	out = append(out, rev)
	for i := 0; i+1 < n; i++ {
		p := make([]int, n)
		for j := range p {
			p[j] = j
		}
		p[i], p[i+1] = p[i+1], p[i]
		out = append(out, p)
	}
	return out, true
}

// runWith executes history h; choices[i] selects the permutation (0 = identity) at choice point i.
func runWith(h history, choices []int) execution {
	var ex execution
	imp := fixture.New(fixtures, false)
	i := 0
	verifrt.Chooser = func(site string, n int) []int {
		ex.points = append(ex.points, point{site, n})
		defer func() { i++ }()
		if i < len(choices) && choices[i] > 0 {
			ps, _ := perms(n)
			if choices[i]-1 >= len(ps) {
				panic(fmt.Sprintf("c15: replay divergence: choice %d out of range at point %d (%s, n=%d)", choices[i], i, site, n))
			}
			return ps[choices[i]-1]
		}
		return nil
	}
	defer func() { verifrt.Chooser = nil }()
	b := gx.New(imp, gx.Options{DefaultGo: "a.go", RealBuiltin: true})
	out := gx.Try(func() { h.build(b) })
	if out.Panicked {
		ex.panic = out.Msg
	}
	ex.errs = append([]string{}, b.Errs...)
	sort.Strings(ex.errs)
	texts, err := oracle.WriteAll(b.Pkg)
	if err != nil {
		ex.panic += " write: " + err.Error()
	}
	ex.texts = texts
	return ex
}

func digest(ex execution) string {
	h := sha256.New()
	var names []string
	for n := range ex.texts {
		names = append(names, n)
	}
	sort.Strings(names)
	for _, n := range names {
		fmt.Fprintf(h, "%s\x00%s\x00", n, ex.texts[n])
	}
	fmt.Fprintf(h, "%s\x00%s", strings.Join(ex.errs, "\x01"), ex.panic)
	return hex.EncodeToString(h.Sum(nil))[:16]
}

type payload struct {
	History string `json:"history"`
	Choices []int  `json:"choices"`
}

func diffText(a, b execution) string {
	for n, t := range a.texts {
		if b.texts[n] != t {
			return fmt.Sprintf("file %q differs\n--- baseline\n%s\n--- with this iteration order\n%s", n, t, b.texts[n])
		}
	}
	if strings.Join(a.errs, ";") != strings.Join(b.errs, ";") {
		return fmt.Sprintf("reported errors differ: %v vs %v", a.errs, b.errs)
	}
	return fmt.Sprintf("panic differs: %q vs %q", a.panic, b.panic)
}

func run(c *vf.Ctx) {
	bound := 2
	if c.Thorough() {
		bound = 3
		fullPermLimit = 8
	}
	if os.Getenv("VERIF_C15_DIGEST") == "1" {
		for _, h := range histories() {
			fmt.Printf("DIGEST %s %s\n", h.name, digest(runWith(h, nil)))
		}
		os.Exit(0)
	}
	var counter int64
	for _, h := range histories() {
		base := runWith(h, nil)
		again := runWith(h, nil)
		if digest(base) != digest(again) {
			c.Violation("replay-not-deterministic|"+h.name, "two default-order executions of history "+h.name+" differ: "+diffText(base, again), payload{h.name, nil})
			continue
		}
		if c.Idx == 0 {
			sites := map[string]int{}
			for _, p := range base.points {
				sites[p.site] = p.n
			}
			c.Sample(map[string]any{"history": h.name, "choice_points": len(base.points), "sites": sites})
		}
		for _, p := range base.points {
			c.Tally("site:"+p.site, 1)
		}
		var explore func(prefix []int, devs int)
		explore = func(prefix []int, devs int) {
			ex := runWith(h, prefix)
			c.Eval(1)
			c.Transition(len(ex.points))
			c.State(1)
			c.Trace(1)
			if devs > 0 {
				c.Distinct(h.name + fmt.Sprint(prefix))
			}
			if d := digest(ex); d != digest(base) {
				sites := ""
				for i, ch := range prefix {
					if ch > 0 && i < len(ex.points) {
						sites += ex.points[i].site + ","
					}
				}
				c.Outcome("differs")
				c.Violation("output-depends-on-map-order|"+h.name+"|"+sites, "history "+h.name+" with iteration orders "+fmt.Sprint(prefix)+" at "+sites+": "+diffText(base, ex), payload{h.name, append([]int{}, prefix...)})
				return
			}
			c.Outcome("same:" + h.name)
			if devs == bound {
				return
			}
			for i := len(prefix); i < len(ex.points); i++ {
				ps, capped := perms(ex.points[i].n)
				if capped {
					c.Cap(fmt.Sprintf("map with %d keys at %s: rotations, reversal and adjacent transpositions only", ex.points[i].n, ex.points[i].site))
				}
				for alt := 1; alt <= len(ps); alt++ {
					mine := true
					if devs == 0 {
						mine = c.MineIdx(counter)
						counter++
					}
					if !mine {
						continue
					}
					np := make([]int, i+1)
					copy(np, prefix)
					np[i] = alt
					explore(np, devs+1)
				}
			}
		}
		if c.Idx == 0 {
			// the zero-deviation execution is explored by worker 0; alternatives are sharded
		}
		explore(nil, 0)
	}
	// cross-process digest
	if c.Idx == 0 {
		self, _ := os.Executable()
		cmd := exec.Command(self, "-tier", c.Tier, "C15")
		cmd.Env = append(os.Environ(), "VERIF_C15_DIGEST=1", "VERIF_WORKER=0/1", "VERIF_WORKER_OUT=/dev/null")
		outp, err := cmd.Output()
		if err != nil {
			c.Cap("second-process digest run failed: " + err.Error())
		} else {
			got := map[string]string{}
			for _, line := range strings.Split(string(outp), "\n") {
				var n, d string
				if _, err := fmt.Sscanf(line, "DIGEST %s %s", &n, &d); err == nil {
					got[n] = d
				}
			}
			for _, h := range histories() {
				mine := digest(runWith(h, nil))
				c.Eval(1)
				if got[h.name] != mine {
					c.Violation("cross-process-digest|"+h.name, fmt.Sprintf("history %s: digest %s in this process, %s in a second process", h.name, mine, got[h.name]), payload{h.name, nil})
				} else {
					c.Tally("cross_process_digests_equal", 1)
				}
			}
		}
	}
}

func replay(raw json.RawMessage) (string, bool) {
	var p payload
	if err := json.Unmarshal(raw, &p); err != nil {
		return err.Error(), false
	}
	for _, h := range allHistories() {
		if h.name == p.History {
			base := runWith(h, nil)
			ex := runWith(h, p.Choices)
			if digest(base) != digest(ex) {
				return "history " + h.name + " with orders " + fmt.Sprint(p.Choices) + ": " + diffText(base, ex), true
			}
			return "same bytes as the baseline", false
		}
	}
	return "history not found", false
}
