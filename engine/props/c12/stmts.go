package c12

import (
	"fmt"
	"go/ast"
	"go/parser"
	"go/token"
	"strings"
)

// snippet forms: every statement / declaration node kind, child slots filled from small menus.
// Trees are obtained by parsing the text and stripping every position, comment and
// resolution datum, so they are exactly the position-less trees a builder could hold
// (including the ParenExpr nodes the builder itself would insert).

var exprMenu = []string{"x", "f(x)", "a + b*c", "-x", "*p", "&T{1}", "(T{})", "x.(T)", "<-c", "func() {}", "m[k]", "s[1:2]", "[]int{1, 2}", "(*T)(p)", "a && (b || c)"}
var headerExpr = []string{"x", "f(x)", "a < b", "(T{}) == y", "x.(T).ok", "!ok", "<-c", "a && (b || c)"}

func stmtSnippets() map[string]string {
	m := map[string]string{}
	add := func(k, body string) { m[k] = "package p\n\nfunc f() {\n" + body + "\n}\n" }
	addFile := func(k, src string) { m[k] = "package p\n\n" + src + "\n" }
	for i, e := range exprMenu {
		add(fmt.Sprintf("assign-define/%d", i), "v := "+e+"\n_ = v")
		add(fmt.Sprintf("assign-set/%d", i), "var v T\nv = "+e)
		add(fmt.Sprintf("return/%d", i), "return "+e)
		add(fmt.Sprintf("send/%d", i), "ch <- "+e)
		add(fmt.Sprintf("arg/%d", i), "g("+e+", "+e+")")
		add(fmt.Sprintf("vardecl/%d", i), "var v = "+e)
		add(fmt.Sprintf("index-assign/%d", i), "m["+e+"] = 1")
		add(fmt.Sprintf("case/%d", i), "switch v {\ncase "+e+":\n}")
		add(fmt.Sprintf("range-x/%d", i), "for i := range ("+e+") {\n_ = i\n}")
	}
	calls := []string{"f()", "x.m(1)", "func() {}()", "(*T).m(p)", "g[int](x)"}
	for i, c := range calls {
		add(fmt.Sprintf("exprstmt/%d", i), c)
		add(fmt.Sprintf("go/%d", i), "go "+c)
		add(fmt.Sprintf("defer/%d", i), "defer "+c)
	}
	for i, e := range []string{"x", "a[i]", "p.f", "*p", "m[k]"} {
		add(fmt.Sprintf("incdec/%d", i), e+"++\n"+e+"--")
		for _, op := range []string{"+=", "-=", "*=", "/=", "%=", "&=", "|=", "^=", "<<=", ">>=", "&^="} {
			add(fmt.Sprintf("opassign%s/%d", op, i), e+" "+op+" 1")
		}
	}
	add("assign-multi", "a, b = b, a\nx, y := f()\n_, _ = x, y\nv, ok := m[k]\n_, _ = v, ok\nv, ok = x.(T)\nv, ok = <-c")
	add("empty-body", "")
	add("block", "{\nx := 1\n_ = x\n}\n{\n}")
	add("labeled", "L:\nfor {\nbreak L\n}\nM:\n;\nN:\nx++\ngoto M\ngoto N")
	add("labeled-nested", "L1:\nL2:\nfor {\ncontinue L1\ncontinue L2\n}")
	add("labeled-block", "L:\n{\nbreak L\n}")
	add("labeled-last", "goto End\nEnd:")
	add("branch", "for {\nbreak\n}\nfor {\ncontinue\n}\nswitch {\ncase true:\nfallthrough\ndefault:\n}")
	add("return-multi", "return")
	m["return-2"] = "package p\n\nfunc f() (int, error) {\n\treturn 1, nil\n}\n"
	m["return-named"] = "package p\n\nfunc f() (n int, err error) {\n\treturn\n}\n"
	inits := []string{"", "x := 1; ", "f(); ", "x, y := g(); ", "x++; "}
	for i, in := range inits {
		for j, cnd := range headerExpr {
			k := fmt.Sprintf("%d-%d", i, j)
			add("if/"+k, "if "+in+cnd+" {\ny()\n}")
			add("if-else/"+k, "if "+in+cnd+" {\ny()\n} else {\nz()\n}")
			add("if-elseif/"+k, "if "+in+cnd+" {\ny()\n} else if "+cnd+" {\nz()\n} else {\nw()\n}")
			add("switch-tag/"+k, "switch "+in+cnd+" {\ncase 1, 2:\ny()\ndefault:\nz()\n}")
			if in != "" {
				add("for3/"+k, "for "+in+cnd+"; i++ {\ny()\n}")
				add("for3-nopost/"+k, "for "+in+cnd+"; {\ny()\n}")
				add("for3-nocond/"+k, "for "+in+"; i++ {\n}")
			} else {
				add("for-cond/"+k, "for "+cnd+" {\ny()\n}")
			}
		}
		add(fmt.Sprintf("switch-notag/%d", i), "switch "+in+"{\ncase a < b:\ny()\ncase a > b, c:\ndefault:\n}")
		add(fmt.Sprintf("typeswitch/%d", i), "switch "+in+"v := x.(type) {\ncase int, string:\n_ = v\ncase nil:\ncase *T, []T, map[K]V, func(), chan int, interface{ M() }:\ndefault:\n}")
		add(fmt.Sprintf("typeswitch-nobind/%d", i), "switch "+in+"x.(type) {\ncase int:\n}")
		add(fmt.Sprintf("typeswitch-call/%d", i), "switch "+in+"f().(type) {\n}")
	}
	add("for-inf", "for {\n}")
	add("for-post-only", "for ; ; i++ {\n}")
	add("for-semis", "for ; ; {\n}")
	add("switch-empty", "switch {\n}")
	add("switch-default-first", "switch x {\ndefault:\ny()\ncase 1:\n}")
	add("switch-nested", "switch x {\ncase 1:\nswitch y {\ncase 2:\nbreak\n}\n}")
	for i, r := range []string{"for range x {\n}", "for i := range x {\n_ = i\n}", "for i, v := range x {\n_, _ = i, v\n}", "for _, v := range x {\n_ = v\n}", "for i = range x {\n}", "for i, v = range x {\n}",
		"for a[i], m[k] = range x {\n}", "for i := range 10 {\n_ = i\n}", "for range 3 {\n}", "for v := range ch {\n_ = v\n}", "for k, v := range m {\n_, _ = k, v\n}", "for i := range f() {\n_ = i\n}",
		"for x := range func(yield func(int) bool) {} {\n_ = x\n}", "for range (T{}) {\n}", "for i := range ([]int{1, 2}) {\n_ = i\n}"} {
		add(fmt.Sprintf("range/%d", i), r)
	}
	add("select", "select {\ncase v := <-c:\n_ = v\ncase v, ok := <-c:\n_, _ = v, ok\ncase x = <-c:\ncase a[i], ok = <-c:\ncase <-c:\ncase c <- 1:\ncase c <- f():\ny()\ndefault:\nz()\n}")
	add("select-empty", "select {\n}")
	add("select-default-only", "select {\ndefault:\n}")
	add("declstmt", "var a int\nvar b, c = 1, 2\nvar (\nd int\ne = 3\n)\nconst k = 1\nconst (\nk1 = iota\nk2\nk3 T = iota + 1\n)\ntype L int\ntype (\nL1 = int\nL2 struct{ x int }\n)")
	add("closure-nested", "f := func(x int) func() int {\nreturn func() int {\nreturn x\n}\n}\n_ = f")
	add("complit-multiline", "x := T{\na: 1,\nb: []int{1, 2},\nc: map[string]T{\"k\": {a: 1}},\n}\n_ = x")
	add("ifinit-complit", "if x := (T{1}); x.a > 0 {\n}")
	add("switch-complit", "switch (T{1}) {\n}")
	add("go-closure", "go func() {\nf()\n}()\ndefer func() {\nrecover()\n}()")
	// declarations
	addFile("imports", "import (\n\t\"a\"\n\tb \"b\"\n\t_ \"c\"\n\t. \"d\"\n)")
	addFile("import-single", "import \"a\"")
	addFile("import-named", "import x \"a\"")
	addFile("var-group", "var (\n\ta int\n\tb, c string = \"x\", \"y\"\n\td = f()\n)")
	addFile("var-single", "var a, b int = 1, 2")
	addFile("const-iota", "const (\n\tA = iota\n\tB\n\tC\n\t_\n\tD T = iota * 2\n\tE\n)")
	addFile("const-typed", "const X float64 = 1.5\n\nconst Y, Z = \"a\", 'b'")
	addFile("type-struct", "type S struct {\n\ta, b int\n\tc    string `json:\"c\"`\n\tT\n\t*U\n\tp.V\n\tG[int]\n\t*H[int, string]\n\td func(int) (string, error)\n\te struct{ x int }\n\tf interface{ M() }\n\t_ int\n\tg [3]*[]map[string]chan<- int \"tag\"\n}")
	addFile("type-struct-empty", "type S struct{}")
	addFile("type-iface", "type I interface {\n\tM()\n\tN(x int, y ...string) (int, error)\n\tJ\n\tp.K\n\tG[int]\n\t~int | string\n\t*T | []byte\n\tcomparable\n}")
	addFile("type-iface-empty", "type I interface{}\n\ntype A any")
	addFile("type-alias", "type A = B\n\ntype C = []map[string]*D")
	addFile("type-func", "type F func(a, b int, c ...string) (x int, err error)\n\ntype F2 func()\n\ntype F3 func(int, string) bool\n\ntype F4 func(func(int) int) func() func()")
	addFile("type-chan", "type C1 chan int\n\ntype C2 <-chan int\n\ntype C3 chan<- int\n\ntype C4 chan (<-chan int)\n\ntype C5 chan<- chan int\n\ntype C6 <-chan <-chan int\n\ntype C7 chan<- <-chan int\n\ntype C8 chan func()\n\ntype C9 <-chan (chan<- *T)")
	addFile("type-array", "type A1 [3]int\n\ntype A2 [N + 1][]int\n\ntype A3 [...]int\n\ntype A4 [len(x)]T")
	addFile("type-generic", "type G1[T any] struct{ v T }\n\ntype G2[K comparable, V any] map[K]V\n\ntype G3[P interface{ *C }] struct{}\n\ntype G4[P *C,] struct{}\n\ntype G5[P *C, Q any] struct{}\n\ntype G6[T ~int | ~string] []T\n\ntype G7[T interface{ ~[]E }, E any] struct{}\n\ntype G8[T C[T]] struct{}\n\ntype G9[P (C),] int\n\ntype G10[P *T | int] int")
	addFile("type-group", "type (\n\tA int\n\tB = A\n\tC[T any] []T\n)")
	addFile("func-decl", "func F(a, b int, c ...string) (x int, err error) {\n\treturn\n}\n\nfunc G()\n\nfunc H(int, string) bool { return true }\n\nfunc K[T any, U ~int](x T, y U) T { return x }\n\nfunc L[P *C,](p P) {}\n\nfunc M(func(int) int) func() {\n\treturn nil\n}")
	addFile("method-decl", "func (t T) M() {}\n\nfunc (t *T) N(x int) int { return x }\n\nfunc (T) O() {}\n\nfunc (*T) P() {}\n\nfunc (g *G[K, V]) Q(k K) V {\n\tvar v V\n\treturn v\n}\n\nfunc (g G[_, V]) R() {}")
	addFile("func-oneline-body", "func F() { x(); y() }")
	addFile("init", "func init() {\n\tf()\n}")
	return m
}

func stmtTrees(yield func(kind string, f *ast.File)) {
	sn := stmtSnippets()
	var keys []string
	for k := range sn {
		keys = append(keys, k)
	}
	sortStrings(keys)
	for _, k := range keys {
		f, err := parser.ParseFile(token.NewFileSet(), k+".go", sn[k], parser.SkipObjectResolution)
		if err != nil {
			panic(fmt.Sprintf("c12: snippet %s does not parse: %v\n%s", k, err, sn[k]))
		}
		strip(f)
		kind := k
		if i := strings.Index(k, "/"); i > 0 {
			kind = k[:i] + "/" + k[i+1:]
		}
		yield(kind, f)
	}
}

func sortStrings(s []string) {
	for i := 1; i < len(s); i++ {
		for j := i; j > 0 && s[j] < s[j-1]; j-- {
			s[j], s[j-1] = s[j-1], s[j]
		}
	}
}
