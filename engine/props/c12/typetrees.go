package c12

import (
	"fmt"
	"go/ast"
	"go/parser"
	"go/token"
	"strings"
)

// Type-expression trees in every type position, generated as text (with the always-legal trailing comma in
// type-parameter lists, so the reference parse never depends on the printer's own disambiguation rule),
// parsed into the tree the printer is given.

type tyTree struct {
	text       string
	constraint bool // contains ~ or | : only valid as a constraint
	lit        bool // may be the type of a composite literal
}

func typeLeaves() []tyTree {
	return []tyTree{
		{"C", false, true}, {"int", false, false}, {"q.T", false, true}, {"struct{}", false, true},
		{"interface{}", false, false}, {"func()", false, false}, {"G[int]", false, true},
	}
}

func typeGrow(xs []tyTree, leaves []tyTree, union bool) []tyTree {
	var out []tyTree
	for _, x := range xs {
		t := x.text
		c := x.constraint
		if !c {
			out = append(out,
				tyTree{"*" + t, false, false}, tyTree{"[]" + t, false, true}, tyTree{"[3]" + t, false, true}, tyTree{"[N]" + t, false, true},
				tyTree{"map[string]" + t, false, true}, tyTree{"map[" + t + "]int", false, true},
				tyTree{"chan " + t, false, false}, tyTree{"<-chan " + t, false, false}, tyTree{"chan<- " + t, false, false},
				tyTree{"func(" + t + ") " + t, false, false}, tyTree{"func(a, b " + t + ", c ..." + t + ") (x " + t + ", err error)", false, false},
				tyTree{"(" + t + ")", false, false},
				tyTree{"G[" + t + "]", false, true}, tyTree{"G[int, " + t + "]", false, true}, tyTree{"q.G[" + t + "]", false, true},
				tyTree{"struct{ f " + t + " }", false, true}, tyTree{"interface{ M() " + t + " }", false, false},
				tyTree{"~" + t, true, false},
			)
		}
		out = append(out, tyTree{"interface{ " + t + " }", false, false})
		if union {
			for _, l := range leaves {
				out = append(out, tyTree{t + " | " + l.text, true, false}, tyTree{l.text + " | " + t, true, false}, tyTree{"*" + l.text + " | " + t, true, false})
			}
			out = append(out, tyTree{"~" + strings.TrimPrefix(t, "~") + " | ~string", true, false})
		}
	}
	return out
}

var typeContexts = []struct {
	name       string
	tmpl       string
	constraint bool // accepts constraint-only trees
	lit        bool // needs a composite-literal type
}{
	{"tparam-1", "type A[P %s,] struct{}", true, false},
	{"tparam-1-array", "type A[P %s,] [2]P", true, false},
	{"tparam-2", "type A[P %s, Q any] struct{}", true, false},
	{"tparam-shared", "type A[P, Q %s,] struct{}", true, false},
	{"tparam-last", "type A[Q any, P %s,] struct{}", true, false},
	{"func-tparam", "func F[P %s,]() {}", true, false},
	{"method-recv", "func (A[P]) M(x %s) {}", false, false},
	{"typedef", "type A %s", false, false},
	{"alias", "type A = %s", false, false},
	{"var", "var v %s", false, false},
	{"params", "func f(a %s, b ...%s) (%s, error)", false, false},
	{"conversion", "var _ = (%s)(x)", false, false},
	{"assertion", "var _ = x.(%s)", false, false},
	{"new", "var _ = new(%s)", false, false},
	{"make", "var _ = make(%s, 1)", false, false},
	{"elem-lit", "var _ = []%s{}", false, false},
	{"complit", "var _ = %s{}", false, true},
	{"field", "type S struct {\n\tf %s\n\tg, h %s `t`\n}", false, false},
	{"iface-elem", "type I interface {\n\tM(%s) %s\n\t%s\n}", true, false},
	{"func-lit", "var _ = func(a %s) %s { return nil }", false, false},
	{"typeswitch", "func f() {\n\tswitch x.(type) {\n\tcase %s, int:\n\t}\n}", false, false},
	{"instantiate", "var _ = g[%s](x)", false, false},
	{"instantiate-2", "var _ = g[int, %s]", false, false},
}

func typeTrees(thorough bool, yield func(kind string, src string, f *ast.File)) (skipped int) {
	leaves := typeLeaves()
	d1 := typeGrow(leaves, leaves, true)
	level := append(append([]tyTree{}, leaves...), d1...)
	d2 := typeGrow(d1, leaves, thorough)
	level = append(level, d2...)
	if thorough {
		// depth 3 over the pointer / slice / paren / union spine only
		var spine []tyTree
		for _, x := range d2 {
			if strings.HasPrefix(x.text, "*") || strings.HasPrefix(x.text, "(") || strings.HasPrefix(x.text, "[]") || strings.HasPrefix(x.text, "~") || strings.Contains(x.text, " | ") {
				spine = append(spine, x)
			}
		}
		level = append(level, typeGrow(spine, leaves[:3], false)...)
	}
	seen := map[string]bool{}
	for _, t := range level {
		if seen[t.text] {
			continue
		}
		seen[t.text] = true
		for _, cx := range typeContexts {
			if t.constraint && !cx.constraint {
				continue
			}
			if cx.lit && !t.lit {
				continue
			}
			n := strings.Count(cx.tmpl, "%s")
			args := make([]any, n)
			for i := range args {
				args[i] = t.text
			}
			src := "package p\n\n" + fmt.Sprintf(cx.tmpl, args...) + "\n"
			f, err := parser.ParseFile(token.NewFileSet(), "t.go", src, parser.SkipObjectResolution)
			if err != nil {
				skipped++
				continue
			}
			strip(f)
			yield("type-"+cx.name, src, f)
		}
	}
	return skipped
}
