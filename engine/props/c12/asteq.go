package c12

import (
	"fmt"
	"go/ast"
	"go/token"
	"reflect"
	"sort"
)

var (
	posType     = reflect.TypeOf(token.NoPos)
	exprType    = reflect.TypeOf((*ast.Expr)(nil)).Elem()
	objPtrType  = reflect.TypeOf((*ast.Object)(nil))
	scopePtr    = reflect.TypeOf((*ast.Scope)(nil))
	cgPtrType   = reflect.TypeOf((*ast.CommentGroup)(nil))
	cgSliceType = reflect.TypeOf([]*ast.CommentGroup(nil))
)

func unparen(e ast.Expr) ast.Expr {
	for {
		p, ok := e.(*ast.ParenExpr)
		if !ok {
			return e
		}
		e = p.X
	}
}

// astDiff compares two syntax trees ignoring positions, parentheses, comments and resolution
// data; literals are compared by spelling after normalisation. It returns "" when equal, else
// a path to the first difference.
func astDiff(a, b any) string {
	return diff(reflect.ValueOf(a), reflect.ValueOf(b), "")
}

func diff(a, b reflect.Value, path string) string {
	if a.IsValid() != b.IsValid() {
		return path + ": one side missing"
	}
	if !a.IsValid() {
		return ""
	}
	// unwrap parens at expression-typed values
	if a.Type() == exprType || a.Kind() == reflect.Interface {
		if !a.IsNil() {
			if e, ok := a.Interface().(ast.Expr); ok {
				a = reflect.ValueOf(unparen(e))
			} else {
				a = a.Elem()
			}
		}
		if b.Kind() == reflect.Interface && !b.IsNil() {
			if e, ok := b.Interface().(ast.Expr); ok {
				b = reflect.ValueOf(unparen(e))
			} else {
				b = b.Elem()
			}
		}
		if a.Kind() == reflect.Interface || b.Kind() == reflect.Interface { // nil interfaces
			an := a.Kind() == reflect.Interface && a.IsNil()
			bn := b.Kind() == reflect.Interface && b.IsNil()
			if an != bn {
				return path + ": nil vs non-nil"
			}
			if an {
				return ""
			}
		}
	}
	if a.Type() != b.Type() {
		return fmt.Sprintf("%s: %v vs %v", path, a.Type(), b.Type())
	}
	switch a.Type() {
	case posType:
		return ""
	case objPtrType, scopePtr, cgPtrType, cgSliceType:
		return ""
	}
	switch a.Kind() {
	case reflect.Ptr:
		if a.IsNil() != b.IsNil() {
			// an empty field list and a nil field list print alike
			return path + ": nil vs non-nil " + a.Type().String()
		}
		if a.IsNil() {
			return ""
		}
		if pe, ok := a.Interface().(*ast.ParenExpr); ok {
			_ = pe
		}
		return diff(a.Elem(), b.Elem(), path)
	case reflect.Struct:
		t := a.Type()
		for i := 0; i < t.NumField(); i++ {
			f := t.Field(i)
			switch {
			case t == reflect.TypeOf(ast.File{}) && (f.Name == "Scope" || f.Name == "Imports" || f.Name == "Unresolved" || f.Name == "Comments" || f.Name == "FileStart" || f.Name == "FileEnd" || f.Name == "GoVersion"):
				continue
			case f.Name == "Doc" || f.Name == "Comment":
				continue
			case t == reflect.TypeOf(ast.BasicLit{}) && f.Name == "Value":
				if normLit(a.Field(i).String()) != normLit(b.Field(i).String()) {
					return fmt.Sprintf("%s.Value: %s vs %s", path, a.Field(i).String(), b.Field(i).String())
				}
				continue
			case t == reflect.TypeOf(ast.CallExpr{}) && f.Name == "Ellipsis",
				t == reflect.TypeOf(ast.TypeSpec{}) && f.Name == "Assign",
				t == reflect.TypeOf(ast.InterfaceType{}) && f.Name == "Incomplete",
				t == reflect.TypeOf(ast.StructType{}) && f.Name == "Incomplete":
				// positions used as flags: compare validity only
				if f.Type == posType {
					if (a.Field(i).Int() != 0) != (b.Field(i).Int() != 0) {
						return fmt.Sprintf("%s.%s: flag differs", path, f.Name)
					}
				}
				continue
			case t == reflect.TypeOf(ast.GenDecl{}) && (f.Name == "Lparen" || f.Name == "Rparen"):
				continue
			case t == reflect.TypeOf(ast.SliceExpr{}) && f.Name == "Slice3":
				if a.Field(i).Bool() != b.Field(i).Bool() {
					return path + ".Slice3 differs"
				}
				continue
			}
			if d := diff(a.Field(i), b.Field(i), path+"."+f.Name); d != "" {
				return d
			}
		}
		return ""
	case reflect.Slice:
		if a.Len() != b.Len() {
			return fmt.Sprintf("%s: len %d vs %d", path, a.Len(), b.Len())
		}
		for i := 0; i < a.Len(); i++ {
			if d := diff(a.Index(i), b.Index(i), fmt.Sprintf("%s[%d]", path, i)); d != "" {
				return d
			}
		}
		return ""
	case reflect.Interface:
		if a.IsNil() != b.IsNil() {
			return path + ": nil vs non-nil"
		}
		if a.IsNil() {
			return ""
		}
		return diff(a.Elem(), b.Elem(), path)
	case reflect.String:
		if a.String() != b.String() {
			return fmt.Sprintf("%s: %q vs %q", path, a.String(), b.String())
		}
	case reflect.Int, reflect.Int64, reflect.Int32, reflect.Int8, reflect.Int16:
		if a.Int() != b.Int() {
			return fmt.Sprintf("%s: %d vs %d", path, a.Int(), b.Int())
		}
	case reflect.Bool:
		if a.Bool() != b.Bool() {
			return path + ": bool differs"
		}
	case reflect.Map:
		return ""
	}
	return ""
}

func normLit(s string) string { return s }

// strip sets every position to NoPos, drops comments and resolution data, and sorts import
// specs by path (what the builder itself always does; without positions the printer cannot).
func strip(f *ast.File) {
	f.Comments = nil
	f.Doc = nil
	f.Scope = nil
	f.Unresolved = nil
	for _, d := range f.Decls {
		if gd, ok := d.(*ast.GenDecl); ok && gd.Tok == token.IMPORT {
			sort.SliceStable(gd.Specs, func(i, j int) bool {
				return gd.Specs[i].(*ast.ImportSpec).Path.Value < gd.Specs[j].(*ast.ImportSpec).Path.Value
			})
		}
	}
	stripValue(reflect.ValueOf(f), map[uintptr]bool{})
}

func stripValue(v reflect.Value, seen map[uintptr]bool) {
	switch v.Kind() {
	case reflect.Ptr:
		if v.IsNil() {
			return
		}
		if v.Type() == objPtrType || v.Type() == scopePtr {
			if v.CanSet() {
				v.Set(reflect.Zero(v.Type()))
			}
			return
		}
		if v.Type() == cgPtrType {
			if v.CanSet() {
				v.Set(reflect.Zero(v.Type()))
			}
			return
		}
		if seen[v.Pointer()] {
			return
		}
		seen[v.Pointer()] = true
		stripValue(v.Elem(), seen)
	case reflect.Interface:
		if !v.IsNil() {
			stripValue(v.Elem(), seen)
		}
	case reflect.Struct:
		t := v.Type()
		for i := 0; i < v.NumField(); i++ {
			f := v.Field(i)
			ft := t.Field(i)
			if ft.Type == posType {
				keep := (t == reflect.TypeOf(ast.CallExpr{}) && ft.Name == "Ellipsis") ||
					(t == reflect.TypeOf(ast.TypeSpec{}) && ft.Name == "Assign") ||
					false
				if keep && f.Int() != 0 {
					f.SetInt(1)
				} else if f.CanSet() {
					f.SetInt(0)
				}
				continue
			}
			stripValue(f, seen)
		}
	case reflect.Slice:
		for i := 0; i < v.Len(); i++ {
			stripValue(v.Index(i), seen)
		}
	}
}
