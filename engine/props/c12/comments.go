package c12

import (
	"fmt"
	"go/ast"
	"go/format"
	"go/parser"
	"go/scanner"
	"go/token"
	"go/types"
	"strings"

	"github.com/goplus/gogen"

	"verifengine/fixture"
	"verifengine/gx"
	"verifengine/oracle"
	"verifengine/vf"
)

// (d) statement comments on real builds.
//
// Protocol (the one a front end uses): SetComments(group, once) immediately before the
// operations of a statement; for compound statements the pending comment is saved with
// BackupComments when the construct is opened and restored right before its End, because the
// statement node is emitted at End.

var cmtKinds = []string{"call", "assign", "define", "vardecl", "opassign", "incdec", "send", "go", "defer", "return", "if", "ifelse", "for", "range", "switch", "typeswitch", "select", "block", "labeled", "closurecall"}
var cmtContainers = []string{"func", "if", "else", "for", "range", "case", "default", "typecase", "comm", "block", "closure"}
var cmtPositions = []string{"first", "middle", "last"}
var cmtShapes = []string{"linedirective", "nl-line", "nl-group", "plain-line", "block"}

const marker = 777

type cmtCase struct {
	Kind, Container, Pos, Shape string
	Once                         bool
}

func (c cmtCase) key() string {
	return fmt.Sprintf("comment:%s/%s/%s/%s/once=%v", c.Kind, c.Container, c.Pos, c.Shape, c.Once)
}

func cmtGroup(shape string) (*ast.CommentGroup, []string) {
	mk := func(ts ...string) (*ast.CommentGroup, []string) {
		g := &ast.CommentGroup{}
		var uniq []string
		for _, t := range ts {
			g.List = append(g.List, &ast.Comment{Text: t})
			uniq = append(uniq, strings.TrimSpace(t))
		}
		return g, uniq
	}
	switch shape {
	case "linedirective":
		return mk("\n//line src.xgo:42:1")
	case "nl-line":
		return mk("\n// cmt-unique-a")
	case "nl-group":
		return mk("\n// cmt-unique-a", "\n// cmt-unique-b")
	case "plain-line":
		return mk("// cmt-unique-a")
	case "block":
		return mk("/* cmt-unique-a */")
	}
	panic(shape)
}

type cmtBuilder struct {
	b         *gx.Build
	mark, mk  types.Object
	x, ch, av types.Object
}

func (cbd *cmtBuilder) filler(n int) {
	cb := cbd.b.Pkg.CB()
	cb.SetComments(nil, false)
	cb.Val(cbd.mark).Val(n).Call(1).EndStmt()
}

// target emits the commented statement of the given kind.
func (cbd *cmtBuilder) target(kind string, g *ast.CommentGroup, once bool) {
	pkg := cbd.b.Pkg
	cb := pkg.CB()
	mkCall := func() { cb.Val(cbd.mk).Val(marker).Call(1) }
	cond := func() { mkCall(); cb.Val(0).BinaryOp(token.GTR) }
	cb.SetComments(g, once)
	compound := func(open func(), body func()) {
		cg, o := cb.BackupComments()
		open()
		cb.SetComments(nil, false)
		body()
		cb.SetComments(cg, o)
		cb.End()
	}
	switch kind {
	case "call":
		cb.Val(cbd.mark).Val(marker).Call(1).EndStmt()
	case "assign":
		cb.VarRef(cbd.x)
		mkCall()
		cb.Assign(1).EndStmt()
	case "define":
		cb.DefineVarStart(token.NoPos, "y")
		mkCall()
		cb.EndInit(1)
	case "vardecl":
		cb.NewVarStart(types.Typ[types.Int], "z")
		mkCall()
		cb.EndInit(1)
	case "opassign":
		cb.VarRef(cbd.x)
		mkCall()
		cb.AssignOp(token.ADD_ASSIGN).EndStmt()
	case "incdec":
		cb.VarRef(cbd.x).IncDec(token.INC).EndStmt()
	case "send":
		cb.Val(cbd.ch)
		mkCall()
		cb.Send().EndStmt()
	case "go":
		cb.Val(cbd.mark).Val(marker).Call(1).Go()
	case "defer":
		cb.Val(cbd.mark).Val(marker).Call(1).Defer()
	case "return":
		cb.Return(0)
	case "if":
		compound(func() { cb.If(); cond(); cb.Then() }, func() { cbd.filler(10) })
	case "ifelse":
		cg, o := cb.BackupComments()
		cb.If()
		cond()
		cb.Then()
		cbd.filler(10)
		cb.Else()
		cbd.filler(11)
		cb.SetComments(cg, o)
		cb.End()
	case "for":
		compound(func() { cb.For(); cond(); cb.Then() }, func() { cbd.filler(10) })
	case "range":
		compound(func() { cb.ForRange(); mkCall(); cb.RangeAssignThen(token.NoPos) }, func() { cbd.filler(10) })
	case "switch":
		cg, o := cb.BackupComments()
		cb.Switch()
		mkCall()
		cb.Then()
		cb.SetComments(nil, false)
		cb.Case().Val(1).Then()
		cbd.filler(10)
		cb.End()
		cb.SetComments(cg, o)
		cb.End()
	case "typeswitch":
		cg, o := cb.BackupComments()
		cb.TypeSwitch("").Val(cbd.av).TypeAssertThen()
		cb.SetComments(nil, false)
		cb.TypeCase().Typ(types.Typ[types.Int]).Then()
		cb.Val(cbd.mark).Val(marker).Call(1).EndStmt()
		cb.End()
		cb.SetComments(cg, o)
		cb.End()
	case "select":
		cg, o := cb.BackupComments()
		cb.Select()
		cb.SetComments(nil, false)
		cb.CommCase().Val(cbd.ch)
		mkCall()
		cb.Send().Then()
		cbd.filler(10)
		cb.End()
		cb.SetComments(cg, o)
		cb.End()
	case "block":
		compound(func() { cb.Block() }, func() { cb.Val(cbd.mark).Val(marker).Call(1).EndStmt() })
	case "labeled":
		l := cb.NewLabel(token.NoPos, token.NoPos, "L777")
		cb.Label(l)
		cb.Val(cbd.mark).Val(marker).Call(1).EndStmt()
		cb.SetComments(nil, false)
		cb.Goto(l)
	case "closurecall":
		cg, o := cb.BackupComments()
		cb.NewClosure(nil, nil, false).BodyStart(pkg)
		cb.SetComments(nil, false)
		cb.Val(cbd.mark).Val(marker).Call(1).EndStmt()
		cb.End()
		cb.SetComments(cg, o)
		cb.Call(0).EndStmt()
	default:
		panic(kind)
	}
	if !once {
		cb.SetComments(nil, false)
	}
}

// container opens the construct whose body holds the target; it returns the closer.
func (cbd *cmtBuilder) container(kind string) func() {
	pkg := cbd.b.Pkg
	cb := pkg.CB()
	cb.SetComments(nil, false)
	end := func() { cb.SetComments(nil, false); cb.End() }
	switch kind {
	case "func":
		return func() {}
	case "if":
		cb.If().Val(true).Then()
		return end
	case "else":
		cb.If().Val(true).Then()
		cbd.filler(20)
		cb.Else()
		return end
	case "for":
		cb.For().Val(true).Then()
		return end
	case "range":
		cb.ForRange().Val(3).RangeAssignThen(token.NoPos)
		return end
	case "case":
		cb.Switch().Val(cbd.x).Then().Case().Val(1).Then()
		return func() { end(); end() }
	case "default":
		cb.Switch().Val(cbd.x).Then().DefaultThen()
		return func() { end(); end() }
	case "typecase":
		cb.TypeSwitch("").Val(cbd.av).TypeAssertThen().TypeCase().Typ(types.Typ[types.String]).Then()
		return func() { end(); end() }
	case "comm":
		cb.Select().CommDefaultThen()
		return func() { end(); end() }
	case "block":
		cb.Block()
		return end
	case "closure":
		cb.NewClosure(nil, nil, false).BodyStart(pkg)
		return func() { cb.SetComments(nil, false); cb.End(); cb.Call(0).EndStmt() }
	}
	panic(kind)
}

func buildCmt(cs cmtCase) (text string, uniq []string, fail string) {
	imp := fixture.New(nil, false)
	b := gx.New(imp, gx.Options{})
	g, uniq := cmtGroup(cs.Shape)
	out := gx.Try(func() {
		pkg := b.Pkg
		p := pkg.NewParam(token.NoPos, "i", types.Typ[types.Int], false)
		mark := pkg.NewFunc(nil, "mark", types.NewTuple(p), nil, false)
		mark.BodyStart(pkg).End()
		p2 := pkg.NewParam(token.NoPos, "i", types.Typ[types.Int], false)
		r2 := pkg.NewParam(token.NoPos, "", types.Typ[types.Int], false)
		mk := pkg.NewFunc(nil, "mk", types.NewTuple(p2), types.NewTuple(r2), false)
		mk.BodyStart(pkg).Val(p2).Return(1).End()
		cb := pkg.NewFunc(nil, "f", nil, nil, false).BodyStart(pkg)
		cb.NewVar(types.Typ[types.Int], "x").NewVar(types.NewChan(types.SendRecv, types.Typ[types.Int]), "ch").NewVar(gogen.TyAny, "av")
		cbd := &cmtBuilder{b: b, mark: mark.Obj(), mk: mk.Obj(), x: cb.Scope().Lookup("x"), ch: cb.Scope().Lookup("ch"), av: cb.Scope().Lookup("av")}
		closer := cbd.container(cs.Container)
		if cs.Pos != "first" {
			cbd.filler(1)
		}
		cbd.target(cs.Kind, g, cs.Once)
		if cs.Pos != "last" && cs.Kind != "return" {
			cbd.filler(2)
		}
		closer()
		cb.SetComments(nil, false)
		cb.End()
	})
	if !b.Accepted(out) {
		return "", uniq, "builder rejected the commented program: " + out.Msg + strings.Join(b.Errs, ";")
	}
	texts, err := oracle.WriteAll(b.Pkg)
	if err != nil {
		return "", uniq, err.Error()
	}
	return texts[""], uniq, ""
}

// findTarget locates the first token of the commented statement in the parsed output.
func findTarget(f *ast.File, kind string) token.Pos {
	var res token.Pos
	hasMarker := func(n ast.Node) bool {
		found := false
		ast.Inspect(n, func(m ast.Node) bool {
			if l, ok := m.(*ast.BasicLit); ok && l.Value == fmt.Sprint(marker) {
				found = true
			}
			if id, ok := m.(*ast.Ident); ok && id.Name == "L777" {
				found = true
			}
			return !found
		})
		return found
	}
	var visitList func(list []ast.Stmt)
	visitStmt := func(s ast.Stmt) {
		ast.Inspect(s, func(n ast.Node) bool {
			switch v := n.(type) {
			case *ast.BlockStmt:
				visitList(v.List)
				return false
			case *ast.CaseClause:
				visitList(v.Body)
				return false
			case *ast.CommClause:
				visitList(v.Body)
				return false
			}
			return true
		})
	}
	visitList = func(list []ast.Stmt) {
		for _, s := range list {
			if res.IsValid() {
				return
			}
			ok := false
			switch kind {
			case "incdec":
				_, ok = s.(*ast.IncDecStmt)
			case "return":
				_, ok = s.(*ast.ReturnStmt)
			case "block":
				if b, is := s.(*ast.BlockStmt); is && len(b.List) == 1 && hasMarker(b.List[0]) {
					ok = true
				}
			case "typeswitch":
				if ts, is := s.(*ast.TypeSwitchStmt); is {
					for _, cc := range ts.Body.List {
						if body := cc.(*ast.CaseClause).Body; len(body) == 1 {
							if es, is := body[0].(*ast.ExprStmt); is && hasMarker(es) {
								ok = true
							}
						}
					}
				}
			case "closurecall":
				if es, is := s.(*ast.ExprStmt); is {
					if call, is := es.X.(*ast.CallExpr); is {
						if fl, is := call.Fun.(*ast.FuncLit); is && len(fl.Body.List) >= 1 {
							if es2, is := fl.Body.List[0].(*ast.ExprStmt); is && hasMarker(es2) {
								if c2, is := es2.X.(*ast.CallExpr); is {
									if id, is := c2.Fun.(*ast.Ident); is && id.Name == "mark" {
										ok = true
									}
								}
							}
						}
					}
				}
			case "labeled":
				if ls, is := s.(*ast.LabeledStmt); is && ls.Label.Name == "L777" {
					// the comment belongs to the labeled statement proper (it follows the label)
					res = ls.Stmt.Pos()
					return
				}
			default:
				// smallest list-level statement whose header/own tokens contain the marker
				if hasMarker(s) {
					inner := false
					switch v := s.(type) {
					case *ast.IfStmt:
						inner = !hasMarker(v.Cond)
					case *ast.ForStmt:
						inner = v.Cond == nil || !hasMarker(v.Cond)
					case *ast.RangeStmt:
						inner = !hasMarker(v.X)
					case *ast.SwitchStmt:
						inner = v.Tag == nil || !hasMarker(v.Tag)
					case *ast.SelectStmt:
						inner = true
						for _, cc := range v.Body.List {
							if comm := cc.(*ast.CommClause).Comm; comm != nil && hasMarker(comm) && kind == "select" {
								inner = false
							}
						}
					case *ast.TypeSwitchStmt, *ast.BlockStmt, *ast.LabeledStmt, *ast.CaseClause, *ast.CommClause:
						inner = true
					case *ast.ExprStmt:
						if call, is := v.X.(*ast.CallExpr); is {
							if _, is := call.Fun.(*ast.FuncLit); is {
								inner = true
							}
						}
					}
					ok = !inner
				}
			}
			if ok {
				res = s.Pos()
				return
			}
			visitStmt(s)
		}
	}
	for _, d := range f.Decls {
		if fd, ok := d.(*ast.FuncDecl); ok && fd.Name.Name == "f" {
			visitList(fd.Body.List)
		}
	}
	return res
}

func judgeCmt(cs cmtCase, text string, uniq []string) (cat, msg string) {
	fset := token.NewFileSet()
	f, err := parser.ParseFile(fset, "out.go", text, parser.ParseComments|parser.SkipObjectResolution)
	if err != nil {
		return "no-parse", "output does not parse: " + err.Error()
	}
	for _, u := range uniq {
		if n := strings.Count(text, u); n != 1 {
			return fmt.Sprintf("comment-count-%d", n), fmt.Sprintf("comment %q occurs %d times", u, n)
		}
	}
	target := findTarget(f, cs.Kind)
	if !target.IsValid() {
		return "target-not-found", "commented statement not found in output"
	}
	// token adjacency: after the last comment of the group the next token starts the target
	var s scanner.Scanner
	file := fset.AddFile("scan.go", -1, len(text))
	s.Init(file, []byte(text), nil, scanner.ScanComments)
	base := file.Base()
	tgtOff := fset.Position(target).Offset
	seen := 0
	for {
		pos, tok, lit := s.Scan()
		if tok == token.EOF {
			break
		}
		off := int(pos) - base
		if tok == token.COMMENT {
			for _, u := range uniq {
				if strings.Contains(lit, u) {
					seen++
				}
			}
			continue
		}
		if tok == token.SEMICOLON && lit == "\n" {
			continue
		}
		if seen > 0 {
			if seen != len(uniq) {
				return "group-split", "comment group interleaved with tokens"
			}
			if off != tgtOff {
				return "not-directly-before", fmt.Sprintf("token after the comment is at offset %d (%q), the statement starts at %d", off, tokText(tok, lit), tgtOff)
			}
			break
		}
	}
	if seen == 0 {
		return "comment-missing", "comment not found by the scanner"
	}
	std, err := format.Source([]byte(text))
	if err != nil {
		return "gofmt-error", err.Error()
	}
	if string(std) != text {
		return "not-gofmt-fixed-point", "output with the comment is not a fixed point of go/format"
	}
	return "", ""
}

func tokText(tok token.Token, lit string) string {
	if lit != "" {
		return lit
	}
	return tok.String()
}

func comments(c *vf.Ctx) {
	for _, k := range cmtKinds {
		for _, ct := range cmtContainers {
			for _, p := range cmtPositions {
				if k == "return" && p != "last" {
					continue
				}
				for _, sh := range cmtShapes {
					for _, once := range []bool{true, false} {
						if !c.Mine() {
							continue
						}
						cs := cmtCase{k, ct, p, sh, once}
						c.Eval(1)
						c.Tally("kind:comment", 1)
						text, uniq, fail := buildCmt(cs)
						cat := ""
						if fail != "" {
							cat = "build-failed"
						} else {
							cat, fail = judgeCmt(cs, text, uniq)
						}
						c.Distinct(text)
						if cat == "" {
							c.Outcome("comment-ok")
							if k == "if" && ct == "for" && p == "middle" && sh == "linedirective" && once {
								c.Sample(text)
							}
							continue
						}
						c.Outcome("comment:" + cat)
						c.Violation(fmt.Sprintf("comment:%s/%s/%s/%s|%s", k, ct, p, sh, cat), cs.key()+": "+fail+"\noutput:\n"+text, payload{"comment", text, cs.key()})
					}
				}
			}
		}
	}
}

func replayComment(key string) (string, bool) {
	for _, k := range cmtKinds {
		for _, ct := range cmtContainers {
			for _, p := range cmtPositions {
				for _, sh := range cmtShapes {
					for _, once := range []bool{true, false} {
						cs := cmtCase{k, ct, p, sh, once}
						if cs.key() != key {
							continue
						}
						text, uniq, fail := buildCmt(cs)
						if fail != "" {
							return fail, true
						}
						cat, msg := judgeCmt(cs, text, uniq)
						if cat != "" {
							return msg + "\n" + text, true
						}
						return "comment placed correctly:\n" + text, false
					}
				}
			}
		}
	}
	return "case not found: " + key, false
}
