// Package c12: printing is lossless and canonical.
package c12

import (
	"bytes"
	"encoding/json"
	"fmt"
	"go/ast"
	"go/format"
	"go/parser"
	"go/token"
	"os"
	"path/filepath"
	"reflect"
	"runtime"
	"sort"
	"strings"

	"github.com/goplus/gogen"

	"verifengine/vf"
)

func init() {
	vf.Register(&vf.Prop{
		ID: "C12", Level: "exploration",
		Rule: "position-less syntax trees printed with the package's own (forked) formatter through the verif hook: (a) every expression tree of operator depth<=2 over all 19 binary and 7 prefix operators, depth-3 chains over one operator per precedence/gluing class, every expression node kind in every operand slot of every other kind; " +
			"(b) every statement/declaration form with each child slot filled by each admissible shape (labels, empty statements, all header shapes of if/for/switch/type switch/select/range, type parameter lists incl. the [P *T] ambiguity, struct tags, embedded fields, interface elements, unions); " +
			"(c) a fixed corpus: every .go file of N standard-library packages with positions and comments stripped (imports pre-sorted); " +
			"(d) real builds with SetComments: every statement kind x position x comment shape x once-flag. Oracle: output parses; parsed tree == input tree up to positions/parentheses; go/format.Source(output)==output; each attached comment occurs exactly once, directly before its statement. non-trivial = trees with >=2 operators/nodes; distinct = distinct printed text",
		Assumptions: []string{"go/parser and go/format 1.23.5 are the reference reader/formatter", "trees contain the parentheses the builder itself inserts (composite literals in headers, conversions to *T/<-chan T/func types)"},
		Run:         run,
		Replay:      replay,
	})
}

type payload struct {
	Kind string `json:"kind"`
	Text string `json:"text"` // the printed/failed text or a description
	Key  string `json:"key"`
}

func id(n string) *ast.Ident { return &ast.Ident{Name: n} }
func lit(v string) *ast.BasicLit {
	k := token.INT
	if strings.HasPrefix(v, `"`) {
		k = token.STRING
	}
	return &ast.BasicLit{Kind: k, Value: v}
}

var binOps = []token.Token{token.ADD, token.SUB, token.MUL, token.QUO, token.REM, token.AND, token.OR, token.XOR, token.AND_NOT, token.SHL, token.SHR,
	token.LAND, token.LOR, token.LSS, token.LEQ, token.GTR, token.GEQ, token.EQL, token.NEQ}
var binReps = []token.Token{token.LOR, token.LAND, token.EQL, token.LSS, token.ADD, token.SUB, token.OR, token.XOR, token.MUL, token.QUO, token.AND, token.AND_NOT, token.SHL}
var unOps = []token.Token{token.SUB, token.ADD, token.XOR, token.NOT, token.ARROW, token.AND}

func un(op token.Token, x ast.Expr) ast.Expr { return &ast.UnaryExpr{Op: op, X: x} }
func star(x ast.Expr) ast.Expr                { return &ast.StarExpr{X: x} }
func bin(op token.Token, x, y ast.Expr) ast.Expr {
	return &ast.BinaryExpr{X: x, Op: op, Y: y}
}

// clone makes a deep copy so that no node is shared between trees.
func clone(e ast.Expr) ast.Expr {
	return reflectClone(reflect.ValueOf(e)).Interface().(ast.Expr)
}

func reflectClone(v reflect.Value) reflect.Value {
	switch v.Kind() {
	case reflect.Ptr:
		if v.IsNil() {
			return v
		}
		n := reflect.New(v.Type().Elem())
		n.Elem().Set(reflectClone(v.Elem()))
		return n
	case reflect.Interface:
		if v.IsNil() {
			return v
		}
		n := reflect.New(v.Type()).Elem()
		n.Set(reflectClone(v.Elem()))
		return n
	case reflect.Struct:
		n := reflect.New(v.Type()).Elem()
		for i := 0; i < v.NumField(); i++ {
			if n.Field(i).CanSet() {
				n.Field(i).Set(reflectClone(v.Field(i)))
			}
		}
		return n
	case reflect.Slice:
		if v.IsNil() {
			return v
		}
		n := reflect.MakeSlice(v.Type(), v.Len(), v.Len())
		for i := 0; i < v.Len(); i++ {
			n.Index(i).Set(reflectClone(v.Index(i)))
		}
		return n
	}
	return v
}

// ---------------------------------------------------------------------------------------
// (a) expressions

// starOfBinary reports whether the tree dereferences the result of a binary operation.
// Such a tree is not one the builder can hold: a binary operation never yields a pointer
// (overloaded operators are emitted as calls), and upstream go/printer has the same
// limitation (it relies on the parser's ParenExpr), so these trees are excluded.
func starOfBinary(e ast.Expr) bool {
	bad := false
	ast.Inspect(e, func(n ast.Node) bool {
		if s, ok := n.(*ast.StarExpr); ok {
			if _, isBin := unparen(s.X).(*ast.BinaryExpr); isBin {
				bad = true
			}
		}
		return !bad
	})
	return bad
}

func exprTrees(thorough bool, yield0 func(kind string, e ast.Expr)) {
	yield := func(kind string, e ast.Expr) {
		if !starOfBinary(e) {
			yield0(kind, e)
		}
	}
	leaf := func() ast.Expr { return id("a") }
	var e1 []func() ast.Expr
	for _, op := range unOps {
		op := op
		e1 = append(e1, func() ast.Expr { return un(op, id("a")) })
	}
	e1 = append(e1, func() ast.Expr { return star(id("p")) })
	for _, op := range binOps {
		op := op
		e1 = append(e1, func() ast.Expr { return bin(op, id("a"), id("b")) })
	}
	for _, f := range e1 {
		yield("expr-d1", f())
	}
	// depth 2, all operators
	var e2 []func() ast.Expr
	for _, op := range unOps {
		for _, in := range e1 {
			op, in := op, in
			e2 = append(e2, func() ast.Expr { return un(op, in()) })
		}
	}
	for _, in := range e1 {
		in := in
		e2 = append(e2, func() ast.Expr { return star(in()) })
	}
	for _, op := range binOps {
		for _, in := range e1 {
			op, in := op, in
			e2 = append(e2, func() ast.Expr { return bin(op, in(), id("c")) })
			e2 = append(e2, func() ast.Expr { return bin(op, id("c"), in()) })
		}
	}
	for _, f := range e2 {
		yield("expr-d2", f())
	}
	for _, op := range binOps {
		for _, l := range e1 {
			for _, r := range e1 {
				yield("expr-d2-both", bin(op, l(), r()))
			}
		}
	}
	// depth 3 over operator class representatives
	reps := binReps
	ureps := unOps
	var r1 []func() ast.Expr
	for _, op := range ureps {
		op := op
		r1 = append(r1, func() ast.Expr { return un(op, id("a")) })
	}
	r1 = append(r1, func() ast.Expr { return star(id("p")) })
	for _, op := range reps {
		op := op
		r1 = append(r1, func() ast.Expr { return bin(op, id("a"), id("b")) })
	}
	var r2 []func() ast.Expr
	for _, op := range ureps {
		for _, in := range r1 {
			op, in := op, in
			r2 = append(r2, func() ast.Expr { return un(op, in()) })
		}
	}
	for _, in := range r1 {
		in := in
		r2 = append(r2, func() ast.Expr { return star(in()) })
	}
	for _, op := range reps {
		for _, in := range r1 {
			op, in := op, in
			r2 = append(r2, func() ast.Expr { return bin(op, in(), id("c")) })
			r2 = append(r2, func() ast.Expr { return bin(op, id("c"), in()) })
		}
	}
	for _, op := range ureps {
		for _, in := range r2 {
			yield("expr-d3", un(op, in()))
		}
	}
	for _, in := range r2 {
		yield("expr-d3", star(in()))
	}
	for _, op := range reps {
		for _, in := range r2 {
			yield("expr-d3", bin(op, in(), id("d")))
			yield("expr-d3", bin(op, id("d"), in()))
		}
	}
	if thorough {
		for _, op := range reps {
			for _, l := range r2 {
				for _, r := range r1 {
					yield("expr-d3-both", bin(op, l(), r()))
					yield("expr-d3-both", bin(op, r(), l()))
				}
			}
		}
	}
	_ = leaf
	// node kinds in operand slots
	T := func() ast.Expr { return id("T") }
	bases := map[string]func() ast.Expr{
		"ident":       func() ast.Expr { return id("a") },
		"lit":         func() ast.Expr { return lit("1") },
		"str":         func() ast.Expr { return lit(`"s"`) },
		"sel":         func() ast.Expr { return &ast.SelectorExpr{X: id("x"), Sel: id("f")} },
		"index":       func() ast.Expr { return &ast.IndexExpr{X: id("x"), Index: id("i")} },
		"indexlist":   func() ast.Expr { return &ast.IndexListExpr{X: id("G"), Indices: []ast.Expr{id("int"), id("string")}} },
		"slice":       func() ast.Expr { return &ast.SliceExpr{X: id("x"), Low: id("i"), High: id("j")} },
		"slice3":      func() ast.Expr { return &ast.SliceExpr{X: id("x"), Low: id("i"), High: id("j"), Max: id("k"), Slice3: true} },
		"slice-open":  func() ast.Expr { return &ast.SliceExpr{X: id("x")} },
		"call":        func() ast.Expr { return &ast.CallExpr{Fun: id("f"), Args: []ast.Expr{id("x")}} },
		"call0":       func() ast.Expr { return &ast.CallExpr{Fun: id("f")} },
		"call-ell":    func() ast.Expr { return &ast.CallExpr{Fun: id("f"), Args: []ast.Expr{id("x"), id("y")}, Ellipsis: 1} },
		"star":        func() ast.Expr { return star(id("p")) },
		"addr":        func() ast.Expr { return un(token.AND, id("x")) },
		"neg":         func() ast.Expr { return un(token.SUB, id("x")) },
		"recv":        func() ast.Expr { return un(token.ARROW, id("c")) },
		"not":         func() ast.Expr { return un(token.NOT, id("b")) },
		"conv-ptr":    func() ast.Expr { return &ast.CallExpr{Fun: &ast.ParenExpr{X: star(T())}, Args: []ast.Expr{id("x")}} },
		"conv-rchan":  func() ast.Expr { return &ast.CallExpr{Fun: &ast.ParenExpr{X: &ast.ChanType{Dir: ast.RECV, Value: T()}}, Args: []ast.Expr{id("x")}} },
		"conv-func":   func() ast.Expr { return &ast.CallExpr{Fun: &ast.ParenExpr{X: &ast.FuncType{Params: &ast.FieldList{}}}, Args: []ast.Expr{id("x")}} },
		"conv-slice":  func() ast.Expr { return &ast.CallExpr{Fun: &ast.ArrayType{Elt: id("byte")}, Args: []ast.Expr{id("s")}} },
		"complit":     func() ast.Expr { return &ast.CompositeLit{Type: T(), Elts: []ast.Expr{lit("1")}} },
		"complit-kv":  func() ast.Expr { return &ast.CompositeLit{Type: T(), Elts: []ast.Expr{&ast.KeyValueExpr{Key: id("k"), Value: lit("1")}}} },
		"complit-ptr": func() ast.Expr { return un(token.AND, &ast.CompositeLit{Type: T()}) },
		"slicelit":    func() ast.Expr { return &ast.CompositeLit{Type: &ast.ArrayType{Elt: id("int")}, Elts: []ast.Expr{lit("1"), lit("2")}} },
		"arraylit":    func() ast.Expr { return &ast.CompositeLit{Type: &ast.ArrayType{Len: &ast.Ellipsis{}, Elt: id("int")}, Elts: []ast.Expr{lit("1")}} },
		"maplit": func() ast.Expr {
			return &ast.CompositeLit{Type: &ast.MapType{Key: id("string"), Value: id("int")}, Elts: []ast.Expr{&ast.KeyValueExpr{Key: lit(`"k"`), Value: lit("1")}}}
		},
		"nested-lit": func() ast.Expr {
			return &ast.CompositeLit{Type: &ast.ArrayType{Elt: T()}, Elts: []ast.Expr{&ast.CompositeLit{Elts: []ast.Expr{lit("1")}}, &ast.CompositeLit{}}}
		},
		"structlit-anon": func() ast.Expr {
			return &ast.CompositeLit{Type: &ast.StructType{Fields: &ast.FieldList{List: []*ast.Field{{Names: []*ast.Ident{id("x")}, Type: id("int")}}}}, Elts: []ast.Expr{lit("1")}}
		},
		"funclit": func() ast.Expr {
			return &ast.FuncLit{Type: &ast.FuncType{Params: &ast.FieldList{}}, Body: &ast.BlockStmt{}}
		},
		"funclit-body": func() ast.Expr {
			return &ast.FuncLit{Type: &ast.FuncType{Params: &ast.FieldList{List: []*ast.Field{{Names: []*ast.Ident{id("x")}, Type: id("int")}}}, Results: &ast.FieldList{List: []*ast.Field{{Type: id("int")}}}},
				Body: &ast.BlockStmt{List: []ast.Stmt{&ast.ReturnStmt{Results: []ast.Expr{id("x")}}}}}
		},
		"assert":  func() ast.Expr { return &ast.TypeAssertExpr{X: id("x"), Type: T()} },
		"add":     func() ast.Expr { return bin(token.ADD, id("a"), id("b")) },
		"mul":     func() ast.Expr { return bin(token.MUL, id("a"), id("b")) },
		"land":    func() ast.Expr { return bin(token.LAND, id("a"), id("b")) },
		"eql":     func() ast.Expr { return bin(token.EQL, id("a"), id("b")) },
		"iface":   func() ast.Expr { return &ast.CallExpr{Fun: &ast.InterfaceType{Methods: &ast.FieldList{}}, Args: []ast.Expr{id("x")}} },
		"chan-of": func() ast.Expr { return &ast.CallExpr{Fun: id("make"), Args: []ast.Expr{&ast.ChanType{Dir: ast.SEND | ast.RECV, Value: &ast.ParenExpr{X: &ast.ChanType{Dir: ast.RECV, Value: id("int")}}}}} },
	}
	var names []string
	for n := range bases {
		names = append(names, n)
	}
	sort.Strings(names)
	ctxs := map[string]func(x ast.Expr) ast.Expr{
		"sel-x":     func(x ast.Expr) ast.Expr { return &ast.SelectorExpr{X: x, Sel: id("m")} },
		"index-x":   func(x ast.Expr) ast.Expr { return &ast.IndexExpr{X: x, Index: lit("0")} },
		"index-i":   func(x ast.Expr) ast.Expr { return &ast.IndexExpr{X: id("v"), Index: x} },
		"slice-x":   func(x ast.Expr) ast.Expr { return &ast.SliceExpr{X: x, Low: lit("1")} },
		"slice-lo":  func(x ast.Expr) ast.Expr { return &ast.SliceExpr{X: id("v"), Low: x, High: id("n")} },
		"slice-hi":  func(x ast.Expr) ast.Expr { return &ast.SliceExpr{X: id("v"), High: x} },
		"slice-max": func(x ast.Expr) ast.Expr { return &ast.SliceExpr{X: id("v"), Low: lit("0"), High: lit("1"), Max: x, Slice3: true} },
		"call-fun":  func(x ast.Expr) ast.Expr { return &ast.CallExpr{Fun: x, Args: []ast.Expr{lit("1")}} },
		"call-arg":  func(x ast.Expr) ast.Expr { return &ast.CallExpr{Fun: id("g"), Args: []ast.Expr{lit("1"), x}} },
		"star-x":    func(x ast.Expr) ast.Expr { return star(x) },
		"assert-x":  func(x ast.Expr) ast.Expr { return &ast.TypeAssertExpr{X: x, Type: id("U")} },
		"elt":       func(x ast.Expr) ast.Expr { return &ast.CompositeLit{Type: &ast.ArrayType{Elt: id("E")}, Elts: []ast.Expr{x, x2(x)}} },
		"kv-key":    func(x ast.Expr) ast.Expr { return &ast.CompositeLit{Type: id("M"), Elts: []ast.Expr{&ast.KeyValueExpr{Key: x, Value: lit("1")}}} },
		"kv-val":    func(x ast.Expr) ast.Expr { return &ast.CompositeLit{Type: id("M"), Elts: []ast.Expr{&ast.KeyValueExpr{Key: lit("1"), Value: x}}} },
		"conv-arg":  func(x ast.Expr) ast.Expr { return &ast.CallExpr{Fun: id("int"), Args: []ast.Expr{x}} },
		"paren":     func(x ast.Expr) ast.Expr { return &ast.ParenExpr{X: x} },
	}
	for _, op := range unOps {
		op := op
		ctxs["un"+op.String()] = func(x ast.Expr) ast.Expr { return un(op, x) }
	}
	for _, op := range binReps {
		op := op
		ctxs["binL"+op.String()] = func(x ast.Expr) ast.Expr { return bin(op, x, id("z")) }
		ctxs["binR"+op.String()] = func(x ast.Expr) ast.Expr { return bin(op, id("z"), x) }
	}
	var cnames []string
	for n := range ctxs {
		cnames = append(cnames, n)
	}
	sort.Strings(cnames)
	for _, bn := range names {
		yield("kind:"+bn, bases[bn]())
		for _, cn := range cnames {
			yield("kind:"+bn+" in "+cn, ctxs[cn](bases[bn]()))
			if thorough {
				for _, cn2 := range cnames {
					yield("kind2", ctxs[cn2](ctxs[cn](bases[bn]())))
				}
			}
		}
	}
}

func x2(x ast.Expr) ast.Expr { return clone(x) }

// wrapExpr puts an expression into a file: package p; var _ = e
func wrapExpr(e ast.Expr) *ast.File {
	return &ast.File{Name: id("p"), Decls: []ast.Decl{&ast.GenDecl{Tok: token.VAR, Specs: []ast.Spec{&ast.ValueSpec{Names: []*ast.Ident{id("_")}, Values: []ast.Expr{e}}}}}}
}

func wrapStmts(ss ...ast.Stmt) *ast.File {
	return &ast.File{Name: id("p"), Decls: []ast.Decl{&ast.FuncDecl{Name: id("f"), Type: &ast.FuncType{Params: &ast.FieldList{}}, Body: &ast.BlockStmt{List: ss}}}}
}

func wrapDecls(ds ...ast.Decl) *ast.File { return &ast.File{Name: id("p"), Decls: ds} }

// roundTrip prints f with the forked formatter and checks the three oracle clauses.
func roundTrip(f *ast.File) (text string, fail string, cat string) {
	var buf bytes.Buffer
	var perr any
	func() {
		defer func() { perr = recover() }()
		if err := gogen.VerifFormatNode(&buf, token.NewFileSet(), f); err != nil {
			perr = err
		}
	}()
	if perr != nil {
		return "", fmt.Sprintf("printing failed: %v", perr), "print-failed"
	}
	text = buf.String()
	fset := token.NewFileSet()
	g, err := parser.ParseFile(fset, "out.go", text, parser.SkipObjectResolution)
	if err != nil {
		return text, "printed text does not parse: " + err.Error(), "no-parse"
	}
	if d := astDiff(f, g); d != "" {
		return text, "parsed tree differs from the printed tree at " + d, "tree-differs"
	}
	std, err := format.Source([]byte(text))
	if err != nil {
		return text, "go/format rejects the printed text: " + err.Error(), "gofmt-error"
	}
	if string(std) != text {
		return text, "printed text is not a fixed point of go/format:\n--- gofmt gives\n" + string(std), "not-gofmt-fixed-point"
	}
	return text, "", ""
}

// ---------------------------------------------------------------------------------------

func run(c *vf.Ctx) {
	check := func(kind, key string, f *ast.File) {
		c.Eval(1)
		text, fail, cat := roundTrip(f)
		c.Tally("kind:"+strings.SplitN(kind, ":", 2)[0], 1)
		if strings.Count(text, "\n") > 3 || strings.ContainsAny(text, "+-*/&|^<!") {
			c.Distinct(text)
		}
		if fail == "" {
			c.Outcome("ok")
			return
		}
		c.Outcome(cat)
		t := text
		if len(t) > 1500 {
			t = t[:1500]
		}
		c.Violation(key+"|"+cat, fail+"\nprinted:\n"+t, payload{kind, t, key})
	}
	n := 0
	exprTrees(c.Thorough(), func(kind string, e ast.Expr) {
		n++
		if !c.Mine() {
			return
		}
		key := kind
		if strings.HasPrefix(kind, "expr-") {
			key = kind + ":" + opShape(e)
		}
		check(kind, key, wrapExpr(e))
		if n%20011 == 0 {
			var b bytes.Buffer
			gogen.VerifFormatNode(&b, token.NewFileSet(), e)
			c.Sample(b.String())
		}
	})
	stmtTrees(func(kind string, f *ast.File) {
		if !c.Mine() {
			return
		}
		check("stmt:"+kind, "stmt:"+kind, f)
	})
	skipped := typeTrees(c.Thorough(), func(kind, src string, f *ast.File) {
		if !c.Mine() {
			return
		}
		check(kind, kind+":"+strings.TrimSpace(strings.TrimPrefix(src, "package p")), f)
	})
	if c.Idx == 0 {
		c.Tally("type_trees_not_valid_syntax_skipped", skipped)
	}
	// corpus
	pkgs := corpusPkgs
	if c.Thorough() {
		pkgs = allStdPkgs()
	}
	for _, dir := range pkgs {
		files, _ := filepath.Glob(filepath.Join(runtime.GOROOT(), "src", dir, "*.go"))
		sort.Strings(files)
		for _, fn := range files {
			if !c.Mine() {
				continue
			}
			if c.Expired() {
				c.Cap("wall budget (corpus)")
				return
			}
			src, err := os.ReadFile(fn)
			if err != nil {
				continue
			}
			fset := token.NewFileSet()
			f, err := parser.ParseFile(fset, fn, src, parser.SkipObjectResolution)
			if err != nil {
				continue
			}
			strip(f)
			rel, _ := filepath.Rel(filepath.Join(runtime.GOROOT(), "src"), fn)
			c.Tally("corpus_files", 1)
			nodeKinds(f, func(k string) { c.Tally("node:"+k, 1) })
			check("corpus", "corpus:"+rel, f)
		}
	}
	comments(c)
}

func opShape(e ast.Expr) string {
	switch v := e.(type) {
	case *ast.BinaryExpr:
		return "(" + opShape(v.X) + v.Op.String() + opShape(v.Y) + ")"
	case *ast.UnaryExpr:
		return v.Op.String() + "(" + opShape(v.X) + ")"
	case *ast.StarExpr:
		return "*(" + opShape(v.X) + ")"
	}
	return "_"
}

func nodeKinds(f *ast.File, add func(string)) {
	seen := map[string]bool{}
	ast.Inspect(f, func(n ast.Node) bool {
		if n != nil {
			k := reflect.TypeOf(n).Elem().Name()
			if !seen[k] {
				seen[k] = true
				add(k)
			}
		}
		return true
	})
}

var corpusPkgs = []string{"strings", "strconv", "sort", "bytes", "errors", "fmt", "go/ast", "go/token", "go/scanner", "go/constant", "container/list", "container/heap", "unicode/utf8",
	"path", "path/filepath", "io", "bufio", "text/tabwriter", "encoding/json", "encoding/binary", "sync", "sync/atomic", "time", "math/bits", "slices", "maps", "iter", "cmp", "context", "flag"}

func allStdPkgs() []string {
	var out []string
	root := filepath.Join(runtime.GOROOT(), "src")
	filepath.Walk(root, func(path string, fi os.FileInfo, err error) error {
		if err != nil || !fi.IsDir() {
			return nil
		}
		if b := filepath.Base(path); b == "testdata" || strings.HasPrefix(b, "_") || strings.HasPrefix(b, ".") {
			return filepath.SkipDir
		}
		rel, _ := filepath.Rel(root, path)
		out = append(out, rel)
		return nil
	})
	return out
}

func replay(raw json.RawMessage) (string, bool) {
	var p payload
	if err := json.Unmarshal(raw, &p); err != nil {
		return err.Error(), false
	}
	var res string
	var bad bool
	found := false
	try := func(kind, key string, f *ast.File) {
		if found || key != p.Key {
			return
		}
		found = true
		text, fail, _ := roundTrip(f)
		if fail != "" {
			res, bad = fail+"\nprinted:\n"+text, true
		} else {
			res = "round trip ok:\n" + text
		}
	}
	exprTrees(true, func(kind string, e ast.Expr) {
		key := kind
		if strings.HasPrefix(kind, "expr-") {
			key = kind + ":" + opShape(e)
		}
		try(kind, key, wrapExpr(e))
	})
	stmtTrees(func(kind string, f *ast.File) { try("stmt:"+kind, "stmt:"+kind, f) })
	if !found && strings.HasPrefix(p.Key, "corpus:") {
		fn := filepath.Join(runtime.GOROOT(), "src", strings.TrimPrefix(p.Key, "corpus:"))
		if src, err := os.ReadFile(fn); err == nil {
			if f, err := parser.ParseFile(token.NewFileSet(), fn, src, parser.SkipObjectResolution); err == nil {
				strip(f)
				try("corpus", p.Key, f)
			}
		}
	}
	if !found && strings.HasPrefix(p.Key, "comment:") {
		return replayComment(p.Key)
	}
	if !found {
		return "case not found: " + p.Key, false
	}
	return res, bad
}
