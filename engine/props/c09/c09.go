// Package c09: each file imports exactly what it uses, under names that never collide.
package c09

import (
	"bytes"
	"encoding/json"
	"fmt"
	"go/ast"
	"go/token"
	"go/types"
	"sort"
	"strconv"
	"strings"

	"github.com/goplus/gogen"

	"verifengine/fixture"
	"verifengine/gx"
	"verifengine/oracle"
	"verifengine/vf"
)

func init() {
	vf.Register(&vf.Prop{
		ID: "C09", Level: "model_checking",
		Rule: "explicit exploration of ALL operation histories up to length L over a package with two files: SetCurFile(a|b); reference to a/fmt, b/fmt (equal base names) or c/util from a function body, from a type expression in a signature, or from a new spec appended to the file's long-lived `type (...)` / `var (...)` block (so a write can fall between two extensions of one declaration); reference under a parameter / local variable named like the import; reference built and discarded (ResetStmt); ForceImport; " +
			"package-level declarations (var fmt, const fmt, func fmt1, type util) before or after the imports; the any-member sugar (generated _autoGo_N name) with a user declaration _autoGo_1; Write(a|b) as an ordinary operation (it marks imports used and fixes names). After every history all files are written twice. " +
			"Oracle against a reference model of the history (set of referenced/forced paths per file, intended path of every planted reference): files parse and the package type-checks; import specs == referenced ∪ forced, no duplicates; local import names pairwise distinct and distinct from every package-level identifier; " +
			"every planted reference resolves (Info.Uses of the qualifier) to the intended path; second write is byte-identical. state = canonical model state (per-file reference sets, declared names, dirty/written flags); non-trivial = histories with >=2 import paths or a colliding declaration",
		Assumptions: []string{"go/types 1.23.5 on the emitted files is the judge of name resolution", "histories in which the builder itself reports an error (redeclaration) are pruned"},
		Run:         run,
		Replay:      replay,
	})
}

var fixtures = map[string]string{
	"a/fmt":  "package fmt\n\ntype T struct{ X int }\n\nvar V T\n\nfunc F() {}\n",
	"b/fmt":  "package fmt\n\ntype T struct{ Y string }\n\nvar V T\n\nfunc F() {}\n",
	"c/util": "package util\n\ntype T []int\n\nvar V T\n\nfunc F() {}\n",
}

type op struct {
	Kind string `json:"kind"`
	A    string `json:"a,omitempty"`
	B    string `json:"b,omitempty"`
}

func (o op) String() string {
	s := o.Kind
	if o.A != "" {
		s += "(" + o.A
		if o.B != "" {
			s += "," + o.B
		}
		s += ")"
	}
	return s
}

func alphabet(full bool) []op {
	a := []op{
		{"setfile", "a.go", ""}, {"setfile", "b.go", ""},
		{"ref", "a/fmt", "body"}, {"ref", "b/fmt", "body"}, {"ref", "c/util", "body"},
		{"ref", "a/fmt", "sig"}, {"ref", "b/fmt", "sig"}, {"ref", "c/util", "sig"},
		{"refunder", "a/fmt", "param"}, {"refunder", "a/fmt", "local"},
		{"discard", "a/fmt", ""}, {"discard", "c/util", ""},
		{"force", "a/fmt", ""},
		{"ref", "a/fmt", "typeblock"}, {"ref", "c/util", "typeblock"}, // two packages, one block: the second extension may follow a write
		{"declare", "var", "fmt"}, {"declare", "func", "fmt1"}, {"declare", "type", "util"}, {"declare", "const", "fmt"},
		{"write", "a.go", ""}, {"write", "b.go", ""},
	}
	if full {
		a = append(a,
			op{"ref", "a/fmt", "pkgvar"}, op{"ref", "b/fmt", "pkgvar"},
			op{"ref", "b/fmt", "typeblock"}, op{"ref", "c/util", "varblock"}, op{"ref", "a/fmt", "varblock"}, op{"ref", "b/fmt", "varblock"},
			op{"refunder", "b/fmt", "param"}, op{"refunder", "c/util", "local"}, op{"refunder", "a/fmt", "result"}, op{"refunder", "a/fmt", "range"},
			op{"discard", "b/fmt", ""}, op{"force", "c/util", ""}, op{"force", "b/fmt", ""},
			op{"declare", "var", "fmt1"}, op{"declare", "func", "fmt"}, op{"declare", "type", "fmt"}, op{"declare", "var", "util1"}, op{"declare", "var", "_autoGo_1"},
			op{"autogen", "", ""},
		)
	}
	return a
}

type site struct {
	file, decl, path string
}

type model struct {
	cur      string
	refs     map[string]map[string]bool // file -> paths referenced
	forced   map[string]map[string]bool
	sites    []site
	declared map[string]bool
	n        int
}

type world struct {
	b    *gx.Build
	m    *model
	refs map[string]gogen.PkgRef
	// declaration blocks that stay open for the life of the package, one per file: a `type ( ... )` and a
	// `var ( ... )` group that later operations extend (a write may happen between two extensions)
	typeBlocks map[string]*gogen.TypeDefs
	varBlocks  map[string]*gogen.VarDefs
}

func newWorld(imp *fixture.Importer) *world {
	b := gx.New(imp, gx.Options{DefaultGo: "a.go"})
	w := &world{b: b, refs: map[string]gogen.PkgRef{}}
	w.m = &model{cur: "a.go", refs: map[string]map[string]bool{"a.go": {}, "b.go": {}}, forced: map[string]map[string]bool{"a.go": {}, "b.go": {}}, declared: map[string]bool{}}
	b.Pkg.SetCurFile("b.go", true)
	b.Pkg.SetCurFile("a.go", true)
	return w
}

func (w *world) pkgref(path string) gogen.PkgRef {
	if r, ok := w.refs[path]; ok {
		return r
	}
	r := w.b.Pkg.Import(path)
	w.refs[path] = r
	return r
}

// apply executes one operation; it returns false when the builder rejected it.
func (w *world) apply(o op) (ok bool, msg string) {
	pkg := w.b.Pkg
	m := w.m
	nErr := len(w.b.Errs)
	out := gx.Try(func() {
		switch o.Kind {
		case "setfile":
			pkg.SetCurFile(o.A, true)
			m.cur = o.A
		case "ref":
			m.n++
			ref := w.pkgref(o.A)
			switch o.B {
			case "body":
				name := "g" + strconv.Itoa(m.n)
				pkg.NewFunc(nil, name, nil, nil, false).BodyStart(pkg).VarRef(nil).Val(ref.Ref("V")).Assign(1).EndStmt().End()
				m.sites = append(m.sites, site{m.cur, name, o.A})
			case "sig":
				name := "h" + strconv.Itoa(m.n)
				p := pkg.NewParam(token.NoPos, "x", ref.Ref("T").Type(), false)
				pkg.NewFunc(nil, name, types.NewTuple(p), nil, false).BodyStart(pkg).End()
				m.sites = append(m.sites, site{m.cur, name, o.A})
			case "pkgvar":
				name := "r" + strconv.Itoa(m.n)
				pkg.NewVarStart(token.NoPos, nil, name).Val(ref.Ref("V")).EndInit(1)
				m.sites = append(m.sites, site{m.cur, name, o.A})
			case "typeblock":
				name := "Tb" + strconv.Itoa(m.n)
				if w.typeBlocks == nil {
					w.typeBlocks = map[string]*gogen.TypeDefs{}
				}
				tb := w.typeBlocks[m.cur]
				if tb == nil {
					tb = pkg.NewTypeDefs()
					w.typeBlocks[m.cur] = tb
				}
				tb.NewType(name).InitType(pkg, ref.Ref("T").Type())
				m.sites = append(m.sites, site{m.cur, name, o.A})
			case "varblock":
				name := "vb" + strconv.Itoa(m.n)
				if w.varBlocks == nil {
					w.varBlocks = map[string]*gogen.VarDefs{}
				}
				vb := w.varBlocks[m.cur]
				if vb == nil {
					vb = pkg.NewVarDefs(pkg.Types.Scope())
					w.varBlocks[m.cur] = vb
				}
				vb.New(token.NoPos, ref.Ref("T").Type(), name)
				m.sites = append(m.sites, site{m.cur, name, o.A})
			}
			m.refs[m.cur][o.A] = true
		case "refunder":
			m.n++
			ref := w.pkgref(o.A)
			base := ref.Types.Name()
			name := "k" + strconv.Itoa(m.n)
			switch o.B {
			case "param":
				p := pkg.NewParam(token.NoPos, base, types.Typ[types.Int], false)
				pkg.NewFunc(nil, name, types.NewTuple(p), nil, false).BodyStart(pkg).VarRef(nil).Val(ref.Ref("V")).Assign(1).EndStmt().End()
			case "result":
				r := pkg.NewParam(token.NoPos, base, types.Typ[types.Int], false)
				pkg.NewFunc(nil, name, nil, types.NewTuple(r), false).BodyStart(pkg).VarRef(nil).Val(ref.Ref("V")).Assign(1).EndStmt().Return(0).End()
			case "local":
				cb := pkg.NewFunc(nil, name, nil, nil, false).BodyStart(pkg)
				cb.DefineVarStart(token.NoPos, base).Val(1).EndInit(1)
				cb.VarRef(nil).VarVal(base).Assign(1).EndStmt()
				cb.VarRef(nil).Val(ref.Ref("V")).Assign(1).EndStmt().End()
			case "range":
				cb := pkg.NewFunc(nil, name, nil, nil, false).BodyStart(pkg)
				cb.ForRange(base).Val(3).RangeAssignThen(token.NoPos)
				cb.VarRef(nil).VarVal(base).Assign(1).EndStmt()
				cb.VarRef(nil).Val(ref.Ref("V")).Assign(1).EndStmt().End().End()
			}
			m.sites = append(m.sites, site{m.cur, name, o.A})
			m.refs[m.cur][o.A] = true
		case "discard":
			m.n++
			ref := w.pkgref(o.A)
			name := "d" + strconv.Itoa(m.n)
			cb := pkg.NewFunc(nil, name, nil, nil, false).BodyStart(pkg)
			cb.Val(ref.Ref("V"))
			cb.ResetStmt()
			cb.End()
		case "force":
			pkg.ForceImport(o.A)
			m.forced[m.cur][o.A] = true
		case "declare":
			switch o.A {
			case "var":
				pkg.NewVar(token.NoPos, types.Typ[types.Int], o.B)
			case "const":
				pkg.NewConstStart(pkg.Types.Scope(), token.NoPos, nil, o.B).Val(1).EndInit(1)
			case "type":
				pkg.NewType(o.B).InitType(pkg, types.Typ[types.Int])
			case "func":
				pkg.NewFunc(nil, o.B, nil, nil, false).BodyStart(pkg).End()
			}
			m.declared[o.B] = true
		case "autogen":
			m.n++
			name := "m" + strconv.Itoa(m.n)
			p := pkg.NewParam(token.NoPos, "v", gogen.TyAny, false)
			pkg.NewFunc(nil, name, types.NewTuple(p), nil, false).BodyStart(pkg).VarRef(nil).Val(p).MemberVal("key", 0).Assign(1).EndStmt().End()
		case "write":
			var sink bytes.Buffer
			if err := pkg.WriteTo(&sink, o.A); err != nil {
				panic(err)
			}
		}
	})
	if out.Panicked || len(w.b.Errs) > nErr {
		return false, out.Msg + strings.Join(w.b.Errs[nErr:], ";")
	}
	return true, ""
}

type verdict struct {
	cat, detail string
}

func (w *world) check(imp *fixture.Importer) []verdict {
	var vs []verdict
	texts, err := oracle.WriteAll(w.b.Pkg)
	if err != nil {
		return []verdict{{"write-failed", err.Error()}}
	}
	texts2, _ := oracle.WriteAll(w.b.Pkg)
	for k := range texts {
		if texts[k] != texts2[k] {
			vs = append(vs, verdict{"second-write-differs", "file " + k + " differs between two consecutive writes"})
		}
	}
	c := oracle.Check(texts, imp, gx.PkgPath)
	all := ""
	for _, n := range c.Names {
		all += "// " + n + "\n" + texts[n]
	}
	if len(c.Parse) > 0 {
		return append(vs, verdict{"no-parse", c.Parse[0] + "\n" + all})
	}
	for _, e := range c.Errs {
		vs = append(vs, verdict{"type-error:" + oracle.NormMsg(e), e + "\n" + all})
		break
	}
	// import blocks
	pkgLevel := map[string]bool{}
	if c.Pkg != nil {
		for _, n := range c.Pkg.Scope().Names() {
			pkgLevel[n] = true
		}
	}
	for i, f := range c.Files {
		fname := c.Names[i]
		want := map[string]bool{}
		for p := range w.m.refs[fname] {
			want[p] = true
		}
		for p := range w.m.forced[fname] {
			want[p] = true
		}
		got := map[string]int{}
		names := map[string]string{}
		for _, im := range f.Imports {
			p, _ := strconv.Unquote(im.Path.Value)
			got[p]++
			local := ""
			if im.Name != nil {
				local = im.Name.Name
			} else if pk, err := imp.Import(p); err == nil {
				local = pk.Name()
			}
			if local == "_" {
				continue
			}
			if other, dup := names[local]; dup {
				vs = append(vs, verdict{"import-name-clash", fmt.Sprintf("file %s imports %s and %s under the same name %s\n%s", fname, other, p, local, all)})
			}
			names[local] = p
			if pkgLevel[local] {
				vs = append(vs, verdict{"import-name-equals-declared", fmt.Sprintf("file %s imports %s as %s, which is also a package-level identifier\n%s", fname, p, local, all)})
			}
		}
		for p, n := range got {
			if n > 1 {
				vs = append(vs, verdict{"import-duplicate", fmt.Sprintf("file %s lists %s %d times\n%s", fname, p, n, all)})
			}
			if !want[p] {
				vs = append(vs, verdict{"import-unexpected", fmt.Sprintf("file %s imports %s, which it neither references nor forces\n%s", fname, p, all)})
			}
		}
		for p := range want {
			if got[p] == 0 {
				vs = append(vs, verdict{"import-missing", fmt.Sprintf("file %s references %s but does not import it\n%s", fname, p, all)})
			}
		}
		// planted references
		for _, s := range w.m.sites {
			if s.file != fname {
				continue
			}
			var decl ast.Node
			for _, d := range f.Decls {
				switch v := d.(type) {
				case *ast.FuncDecl:
					if v.Name.Name == s.decl {
						decl = v
					}
				case *ast.GenDecl:
					for _, sp := range v.Specs {
						if vs2, ok := sp.(*ast.ValueSpec); ok && vs2.Names[0].Name == s.decl {
							decl = vs2
						}
						if ts, ok := sp.(*ast.TypeSpec); ok && ts.Name.Name == s.decl {
							decl = ts
						}
					}
				}
			}
			if decl == nil {
				vs = append(vs, verdict{"decl-missing", fmt.Sprintf("declaration %s not found in file %s\n%s", s.decl, fname, all)})
				continue
			}
			found := false
			ast.Inspect(decl, func(n ast.Node) bool {
				se, ok := n.(*ast.SelectorExpr)
				if !ok || found {
					return true
				}
				if se.Sel.Name != "V" && se.Sel.Name != "T" {
					return true
				}
				id, ok := se.X.(*ast.Ident)
				if !ok {
					return true
				}
				found = true
				if c.Info == nil {
					return false
				}
				pn, isPkg := c.Info.Uses[id].(*types.PkgName)
				if !isPkg {
					vs = append(vs, verdict{"ref-not-a-package", fmt.Sprintf("in %s the qualifier %s of the reference to %s does not denote a package (it denotes %v)\n%s", s.decl, id.Name, s.path, c.Info.Uses[id], all)})
				} else if pn.Imported().Path() != s.path {
					vs = append(vs, verdict{"ref-wrong-package", fmt.Sprintf("in %s the reference to %s resolves to %s\n%s", s.decl, s.path, pn.Imported().Path(), all)})
				}
				return false
			})
			if !found {
				vs = append(vs, verdict{"ref-missing", fmt.Sprintf("no qualified reference found in %s\n%s", s.decl, all)})
			}
		}
	}
	return vs
}

func (m *model) key() string {
	var b strings.Builder
	b.WriteString(m.cur + "|")
	for _, f := range []string{"a.go", "b.go"} {
		var ps []string
		for p := range m.refs[f] {
			ps = append(ps, "r:"+p)
		}
		for p := range m.forced[f] {
			ps = append(ps, "f:"+p)
		}
		sort.Strings(ps)
		b.WriteString(f + "{" + strings.Join(ps, ",") + "}")
	}
	var ds []string
	for d := range m.declared {
		ds = append(ds, d)
	}
	sort.Strings(ds)
	b.WriteString("|" + strings.Join(ds, ","))
	return b.String()
}

type payload struct {
	Ops []op `json:"ops"`
}

func histString(h []op) string {
	var s []string
	for _, o := range h {
		s = append(s, o.String())
	}
	return strings.Join(s, " ; ")
}

func opKinds(h []op) string {
	seen := map[string]bool{}
	var s []string
	for _, o := range h {
		k := o.String()
		if !seen[k] {
			seen[k] = true
			s = append(s, k)
		}
	}
	sort.Strings(s)
	return strings.Join(s, "+")
}

// replayHistory builds a fresh package and applies the history.
func replayHistory(imp *fixture.Importer, h []op) (w *world, okAll bool) {
	w = newWorld(imp)
	for _, o := range h {
		if ok, _ := w.apply(o); !ok {
			return w, false
		}
	}
	return w, true
}

func run(c *vf.Ctx) {
	imp := fixture.New(fixtures, false)
	states := map[string]struct{}{}
	var counter int64
	// quick: every history of length <= 5 over the reduced alphabet (21 operations);
	// thorough: additionally every history of length <= 4 over the full alphabet (40 operations) that uses at
	// least one operation outside the reduced set (the others are already covered).
	explore(c, imp, alphabet(false), 5, nil, states, &counter)
	if c.Thorough() {
		reduced := map[string]bool{}
		for _, o := range alphabet(false) {
			reduced[o.String()] = true
		}
		explore(c, imp, alphabet(true), 4, reduced, states, &counter)
	}
}

// explore runs every history over alpha of length 2..L (each from a fresh package); histories made only of
// operations in skipIfOnly are descended into but not evaluated again.
func explore(c *vf.Ctx, imp *fixture.Importer, alpha []op, L int, skipIfOnly map[string]bool, states map[string]struct{}, counter *int64) {
	var hist []op
	var dfs func(depth int)
	dfs = func(depth int) {
		for _, o := range alpha {
			hist = append(hist, o)
			mine := true
			if depth == 1 {
				mine = c.MineIdx(*counter)
				*counter++
			}
			if mine && depth >= 1 {
				if c.Expired() {
					hist = hist[:len(hist)-1]
					return
				}
				w, ok := replayHistory(imp, hist)
				covered := skipIfOnly != nil
				for _, x := range hist {
					if !skipIfOnly[x.String()] {
						covered = false
					}
				}
				if covered {
					if ok && depth+1 < L {
						dfs(depth + 1)
					}
					hist = hist[:len(hist)-1]
					continue
				}
				c.Eval(1)
				c.Transition(len(hist))
				c.Tally(fmt.Sprintf("histories_of_length_%d", len(hist)), 1)
				if !ok {
					c.Tally("pruned_builder_rejected", 1)
					c.Outcome("pruned")
				} else {
					c.Trace(1)
					k := w.m.key()
					if _, seen := states[k]; !seen {
						states[k] = struct{}{}
						c.State(1)
					}
					c.Outcome(k)
					nt := len(w.m.declared) > 0
					paths := map[string]bool{}
					for _, f := range []string{"a.go", "b.go"} {
						for p := range w.m.refs[f] {
							paths[p] = true
						}
					}
					if nt || len(paths) >= 2 {
						c.Distinct(histString(hist))
					}
					vs := w.check(imp)
					seenCat := map[string]bool{}
					for _, v := range vs {
						if seenCat[v.cat] {
							continue
						}
						seenCat[v.cat] = true
						c.Violation(v.cat+"|"+opKinds(hist), "history: "+histString(hist)+"\n"+v.detail, payload{append([]op{}, hist...)})
					}
					if len(vs) == 0 && len(hist) >= 3 {
						c.Sample(histString(hist))
					}
					if depth+1 < L {
						dfs(depth + 1)
					}
				}
			} else if mine && depth == 0 {
				dfs(depth + 1)
			}
			hist = hist[:len(hist)-1]
		}
	}
	dfs(0)
}

func replay(raw json.RawMessage) (string, bool) {
	var p payload
	if err := json.Unmarshal(raw, &p); err != nil {
		return err.Error(), false
	}
	imp := fixture.New(fixtures, false)
	w, ok := replayHistory(imp, p.Ops)
	if !ok {
		return "builder rejects this history: " + histString(p.Ops), false
	}
	vs := w.check(imp)
	if len(vs) == 0 {
		texts, _ := oracle.WriteAll(w.b.Pkg)
		all := ""
		for n, t := range texts {
			all += "// " + n + "\n" + t
		}
		return "history satisfies the import oracle: " + histString(p.Ops) + "\n" + all, false
	}
	var b strings.Builder
	b.WriteString("history: " + histString(p.Ops) + "\n")
	for _, v := range vs {
		b.WriteString(v.cat + ": " + v.detail + "\n")
	}
	return b.String(), true
}
