package c01

import (
	"fmt"
)

// Statement/declaration rule programs: Go text (valid and invalid alike) generated from
// templates over a small type/value menu; converted to IR, built, and judged by the same
// soundness oracle (accepted => emitted text type-checks).

var ruleTypes = []string{"int", "string", "float64", "error", "any", "env.M", "[]int", "bool", "int8"}
var ruleVals = map[string]string{"int": "env.VInt", "string": "env.VStr", "float64": "env.VF64", "error": "env.VErr", "any": "env.VAny", "env.M": "env.VM", "[]int": "env.VSl", "bool": "env.VBool", "int8": "env.VInt8"}
var ruleConsts = []string{"1", "\"s\"", "1.5", "nil", "true", "300"}

func rulePrograms() map[string]string {
	m := map[string]string{}
	add := func(k, params, results, body string) {
		m[k] = fmt.Sprintf("package p\n\nimport (\n\t\"env\"\n\t\"unsafe\"\n)\n\nvar _ unsafe.Pointer\nvar _ = env.VInt\n\nfunc f(%s) %s {\n%s\n}\n", params, results, body)
	}
	for _, t1 := range ruleTypes {
		v1 := ruleVals[t1]
		// := redeclaring an existing variable from a tuple call / from two values
		add("redecl-tuple/"+t1, "", "", "var x "+t1+" = "+v1+"\nx, y := env.FR2()\n_, _ = x, y")
		add("redecl-tuple2/"+t1, "", "", "var y "+t1+" = "+v1+"\nx, y := env.FR2()\n_, _ = x, y")
		add("redecl-pair/"+t1, "", "", "var x "+t1+" = "+v1+"\nx, y := 1, \"s\"\n_, _ = x, y")
		add("redecl-commaok/"+t1, "", "", "var ok "+t1+" = "+v1+"\nv, ok := env.VMap[\"k\"]\n_, _ = v, ok")
		add("redecl-commaok-v/"+t1, "", "", "var v "+t1+" = "+v1+"\nv, ok := env.VAny.(int)\n_, _ = v, ok")
		add("redecl-recv/"+t1, "", "", "var v "+t1+" = "+v1+"\nv, ok := <-env.VCh\n_, _ = v, ok")
		add("nonew/"+t1, "", "", "x := "+v1+"\nx := "+v1+"\n_ = x")
		add("nonew-pair/"+t1, "", "", "x, y := "+v1+", 1\nx, y := "+v1+", 2\n_, _ = x, y")
		add("redeclare-var/"+t1, "", "", "var x "+t1+"\nvar x int\n_ = x")
		add("param-redeclare/"+t1, "a "+t1, "", "var a "+t1+"\n_ = a")
		add("param-define/"+t1, "a "+t1, "", "a := "+v1+"\n_ = a")
		add("param-define-new/"+t1, "a "+t1, "", "a, b := "+v1+", 1\n_, _ = a, b")
		add("typeswitch-noniface/"+t1, "", "", "switch v := "+v1+".(type) {\ncase int:\n_ = v\n}")
		add("incdec/"+t1, "", "", "x := "+v1+"\nx++\n_ = x")
		add("range-over/"+t1, "", "", "for i := range "+v1+" {\n_ = i\n}")
		add("range-over2/"+t1, "", "", "for i, v := range "+v1+" {\n_, _ = i, v\n}")
		add("deref/"+t1, "", "", "x := "+v1+"\n_ = *x")
		add("call-nonfunc/"+t1, "", "", "x := "+v1+"\nx()")
		add("closure-ret/"+t1, "", "", "func() "+t1+" {\nreturn env.VInt\n}()")
		add("ret-one/"+t1, "", t1, "return env.VInt")
		add("ret-none/"+t1, "", t1, "return")
		add("ret-tuple1/"+t1, "", t1, "return env.FR2()")
		add("ret-extra/"+t1, "", "", "return "+v1)
		for _, t2 := range ruleTypes {
			v2 := ruleVals[t2]
			k := t1 + "," + t2
			add("assign-tuple/"+k, "", "", "var x "+t1+"\nvar y "+t2+"\nx, y = env.FR2()\n_, _ = x, y")
			add("assign-pair/"+k, "", "", "var x "+t1+"\nvar y "+t2+"\nx, y = "+v2+", "+v1+"\n_, _ = x, y")
			add("assign-swap/"+k, "", "", "var x "+t1+"\nvar y "+t2+"\nx, y = y, x")
			add("ret-tuple/"+k, "", "("+t1+", "+t2+")", "return env.FR2()")
			add("ret-two/"+k, "", "("+t1+", "+t2+")", "return env.VInt, env.VErr")
			add("ret-two-short/"+k, "", "("+t1+", "+t2+")", "return "+v1)
			add("range-assign/"+k, "", "", "var x "+t1+"\nvar y "+t2+"\nfor x, y = range env.VSl {\n}")
			add("range-assign-map/"+k, "", "", "var x "+t1+"\nvar y "+t2+"\nfor x, y = range env.VMap {\n}")
			add("range-assign-str/"+k, "", "", "var x "+t1+"\nvar y "+t2+"\nfor x, y = range env.VStr {\n}")
			add("commaok-assign/"+k, "", "", "var x "+t1+"\nvar y "+t2+"\nx, y = env.VMap[\"k\"]")
			add("commaok-assert/"+k, "", "", "var x "+t1+"\nvar y "+t2+"\nx, y = env.VAny.(int)")
			add("commaok-recv/"+k, "", "", "var x "+t1+"\nvar y "+t2+"\nx, y = <-env.VCh")
			add("var2/"+k, "", "", "var x, y "+t1+" = "+v1+", "+v2+"\n_, _ = x, y")
			add("idx-assign/"+k, "", "", "var m map["+convKey(t1)+"]"+t2+"\nm["+v1+"] = "+v2)
			add("sl-assign/"+k, "", "", "var s []"+t1+"\ns["+v2+"] = "+v1)
		}
		for _, c := range ruleConsts {
			add("assign-const/"+t1+","+c, "", "", "var x "+t1+"\nx = "+c)
			add("ret-const/"+t1+","+c, "", t1, "return "+c)
		}
	}
	add("count-1-2", "", "", "x := env.FR2()\n_ = x")
	add("count-3-2", "", "", "x, y, z := env.FR2()\n_, _, _ = x, y, z")
	add("count-2-1", "", "", "x, y := 1\n_, _ = x, y")
	add("count-assign-2-3", "", "", "var x, y int\nx, y = 1, 2, 3")
	add("count-assign-2-1", "", "", "var x, y int\nx, y = 1")
	add("novalue-define", "", "", "x := env.FN()\n_ = x")
	add("novalue-assign", "", "", "var x int\nx = env.FN()")
	add("novalue-arg", "", "", "env.FAny(env.FN())")
	add("novalue-return", "", "int", "return env.FN()")
	add("break-outside", "", "", "break")
	add("continue-outside", "", "", "continue")
	add("continue-in-switch", "", "", "switch {\ncase true:\ncontinue\n}")
	add("break-in-if", "", "", "if env.VBool {\nbreak\n}")
	add("fallthrough-last", "", "", "switch env.VInt {\ncase 1:\nenv.FN()\nfallthrough\n}")
	add("fallthrough-typeswitch", "", "", "switch env.VAny.(type) {\ncase int:\nfallthrough\ndefault:\n}")
	add("break-label-not-enclosing", "", "", "L:\nfor {\n}\nfor {\nbreak L\n}")
	add("continue-label-not-loop", "", "", "L:\nswitch {\ncase true:\nfor {\ncontinue L\n}\n}")
	add("goto-into-block", "", "", "goto L\n{\nL:\nenv.FN()\n}")
	add("goto-over-decl", "", "", "goto L\nx := 1\n_ = x\nL:\nenv.FN()")
	add("label-closure-outer", "", "", "L:\nfor {\nfunc() {\nbreak L\n}()\n}")
	add("dup-case", "", "", "switch env.VInt {\ncase 1:\ncase 1:\n}")
	add("dup-default", "", "", "switch env.VInt {\ndefault:\ndefault:\n}")
	add("dup-typecase", "", "", "switch env.VAny.(type) {\ncase int:\ncase int:\n}")
	add("typecase-impossible", "", "", "switch env.VI.(type) {\ncase int:\n}")
	add("select-nonchan", "", "", "select {\ncase env.VInt <- 1:\n}")
	add("select-recv-nonchan", "", "", "select {\ncase x := <-env.VInt:\n_ = x\n}")
	add("defer-nocall", "", "", "defer env.VInt")
	add("assign-to-const", "", "", "env.CInt = 1")
	add("assign-to-call", "", "", "env.F0() = 1")
	add("assign-to-mapfield", "", "", "var m map[string]env.S\nm[\"k\"].X = 1")
	add("assign-str-index", "", "", "env.VStr[0] = 'a'")
	add("unused-var", "", "", "x := 1")
	add("shadow-use", "", "int", "x := 1\n{\nx := \"s\"\n_ = x\n}\nreturn x")
	add("undefined-later", "", "", "_ = y\ny := 1")
	add("init-cycle-local", "", "", "var x int = x")
	add("const-nonconst", "", "", "const c = env.VInt\n_ = c")
	add("const-typed-overflow", "", "", "const c int8 = 200\n_ = c")
	add("array-index-oob", "", "", "_ = env.VArr[5]")
	add("div-zero", "", "", "_ = env.VInt / 0")
	add("shift-neg", "", "", "_ = env.VInt << -1")
	add("method-on-ptr-nonaddr", "", "", "_ = env.S{1, \"a\", nil}.PM()")
	add("method-value", "", "", "f := env.VS.VM\ng := env.VPS.PM\n_, _ = f(), g()")
	add("method-expr", "", "", "f := env.S.VM\n_ = f(env.VS)")
	add("unexported", "", "", "_ = env.VS.zz")
	return m
}

func convKey(t string) string {
	if t == "[]int" || t == "any" || t == "error" {
		return "string"
	}
	return t
}
