// Package c01: accepted builds emit well-typed Go (soundness of the built-in type checker).
package c01

import (
	"encoding/json"
	"fmt"
	"sort"
	"strings"
	"time"

	"verifengine/ex"
	"verifengine/fixture"
	"verifengine/gx"
	"verifengine/oracle"
	"verifengine/props/c10"
	"verifengine/st"
	"verifengine/vf"
)

func init() {
	vf.Register(&vf.Prop{
		ID: "C01", Level: "exploration",
		Rule: "expression programs: (a) every single-operator expression (6 unary, *, 19 binary, conversions to 34 types, calls, index, slice, selector, assertion, composite literals, builtins, unsafe) over the full 78-atom alphabet in the uses `_ = e` and `x := e`; " +
			"(b) every atom and every single-operator expression over the 18-atom alphabet in each of ~100 use contexts (typed var, assignment, op-assignment, return, send, if/for/switch/case/range, const, expression statement, defer/go, 2-value define, argument); " +
			"(c) depth-2 expressions over a reduced alphabet; (x) stages (a) and the atoms x all uses repeated in the XGo-builtin configuration; (d) ~2.4k statement/declaration-rule programs generated from templates over 9 types (redeclaration by := from tuples/comma-ok forms, no-new-variable, tuple assignment, return count/type, range assignment, misplaced break/continue/fallthrough/goto, duplicate cases, value-less calls used as values, ...); (e) the C10 body space; each is built through the canonical front-end operation sequence into a fresh package; oracle: no error reported => every written file parses and go/types reports nothing but unused vars/imports. " +
			"non-trivial = accepted by the builder; distinct = distinct emitted text",
		Assumptions:    []string{"go/types 1.23.5 is the Go specification for the oracle", "the environment package (fixture) is type-checked by go/types itself"},
		ThoroughBudget: 60 * time.Minute,
		QuickBudget:    15 * time.Minute,
		Run:            run,
		Replay:         replay,
	})
}

type payload struct {
	Expr string `json:"expr"`
	Use  string `json:"use"`
	Idx  int64  `json:"index"`
	XGo  bool   `json:"xgo"`
}

func classify(r *ex.Run) (class, detail string, bad bool) {
	if !r.Accepted {
		return "", "", false
	}
	shape := r.E.Root()
	if r.WriteErr != "" {
		return shape + "|" + r.U.Name + "|write-failed", fmt.Sprintf("accepted, but writing failed: %s\nexpr: %s", r.WriteErr, r.E.Render()), true
	}
	if r.Emitted.OK() {
		return "", "", false
	}
	var first string
	if len(r.Emitted.Parse) > 0 {
		first = "syntax: " + r.Emitted.Parse[0]
	} else {
		first = r.Emitted.Errs[0]
	}
	cat := oracle.NormMsg(first)
	if len(r.Emitted.Parse) > 0 {
		cat = "syntax"
	}
	txt := ""
	for _, t := range r.Texts {
		txt += t
	}
	return shape + "|" + r.U.Name + "|" + cat,
		fmt.Sprintf("builder accepted `%s` in use %s, go/types rejects the emitted package: %s\nemitted:\n%s", r.E.Render(), r.U.Name, r.Emitted.ErrString(), txt), true
}

// xgoImporter is the closed world of the XGo-builtin configuration: env + the declarations of
// internal/builtin (as package bi) + a declaration-only math/big.
func xgoImporter() *fixture.Importer {
	return ex.Importer(map[string]string{"math/big": gx.MathBigStub, "bi": gx.BiFixture()})
}

var xgoOpt = gx.Options{Conf: gx.XGoConf}

// runXGo repeats the stages that do not depend on the use context in the XGo-builtin configuration
// (untyped big-number kinds configured): (a) and the atoms in every use, in both tiers.
func runXGo(c *vf.Ctx, idx *int64) {
	imp := xgoImporter()
	ex.Plan{Thorough: c.Thorough()}.Each(func(stage string, e *ex.E, u *ex.Use) {
		if stage == "c:depth2" || stage == "b:depth1-alluses" {
			return
		}
		i := *idx
		*idx++
		if !c.MineIdx(i) || c.Expired() {
			return
		}
		r := ex.Exec(imp, e, u, xgoOpt, false)
		c.Eval(1)
		c.Tally("stage:xgo:"+stage, 1)
		if r.Accepted {
			c.Tally("accepted", 1)
			c.Tally("xgo_accepted", 1)
			for _, t := range r.Texts {
				c.Distinct(t)
				if strings.Contains(t, "bi.") {
					c.Tally("xgo_emitted_refers_to_big_number_package", 1)
				}
			}
		} else {
			c.Tally("rejected", 1)
			c.Outcome("xgo:rejected")
		}
		class, detail, bad := classify(r)
		if bad {
			c.Outcome("xgo:bad:" + oracle.ErrCategory(class[strings.LastIndex(class, "|")+1:]))
			c.Violation("xgo|"+class, "XGo-builtin configuration: "+detail, payload{e.Render(), u.Name, i, true})
		} else if r.Accepted {
			c.Outcome("xgo:accepted-ok")
		}
	})
}

func run(c *vf.Ctx) {
	imp := ex.Importer(nil)
	plan := ex.Plan{Thorough: c.Thorough()}
	var idx int64
	defer runXGo(c, &idx)
	defer runStmts(c, imp, &idx)
	plan.Each(func(stage string, e *ex.E, u *ex.Use) {
		i := idx
		idx++
		if !c.MineIdx(i) {
			return
		}
		if i%4096 == 0 && c.Expired() {
			c.Cap("wall budget")
		}
		if c.Expired() {
			return
		}
		r := ex.Exec(imp, e, u, gx.Options{}, false)
		c.Eval(1)
		c.Tally("stage:"+stage, 1)
		if (i/int64(c.N))%400 == 0 { // accelerator equivalence self-check on a fixed slice
			if d := ex.SelfCheck(imp, r, gx.Options{}); d != "" {
				panic("harness self-check failed: " + d)
			}
			c.Tally("selfcheck_real_builtin", 1)
		}
		if r.Accepted {
			c.Tally("accepted", 1)
			for _, t := range r.Texts {
				c.Distinct(t)
			}
		} else {
			c.Tally("rejected", 1)
			c.Outcome("rejected")
		}
		class, detail, bad := classify(r)
		if bad {
			c.Outcome("bad:" + oracle.ErrCategory(class[strings.LastIndex(class, "|")+1:]))
			c.Violation(class, detail, payload{e.Render(), u.Name, i, false})
		} else if r.Accepted {
			c.Outcome("accepted-ok")
			if i%50021 == 0 {
				c.Sample(map[string]any{"expr": e.Render(), "use": u.Name, "emitted_ok": true})
			}
		}
	})
}

// ---------------------------------------------------------------------------------------
// statement / declaration rule programs and the body space

func stmtShape(f *st.Func) string {
	var b strings.Builder
	var walk func(ss []*st.S)
	walk = func(ss []*st.S) {
		b.WriteString("[")
		for i, s := range ss {
			if i > 0 {
				b.WriteString(";")
			}
			b.WriteString(s.K)
			for _, bb := range s.B {
				walk(bb)
			}
			for _, cs := range s.Cases {
				walk(cs.Body)
			}
		}
		b.WriteString("]")
	}
	walk(f.Body)
	return b.String()
}

// execFunc builds one IR function; accepted => emitted must type-check.
func execFunc(imp *fixture.Importer, f *st.Func) (accepted bool, class, detail string, bad bool, text string) {
	b := gx.New(imp, gx.Options{})
	out := gx.Try(func() {
		xb := ex.NewBuilder(b)
		st.NewBuilder(xb).Func(f)
	})
	if !b.Accepted(out) {
		return false, "", "", false, ""
	}
	texts, err := oracle.WriteAll(b.Pkg)
	for _, t := range texts {
		text += t
	}
	if err != nil {
		return true, "write-failed", "accepted, but writing failed: " + err.Error(), true, text
	}
	c := oracle.Check(texts, imp, gx.PkgPath)
	if c.OK() {
		return true, "", "", false, text
	}
	first := ""
	if len(c.Parse) > 0 {
		first = "syntax: " + c.Parse[0]
		return true, "syntax", "accepted, emitted text does not parse: " + first + "\n" + text, true, text
	}
	first = c.Errs[0]
	return true, oracle.NormMsg(first), "builder accepted, go/types rejects the emitted package: " + c.ErrString() + "\nemitted:\n" + text, true, text
}

func runStmts(c *vf.Ctx, imp *fixture.Importer, idx *int64) {
	ex.NewOwn(imp)
	rp := rulePrograms()
	var keys []string
	for k := range rp {
		keys = append(keys, k)
	}
	sort.Strings(keys)
	for _, k := range keys {
		i := *idx
		*idx++
		if !c.MineIdx(i) {
			continue
		}
		fs, err := st.ParseFuncs(rp[k])
		c.Eval(1)
		c.Tally("stage:d:stmt-rules", 1)
		if err != nil || len(fs) != 1 {
			c.Tally("rules_not_in_ir", 1)
			c.Note(fmt.Sprintf("rule program %s not convertible to IR: %v", k, err))
			continue
		}
		acc, class, detail, bad, text := execFunc(imp, fs[0])
		if acc {
			c.Tally("accepted", 1)
			c.Distinct(text)
		} else {
			c.Tally("rejected", 1)
			c.Outcome("rejected")
		}
		kind := k
		if j := strings.Index(k, "/"); j > 0 {
			kind = k[:j]
		}
		if bad {
			c.Outcome("bad:" + oracle.ErrCategory(class))
			c.Violation("rule:"+k+"|stmt|"+class, "program "+k+":\n"+rp[k]+"\n"+detail, payload{k, "rule:" + kind, i, false})
		} else if acc {
			c.Outcome("accepted-ok")
		}
	}
	c10.Bodies(c.Thorough(), func(family string, body []*st.S) {
		i := *idx
		*idx++
		if !c.MineIdx(i) || c.Expired() {
			return
		}
		if !c.Thorough() && family == "termination-w1d2" {
			return // quick bound: the width-2/depth-1, shadow and label families
		}
		f := &st.Func{Name: "f", Results: []string{"int"}, Body: body}
		acc, class, detail, bad, text := execFunc(imp, f)
		c.Eval(1)
		c.Tally("stage:e:bodies", 1)
		if acc {
			c.Tally("accepted", 1)
			c.Distinct(text)
		} else {
			c.Outcome("rejected")
		}
		if bad {
			c.Outcome("bad:" + oracle.ErrCategory(class))
			c.Violation("body:"+stmtShape(f)+"|stmt|"+class, detail, payload{f.Render(), "body", i, false})
		}
	})
}

func replay(raw json.RawMessage) (string, bool) {
	var p payload
	if err := json.Unmarshal(raw, &p); err != nil {
		return err.Error(), false
	}
	imp := ex.Importer(nil)
	if strings.HasPrefix(p.Use, "rule:") {
		ex.NewOwn(imp)
		fs, err := st.ParseFuncs(rulePrograms()[p.Expr])
		if err != nil || len(fs) != 1 {
			return "rule program not convertible", false
		}
		acc, _, detail, bad, text := execFunc(imp, fs[0])
		if !bad {
			return fmt.Sprintf("program %s: accepted=%v; emitted text type-checks\n%s", p.Expr, acc, text), false
		}
		return detail, true
	}
	if p.Use == "body" {
		ex.NewOwn(imp)
		var res string
		var bad, found bool
		for _, th := range []bool{false, true} {
			c10.Bodies(th, func(family string, body []*st.S) {
				f := &st.Func{Name: "f", Results: []string{"int"}, Body: body}
				if found || f.Render() != p.Expr {
					return
				}
				found = true
				_, _, res, bad, _ = execFunc(imp, f)
			})
			if found {
				return res, bad
			}
		}
		return "body not found", false
	}
	var found *ex.Run
	var idx int64
	opt := gx.Options{}
	if p.XGo {
		imp, opt = xgoImporter(), xgoOpt
	}
	for _, th := range []bool{false, true} {
		idx = 0
		ex.Plan{Thorough: th}.Each(func(stage string, e *ex.E, u *ex.Use) {
			if found == nil && u.Name == p.Use && e.Render() == p.Expr {
				found = ex.Exec(imp, e, u, opt, true)
			}
			idx++
		})
		if found != nil {
			break
		}
	}
	if found == nil {
		return "case not found in the enumeration: " + p.Expr + " in " + p.Use, false
	}
	_, detail, bad := classify(found)
	if !bad {
		return fmt.Sprintf("`%s` in %s: accepted=%v errs=%v panic=%q; emitted text type-checks", p.Expr, p.Use, found.Accepted, found.Errs, found.Outcome.Msg), false
	}
	return detail, true
}
