// Package c01: accepted builds emit well-typed Go (soundness of the built-in type checker).
package c01

import (
	"encoding/json"
	"fmt"
	"strings"

	"verifengine/ex"
	"verifengine/gx"
	"verifengine/oracle"
	"verifengine/vf"
)

func init() {
	vf.Register(&vf.Prop{
		ID: "C01", Level: "exploration",
		Rule: "expression programs: (a) every single-operator expression (6 unary, *, 19 binary, conversions to 34 types, calls, index, slice, selector, assertion, composite literals, builtins, unsafe) over the full 78-atom alphabet in the uses `_ = e` and `x := e`; " +
			"(b) every atom and every single-operator expression over the 18-atom alphabet in each of ~100 use contexts (typed var, assignment, op-assignment, return, send, if/for/switch/case/range, const, expression statement, defer/go, 2-value define, argument); " +
			"(c) depth-2 expressions over a reduced alphabet; each is built through the canonical front-end operation sequence into a fresh package; oracle: no error reported => every written file parses and go/types reports nothing but unused vars/imports. " +
			"non-trivial = accepted by the builder; distinct = distinct emitted text",
		Assumptions: []string{"go/types 1.23.5 is the Go specification for the oracle", "the environment package (fixture) is type-checked by go/types itself"},
		Run:         run,
		Replay:      replay,
	})
}

type payload struct {
	Expr string `json:"expr"`
	Use  string `json:"use"`
	Idx  int64  `json:"index"`
	XGo  bool   `json:"xgo"`
}

func classify(r *ex.Run) (class, detail string, bad bool) {
	if !r.Accepted {
		return "", "", false
	}
	shape := r.E.Root()
	if r.WriteErr != "" {
		return shape + "|" + r.U.Name + "|write-failed", fmt.Sprintf("accepted, but writing failed: %s\nexpr: %s", r.WriteErr, r.E.Render()), true
	}
	if r.Emitted.OK() {
		return "", "", false
	}
	var first string
	if len(r.Emitted.Parse) > 0 {
		first = "syntax: " + r.Emitted.Parse[0]
	} else {
		first = r.Emitted.Errs[0]
	}
	cat := oracle.NormMsg(first)
	if len(r.Emitted.Parse) > 0 {
		cat = "syntax"
	}
	txt := ""
	for _, t := range r.Texts {
		txt += t
	}
	return shape + "|" + r.U.Name + "|" + cat,
		fmt.Sprintf("builder accepted `%s` in use %s, go/types rejects the emitted package: %s\nemitted:\n%s", r.E.Render(), r.U.Name, r.Emitted.ErrString(), txt), true
}

func run(c *vf.Ctx) {
	imp := ex.Importer(nil)
	plan := ex.Plan{Thorough: c.Thorough()}
	var idx int64
	plan.Each(func(stage string, e *ex.E, u *ex.Use) {
		i := idx
		idx++
		if !c.MineIdx(i) {
			return
		}
		if i%4096 == 0 && c.Expired() {
			c.Cap("wall budget")
		}
		if c.Expired() {
			return
		}
		r := ex.Exec(imp, e, u, gx.Options{}, false)
		c.Eval(1)
		c.Tally("stage:"+stage, 1)
		if (i/int64(c.N))%400 == 0 { // accelerator equivalence self-check on a fixed slice
			if d := ex.SelfCheck(imp, r, gx.Options{}); d != "" {
				panic("harness self-check failed: " + d)
			}
			c.Tally("selfcheck_real_builtin", 1)
		}
		if r.Accepted {
			c.Tally("accepted", 1)
			for _, t := range r.Texts {
				c.Distinct(t)
			}
		} else {
			c.Tally("rejected", 1)
			c.Outcome("rejected")
		}
		class, detail, bad := classify(r)
		if bad {
			c.Outcome("bad:" + oracle.ErrCategory(class[strings.LastIndex(class, "|")+1:]))
			c.Violation(class, detail, payload{e.Render(), u.Name, i, false})
		} else if r.Accepted {
			c.Outcome("accepted-ok")
			if i%50021 == 0 {
				c.Sample(map[string]any{"expr": e.Render(), "use": u.Name, "emitted_ok": true})
			}
		}
	})
}

func replay(raw json.RawMessage) (string, bool) {
	var p payload
	if err := json.Unmarshal(raw, &p); err != nil {
		return err.Error(), false
	}
	imp := ex.Importer(nil)
	var found *ex.Run
	var idx int64
	for _, th := range []bool{false, true} {
		idx = 0
		ex.Plan{Thorough: th}.Each(func(stage string, e *ex.E, u *ex.Use) {
			if found == nil && u.Name == p.Use && e.Render() == p.Expr {
				found = ex.Exec(imp, e, u, gx.Options{}, true)
			}
			idx++
		})
		if found != nil {
			break
		}
	}
	if found == nil {
		return "case not found in the enumeration: " + p.Expr + " in " + p.Use, false
	}
	_, detail, bad := classify(found)
	if !bad {
		return fmt.Sprintf("`%s` in %s: accepted=%v errs=%v panic=%q; emitted text type-checks", p.Expr, p.Use, found.Accepted, found.Errs, found.Outcome.Msg), false
	}
	return detail, true
}
