// Package c10: missing-return and label diagnostics coincide with Go's rules.
package c10

import (
	"encoding/json"
	"fmt"
	"go/token"
	"sort"
	"strings"
	"time"

	"verifengine/ex"
	"verifengine/fixture"
	"verifengine/gx"
	"verifengine/oracle"
	"verifengine/st"
	"verifengine/vf"
)

func init() {
	vf.Register(&vf.Prop{
		ID: "C10", Level: "exploration",
		Rule: "bodies of `func f() int` enumerated over return, panic (builtin and shadowed by a package function / local variable / parameter), plain calls, if/else/else-if, for (with/without condition, 3-clause), range, switch and type switch (with/without default, default first, fallthrough), select (with/without default, empty), blocks, closures needing their own return, " +
			"break/continue/goto with and without labels, labeled loops/switches/blocks/empty statements; nesting depth D, <=2 statements per block; plus a label family: 0-2 labels defined 0-2 times, used by goto/break/continue or not, in function and closure scopes. " +
			"Only bodies whose reference text has no go/types error other than the three studied diagnostics are judged. Oracle: multiset of builder diagnostics {missing return, label defined and not used, label already defined} == go/types {missing return, label declared and not used, label already declared} on the reference text. " +
			"non-trivial = body with >=1 compound statement; distinct = distinct reference text",
		Assumptions:    []string{"go/types 1.23.5 terminating-statement and label analysis is the specification", "labels are created up front per function body, as a compiler front end does"},
		ThoroughBudget: 80 * time.Minute,
		Run:            run,
		Replay:         replay,
	})
}

var (
	ret = func() *st.S { return &st.S{K: st.KReturn, E: []*ex.E{ex.Lit(token.INT, "1")}} }
	pan = func() *st.S {
		return &st.S{K: st.KExpr, E: []*ex.E{ex.Call(ex.Uni("panic"), ex.Lit(token.STRING, `"x"`))}}
	}
	call  = func() *st.S { return &st.S{K: st.KExpr, E: []*ex.E{ex.Call(ex.Obj("FN"))}} }
	cond  = func() *ex.E { return ex.Obj("VBool") }
	brk   = func(l string) *st.S { return &st.S{K: st.KBreak, Label: l} }
	cont  = func(l string) *st.S { return &st.S{K: st.KContinue, Label: l} }
	gotoS = func(l string) *st.S { return &st.S{K: st.KGoto, Label: l} }
)

type ctx struct {
	loop, breakable bool
	loopLabels      []string // labels of enclosing loops
	brkLabels       []string // labels of enclosing breakable statements (incl. blocks)
}

type block = []*st.S

// atoms valid in the context (simplest first).
func atoms(c ctx) []*st.S {
	out := []*st.S{ret(), pan(), call()}
	if c.breakable {
		out = append(out, brk(""))
	}
	if c.loop {
		out = append(out, cont(""))
	}
	for _, l := range c.brkLabels {
		out = append(out, brk(l))
	}
	for _, l := range c.loopLabels {
		out = append(out, cont(l))
	}
	return out
}

type gen struct {
	nlabel int
	width  int
}

func ifS(c *ex.E, then block, els block) *st.S {
	s := &st.S{K: st.KIf, E: []*ex.E{c}, B: [][]*st.S{then}}
	if els != nil {
		s.B = append(s.B, els)
	}
	return s
}

// stmts enumerates statements of nesting depth <= d in context c.
func (g *gen) stmts(d int, c ctx, yield func(*st.S)) {
	for _, a := range atoms(c) {
		yield(a)
	}
	if d == 0 {
		return
	}
	inner := func(c2 ctx) []block { return g.blocks(d-1, c2) }
	same := inner(c)
	// reduced second-branch menu
	few := func(bs []block) []block {
		var out []block
		for _, b := range bs {
			if len(b) <= 1 {
				out = append(out, b)
			}
		}
		return out
	}
	fewSame := few(same)
	for _, x := range same {
		yield(ifS(cond(), x, nil))
		yield(&st.S{K: st.KBlock, B: [][]*st.S{x}})
	}
	for _, x := range same {
		for _, y := range fewSame {
			yield(ifS(cond(), x, y))
		}
	}
	for _, x := range fewSame {
		for _, y := range fewSame {
			// if .. else if .. else
			elif := ifS(cond(), y, fewSame[1%len(fewSame)])
			elif.Define = true
			yield(ifS(cond(), x, []*st.S{elif}))
			elif2 := ifS(cond(), y, nil)
			elif2.Define = true
			yield(ifS(cond(), x, []*st.S{elif2}))
		}
	}
	// loops
	lc := c
	lc.loop, lc.breakable = true, true
	loopB := inner(lc)
	for _, x := range loopB {
		yield(&st.S{K: st.KFor, B: [][]*st.S{x}})
		yield(&st.S{K: st.KFor, E: []*ex.E{cond()}, B: [][]*st.S{x}})
		yield(&st.S{K: st.KRange, E: []*ex.E{ex.Obj("VSl")}, B: [][]*st.S{x}})
	}
	fewLoop := few(loopB)
	for _, x := range fewLoop {
		yield(&st.S{K: st.KFor, Init: &st.S{K: st.KDefine, Names: []string{"i"}, E: []*ex.E{ex.Lit(token.INT, "0")}}, E: []*ex.E{ex.Bin(token.LSS, ex.Local("i"), ex.Lit(token.INT, "3"))},
			Post: &st.S{K: st.KIncDec, L: []*st.Lhs{{K: "local", Name: "i"}}, Tok: token.INC}, B: [][]*st.S{x}})
		yield(&st.S{K: st.KFor, Init: &st.S{K: st.KDefine, Names: []string{"i"}, E: []*ex.E{ex.Lit(token.INT, "0")}},
			Post: &st.S{K: st.KIncDec, L: []*st.Lhs{{K: "local", Name: "i"}}, Tok: token.INC}, B: [][]*st.S{x}})
	}
	// switches
	sc := c
	sc.breakable = true
	swB := inner(sc)
	one := func(e *ex.E) []*ex.E { return []*ex.E{e} }
	fewSw := few(swB)
	for _, x := range swB {
		yield(&st.S{K: st.KSwitch, Cases: []*st.Case{{Exprs: one(cond()), Body: x}}})
		yield(&st.S{K: st.KTypeSw, E: one(ex.Obj("VAny")), Cases: []*st.Case{{Types: []string{"int"}, Body: x}}})
		yield(&st.S{K: st.KSelect, Cases: []*st.Case{{Comm: &st.S{K: st.KExpr, E: one(ex.Un(token.ARROW, ex.Obj("VCh")))}, Body: x}}})
		for _, y := range fewSw {
			yield(&st.S{K: st.KSwitch, Cases: []*st.Case{{Exprs: one(cond()), Body: x}, {Default: true, Body: y}}})
			yield(&st.S{K: st.KSwitch, Cases: []*st.Case{{Default: true, Body: y}, {Exprs: one(cond()), Body: x}}})
			yield(&st.S{K: st.KSwitch, E: one(ex.Obj("VInt")), Cases: []*st.Case{{Exprs: one(ex.Lit(token.INT, "1")), Body: append(append(block{}, x...), &st.S{K: st.KFallthrough})}, {Default: true, Body: y}}})
			yield(&st.S{K: st.KTypeSw, E: one(ex.Obj("VAny")), Cases: []*st.Case{{Types: []string{"int", "string"}, Body: x}, {Default: true, Body: y}}})
			yield(&st.S{K: st.KTypeSw, Name: "v", E: one(ex.Obj("VAny")), Cases: []*st.Case{{Types: []string{"nil"}, Body: x}, {Default: true, Body: y}}})
			yield(&st.S{K: st.KSelect, Cases: []*st.Case{{Comm: &st.S{K: st.KExpr, E: one(ex.Un(token.ARROW, ex.Obj("VCh")))}, Body: x}, {Default: true, Body: y}}})
			yield(&st.S{K: st.KSelect, Cases: []*st.Case{{Comm: &st.S{K: st.KSend, E: []*ex.E{ex.Obj("VCh"), ex.Lit(token.INT, "1")}}, Body: x}, {Comm: &st.S{K: st.KExpr, E: one(ex.Un(token.ARROW, ex.Obj("VCh")))}, Body: y}}})
		}
	}
	yield(&st.S{K: st.KSelect})
	yield(&st.S{K: st.KSwitch})
	// closure with its own return requirement: fresh context
	for _, x := range g.blocks(d-1, ctx{}) {
		yield(&st.S{K: st.KClosure, T: "int", B: [][]*st.S{x}})
	}
	// labeled statements (one fresh label per use)
	if g.nlabel < 2 {
		g.nlabel++
		l := fmt.Sprintf("L%d", g.nlabel)
		llc := lc
		llc.loopLabels = append(append([]string{}, c.loopLabels...), l)
		llc.brkLabels = append(append([]string{}, c.brkLabels...), l)
		for _, x := range g.blocks(d-1, llc) {
			yield(&st.S{K: st.KLabeled, Label: l, B: [][]*st.S{{{K: st.KFor, B: [][]*st.S{x}}}}})
			yield(&st.S{K: st.KLabeled, Label: l, B: [][]*st.S{{{K: st.KFor, E: one(cond()), B: [][]*st.S{x}}}}})
		}
		lsc := sc
		lsc.brkLabels = append(append([]string{}, c.brkLabels...), l)
		for _, x := range g.blocks(d-1, lsc) {
			yield(&st.S{K: st.KLabeled, Label: l, B: [][]*st.S{{{K: st.KSwitch, Cases: []*st.Case{{Exprs: one(cond()), Body: x}, {Default: true, Body: block{ret()}}}}}}})
			yield(&st.S{K: st.KLabeled, Label: l, B: [][]*st.S{{{K: st.KSelect, Cases: []*st.Case{{Default: true, Body: x}}}}}})
		}
		lbc := c
		lbc.brkLabels = append(append([]string{}, c.brkLabels...), l)
		for _, x := range g.blocks(d-1, lbc) {
			yield(&st.S{K: st.KLabeled, Label: l, B: [][]*st.S{{{K: st.KBlock, B: [][]*st.S{x}}}}})
		}
		g.nlabel--
	}
}

// blocks enumerates statement lists of length <= width whose statements have depth <= d.
func (g *gen) blocks(d int, c ctx) []block {
	var ss []*st.S
	g.stmts(d, c, func(s *st.S) { ss = append(ss, s) })
	out := []block{{}}
	for _, s := range ss {
		out = append(out, block{s})
	}
	if g.width >= 2 {
		// first statement from a reduced menu: the plain call and every compound of depth<=d
		// that can influence what follows (non-atoms), capped deterministically
		var firsts []*st.S
		firsts = append(firsts, call())
		n := 0
		for _, s := range ss {
			switch s.K {
			case st.KIf, st.KFor, st.KSwitch, st.KSelect, st.KLabeled, st.KBlock:
				if n < 40 {
					firsts = append(firsts, s)
					n++
				}
			}
		}
		for _, f := range firsts {
			for _, s := range ss {
				out = append(out, block{f, s})
			}
		}
	}
	return out
}

// label family
func labelBodies() []block {
	lab := func(l string, inner *st.S) *st.S {
		s := &st.S{K: st.KLabeled, Label: l}
		if inner != nil {
			s.B = [][]*st.S{{inner}}
		}
		return s
	}
	forS := func(b block) *st.S { return &st.S{K: st.KFor, B: [][]*st.S{b}} }
	clos := func(b block) *st.S { return &st.S{K: st.KClosure, T: "", B: [][]*st.S{b}} }
	return []block{
		{lab("A", nil), ret()},
		{lab("A", call()), ret()},
		{lab("A", nil), gotoS("A")},
		{gotoS("A"), lab("A", nil), ret()},
		{lab("A", nil), lab("A", nil), ret()},
		{lab("A", nil), lab("A", nil), gotoS("A")},
		{lab("A", nil), lab("B", nil), ret()},
		{lab("A", nil), lab("B", nil), gotoS("B")},
		{lab("A", nil), lab("B", nil), gotoS("A")},
		{lab("A", forS(block{brk("A")})), ret()},
		{lab("A", forS(block{cont("A")}))},
		{lab("A", forS(block{brk("")})), ret()},
		{lab("A", forS(block{lab("B", forS(block{cont("A")}))}))},
		{lab("A", forS(block{lab("B", forS(block{brk("B")}))}))},
		{lab("A", forS(block{lab("B", forS(block{brk("A")}))})), ret()},
		{lab("A", nil), clos(block{lab("A", nil)}), ret()},
		{lab("A", nil), clos(block{lab("A", nil), gotoS("A")}), ret()},
		{clos(block{lab("A", nil)}), lab("A", nil), gotoS("A")},
		{clos(block{lab("A", nil), lab("A", nil)}), ret()},
		{lab("A", call()), lab("A", call()), lab("B", call()), ret()},
		{ret(), lab("A", nil)},
		{gotoS("A"), lab("A", nil)},
		{lab("A", &st.S{K: st.KBlock, B: [][]*st.S{{brk("A")}}}), ret()},
		{lab("A", &st.S{K: st.KSwitch, Cases: []*st.Case{{Default: true, Body: block{brk("A")}}}}), ret()},
		{lab("A", &st.S{K: st.KSelect, Cases: []*st.Case{{Default: true, Body: block{brk("A")}}}}), ret()},
		{lab("A", &st.S{K: st.KRange, E: []*ex.E{ex.Obj("VSl")}, B: [][]*st.S{{cont("A")}}}), ret()},
	}
}

// shadowing family: panic is not the builtin
type variant struct {
	name   string
	prefix string       // reference text before func f
	pre    func(*build) // builder ops before func f
	params [][2]string
	first  block // statements prepended to the body
}

type build struct {
	b  *gx.Build
	xb *ex.Builder
	sb *st.Builder
}

func variants() []variant {
	return []variant{
		{name: "plain"},
		{name: "panic-local", first: block{&st.S{K: st.KDefine, Names: []string{"panic"}, E: []*ex.E{ex.Obj("FAny")}}}},
		{name: "panic-param", params: [][2]string{{"panic", "func(int) int"}}},
		{name: "panic-pkgfunc", prefix: "func panic(v any) {\n}\n",
			pre: func(bd *build) {
				bd.sb.Func(&st.Func{Name: "panic", Params: [][2]string{{"v", "any"}}})
			}},
	}
}

func refSource(v variant, body block) string {
	var b strings.Builder
	b.WriteString("package p\n\nimport \"env\"\n\nvar _ = env.VInt\n\n")
	b.WriteString(v.prefix)
	f := &st.Func{Name: "f", Params: v.params, Results: []string{"int"}, Body: append(append(block{}, v.first...), body...)}
	b.WriteString(f.Render())
	return b.String()
}

type verdict struct {
	builder, ref []string
	refOther     string
	builderOther string
	text         string
}

func classify(msg string) string {
	switch {
	case strings.Contains(msg, "missing return"):
		return "missing-return"
	case strings.Contains(msg, "defined and not used") || (strings.Contains(msg, "label") && strings.Contains(msg, "declared and not used")):
		return "label-unused"
	case strings.Contains(msg, "already defined") || (strings.Contains(msg, "label") && strings.Contains(msg, "already declared")):
		return "label-duplicate"
	}
	return ""
}

var theImp *fixture.Importer

func sharedImp() *fixture.Importer {
	if theImp == nil {
		theImp = ex.Importer(nil)
	}
	return theImp
}

func exec(v variant, body block) verdict {
	var vd verdict
	src := refSource(v, body)
	vd.text = src
	imp := sharedImp()
	ref := oracle.CheckSrc(src, imp, gx.PkgPath)
	if len(ref.Parse) > 0 {
		vd.refOther = "parse: " + ref.Parse[0]
		return vd
	}
	for _, m := range ref.Errs {
		if c := classify(m); c != "" {
			vd.ref = append(vd.ref, c)
		} else if vd.refOther == "" {
			vd.refOther = m
		}
	}
	if vd.refOther != "" {
		return vd
	}
	b := gx.New(imp, gx.Options{})
	bd := &build{b: b}
	out := gx.Try(func() {
		bd.xb = ex.NewBuilder(b)
		bd.sb = st.NewBuilder(bd.xb)
		if v.pre != nil {
			v.pre(bd)
		}
		bd.sb.Func(&st.Func{Name: "f", Params: v.params, Results: []string{"int"}, Body: append(append(block{}, v.first...), body...)})
	})
	msgs := append([]string{}, b.Errs...)
	if out.Panicked {
		msgs = append(msgs, out.Msg)
	}
	for _, m := range msgs {
		if c := classify(m); c != "" {
			vd.builder = append(vd.builder, c)
		} else if vd.builderOther == "" {
			vd.builderOther = m
		}
	}
	sort.Strings(vd.builder)
	sort.Strings(vd.ref)
	return vd
}

type payload struct {
	Variant string `json:"variant"`
	Body    string `json:"body"`
	Index   int64  `json:"index"`
	Family  string `json:"family"`
}

func shapeOf(body block) string {
	var b strings.Builder
	var walk func(ss []*st.S)
	walk = func(ss []*st.S) {
		b.WriteString("[")
		for i, s := range ss {
			if i > 0 {
				b.WriteString(";")
			}
			k := s.K
			if s.K == st.KExpr {
				if s.E[0].K == ex.KCall && s.E[0].A[0].K == ex.KUni {
					k = s.E[0].A[0].Name
				} else {
					k = "call"
				}
			}
			if s.K == st.KFor && len(s.E) > 0 && s.E[0] != nil {
				k = "forcond"
			}
			if s.Label != "" && s.K != st.KLabeled {
				k += "L"
			}
			b.WriteString(k)
			for _, bb := range s.B {
				walk(bb)
			}
			for _, c := range s.Cases {
				if c.Default {
					b.WriteString("D")
				}
				walk(c.Body)
			}
		}
		b.WriteString("]")
	}
	walk(body)
	return b.String()
}

// Bodies exposes the termination family to other properties: every enumerated body of func f() int.
func Bodies(thorough bool, yield func(family string, body []*st.S)) {
	each(thorough, func(family string, v variant, body block) {
		if v.name == "plain" {
			yield(family, body)
		}
	})
}

func each(thorough bool, yield func(family string, v variant, body block)) {
	vs := variants()
	// (1) width 2, depth 1 (and depth 2 in thorough... see below)
	g := &gen{width: 2}
	for _, b := range g.blocks(1, ctx{}) {
		yield("termination-w2d1", vs[0], b)
	}
	// (2) single top-level statement of depth 2 (3 thorough) whose inner blocks have one
	// statement; also preceded by a plain call (a non-terminating first statement)
	d := 2
	gs := &gen{width: 1}
	gs.stmts(d, ctx{}, func(s *st.S) {
		yield("termination-w1d2", vs[0], block{s})
		if thorough {
			yield("termination-w1d2", vs[0], block{call(), s})
		}
	})
	if thorough {
		// inner blocks of width 2 at depth 1 under every depth-2 construct
		gt := &gen{width: 2}
		gt.stmts(2, ctx{}, func(s *st.S) {
			yield("termination-w2d2", vs[0], block{s})
		})
	}
	// shadowed panic: bodies of depth<=1
	g1 := &gen{width: 2}
	for _, v := range vs[1:] {
		for _, b := range g1.blocks(1, ctx{}) {
			yield("shadow:"+v.name, v, b)
		}
	}
	for _, b := range labelBodies() {
		yield("labels", vs[0], b)
	}
}

func judge(vd verdict) (class, detail string, bad, judged bool) {
	if vd.refOther != "" {
		return "", "", false, false
	}
	bs, rs := strings.Join(vd.builder, ","), strings.Join(vd.ref, ",")
	if vd.builderOther != "" {
		// the builder reports something else on a body go/types accepts (up to the studied
		// diagnostics): not this property's business unless it hides a diagnostic
		if bs == rs {
			return "", "", false, true
		}
	}
	if bs != rs {
		return fmt.Sprintf("builder=[%s]|go=[%s]", bs, rs), fmt.Sprintf("builder diagnostics [%s] (other: %s), go/types diagnostics [%s]\n%s", bs, vd.builderOther, rs, vd.text), true, true
	}
	return "", "", false, true
}

func run(c *vf.Ctx) {
	var idx int64
	each(c.Thorough(), func(family string, v variant, body block) {
		i := idx
		idx++
		if !c.MineIdx(i) {
			return
		}
		if c.Expired() {
			if i%1024 == 0 {
				c.Cap("wall budget")
			}
			return
		}
		vd := exec(v, body)
		c.Eval(1)
		c.Tally("family:"+strings.SplitN(family, ":", 2)[0], 1)
		class, detail, bad, judged := judge(vd)
		if !judged {
			c.Tally("skipped_other_go_error", 1)
			c.Outcome("skipped")
			return
		}
		c.Tally("judged", 1)
		if strings.Contains(vd.text, "{\n\t\t") {
			c.Distinct(vd.text)
		}
		c.Outcome("go=[" + strings.Join(vd.ref, ",") + "]")
		if bad {
			c.Violation(family+"|"+shapeOf(body)+"|"+class, detail, payload{v.name, vd.text, i, family})
		} else if i%9973 == 0 {
			c.Sample(map[string]any{"reference": vd.text, "diagnostics": vd.ref})
		}
	})
}

func replay(raw json.RawMessage) (string, bool) {
	var p payload
	if err := json.Unmarshal(raw, &p); err != nil {
		return err.Error(), false
	}
	var res string
	var bad, found bool
	for _, th := range []bool{false, true} {
		each(th, func(family string, v variant, body block) {
			if found || family != p.Family || v.name != p.Variant || refSource(v, body) != p.Body {
				return
			}
			found = true
			vd := exec(v, body)
			_, detail, b, judged := judge(vd)
			bad = b
			res = detail
			if !b {
				res = fmt.Sprintf("diagnostics agree (judged=%v): builder %v go %v\n%s", judged, vd.builder, vd.ref, vd.text)
			}
		})
		if found {
			break
		}
	}
	if !found {
		return "case not found", false
	}
	return res, bad
}

// Program is a self-contained build used by C18: n statement bodies as functions f0..f(n-1) of one fresh
// package over a fresh importer, without any process-wide accelerator.
type Program struct {
	Name string
	Run  func() (texts map[string]string, verdicts []string)
}

// Programs returns count programs of n bodies each, spread over the enumerated families.
func Programs(n, count int) []Program {
	var bodies []block
	var fams []string
	i := 0
	each(false, func(family string, v variant, body block) {
		i++
		if v.name == "plain" && i%997 == 0 && len(bodies) < n*count {
			bodies = append(bodies, body)
			fams = append(fams, family)
		}
	})
	for _, b := range labelBodies() {
		if len(bodies) < n*count+4 {
			bodies = append(bodies, b)
		}
	}
	var out []Program
	for k := 0; k < count; k++ {
		lo, hi := k*n, (k+1)*n
		if hi > len(bodies) {
			hi = len(bodies)
		}
		if lo >= hi {
			break
		}
		part := bodies[lo:hi]
		out = append(out, Program{Name: fmt.Sprintf("c10-bodies[%d:%d]", lo, hi), Run: func() (map[string]string, []string) {
			imp := ex.Importer(nil)
			b := gx.New(imp, gx.Options{RealBuiltin: true})
			var verdicts []string
			o := gx.Try(func() {
				xb := ex.NewBuilder(b)
				sb := st.NewBuilder(xb)
				for j, body := range part {
					nErr := len(b.Errs)
					fo := gx.Try(func() {
						sb.Func(&st.Func{Name: fmt.Sprintf("f%d", j), Results: []string{"int"}, Body: body})
					})
					verdicts = append(verdicts, fmt.Sprintf("f%d:%v:%s:%s", j, fo.Panicked, fo.Msg, strings.Join(b.Errs[nErr:], ";")))
				}
			})
			if o.Panicked {
				verdicts = append(verdicts, "setup: "+o.Msg)
			}
			texts, err := oracle.WriteAll(b.Pkg)
			if err != nil {
				verdicts = append(verdicts, "write: "+err.Error())
			}
			return texts, verdicts
		}})
	}
	return out
}
