package c18

import (
	"hash/fnv"
	"math"
	"reflect"
	"sort"
	"strings"

	"github.com/goplus/gogen"
)

// fingerprint hashes, per package-level variable of the library, everything reachable from it: through
// pointers, interfaces, slices, arrays, maps and struct fields (unexported ones included: only reading
// accessors of reflect are used). Pointers are followed, not hashed, so the fingerprint is a function of the
// contents of shared state; synchronisation primitives (package sync, sync/atomic) are opaque.
func fingerprint() map[string]uint64 {
	out := map[string]uint64{}
	for _, g := range gogen.VerifAllGlobals() {
		w := &walker{seen: map[seenKey]int{}}
		w.walk(reflect.ValueOf(g.Ptr).Elem(), 0)
		out[g.Name] = w.h
	}
	return out
}

type seenKey struct {
	p uintptr
	t reflect.Type
}

type walker struct {
	h     uint64
	seen  map[seenKey]int
	nodes int
}

const maxNodes = 3_000_000

func (w *walker) mix(x uint64) {
	w.h ^= x
	w.h *= 1099511628211
	w.h ^= w.h >> 29
}

func (w *walker) str(s string) {
	f := fnv.New64a()
	f.Write([]byte(s))
	w.mix(f.Sum64())
}

func opaque(t reflect.Type) bool {
	p := t.PkgPath()
	return p == "sync" || p == "sync/atomic" || strings.HasPrefix(p, "internal/")
}

func (w *walker) walk(v reflect.Value, depth int) {
	w.nodes++
	if w.nodes > maxNodes {
		return
	}
	if !v.IsValid() {
		w.mix(1)
		return
	}
	t := v.Type()
	if opaque(t) {
		w.mix(2)
		return
	}
	switch v.Kind() {
	case reflect.Bool:
		if v.Bool() {
			w.mix(3)
		} else {
			w.mix(4)
		}
	case reflect.Int, reflect.Int8, reflect.Int16, reflect.Int32, reflect.Int64:
		w.mix(uint64(v.Int()) + 5)
	case reflect.Uint, reflect.Uint8, reflect.Uint16, reflect.Uint32, reflect.Uint64, reflect.Uintptr:
		w.mix(v.Uint() + 6)
	case reflect.Float32, reflect.Float64:
		w.mix(math.Float64bits(v.Float()) + 7)
	case reflect.Complex64, reflect.Complex128:
		c := v.Complex()
		w.mix(math.Float64bits(real(c)) + 8)
		w.mix(math.Float64bits(imag(c)) + 9)
	case reflect.String:
		w.str(v.String())
	case reflect.Ptr:
		if v.IsNil() {
			w.mix(10)
			return
		}
		k := seenKey{v.Pointer(), t}
		if i, ok := w.seen[k]; ok {
			w.mix(uint64(i) + 1000)
			return
		}
		w.seen[k] = len(w.seen)
		w.mix(11)
		w.walk(v.Elem(), depth+1)
	case reflect.Interface:
		if v.IsNil() {
			w.mix(12)
			return
		}
		w.str(v.Elem().Type().String())
		w.walk(v.Elem(), depth+1)
	case reflect.Slice:
		if v.IsNil() {
			w.mix(13)
			return
		}
		w.mix(uint64(v.Len()) + 14)
		if v.Len() > 0 {
			k := seenKey{v.Pointer(), t}
			if i, ok := w.seen[k]; ok && v.Len() > 0 {
				w.mix(uint64(i) + 2000)
				w.mix(uint64(v.Len()))
				// the same backing array may be seen with different lengths: still walk the elements
			} else {
				w.seen[k] = len(w.seen)
			}
		}
		for i := 0; i < v.Len(); i++ {
			w.walk(v.Index(i), depth+1)
		}
	case reflect.Array:
		for i := 0; i < v.Len(); i++ {
			w.walk(v.Index(i), depth+1)
		}
	case reflect.Map:
		if v.IsNil() {
			w.mix(15)
			return
		}
		k := seenKey{v.Pointer(), t}
		if i, ok := w.seen[k]; ok {
			w.mix(uint64(i) + 3000)
			return
		}
		w.seen[k] = len(w.seen)
		w.mix(uint64(v.Len()) + 16)
		// deterministic order: entries sorted by the content hash of their key (computed with a
		// fresh walker, so it does not depend on what was visited before), then walked in that order
		type entry struct {
			kh   uint64
			k, v reflect.Value
		}
		var es []entry
		it := v.MapRange()
		for it.Next() {
			kw := &walker{seen: map[seenKey]int{}}
			kw.walk(it.Key(), 0)
			w.nodes += kw.nodes
			es = append(es, entry{kw.h, it.Key(), it.Value()})
		}
		sort.Slice(es, func(i, j int) bool { return es[i].kh < es[j].kh })
		for _, e := range es {
			w.mix(e.kh)
			w.walk(e.v, depth+1)
		}
	case reflect.Struct:
		for i := 0; i < v.NumField(); i++ {
			w.walk(v.Field(i), depth+1)
		}
	case reflect.Func:
		if v.IsNil() {
			w.mix(17)
		} else {
			w.mix(uint64(v.Pointer()) + 18)
		}
	case reflect.Chan:
		w.mix(19)
	case reflect.UnsafePointer:
		w.mix(uint64(v.Pointer()) + 20)
	default:
		w.mix(21)
	}
}
