// Package c18: independent packages can be built concurrently without interference.
package c18

import (
	"encoding/json"
	"fmt"
	"os"
	"os/exec"
	"sort"
	"strings"
	"sync"
	"time"

	"github.com/goplus/gogen"
	"github.com/goplus/gogen/verifrt"

	"verifengine/props/c10"
	"verifengine/props/c11"
	"verifengine/vf"
)

func init() {
	if os.Getenv("VERIF_C18_RACE") != "" {
		raceMain() // free-running pass of the race-detector binary; never returns
	}
	vf.Register(&vf.Prop{
		ID: "C18", Level: "model_checking",
		Rule: "programs = slices of every C11 extension table, C10 statement bodies, an API program (unit literals, composite literals, definition groups, tuples, comments, method values, labels, second file; evidence lists the exported entry points no program reaches) and a mixed program (operators, constraints, unsafe, composite literals in headers, labels, closures), each built in its own package over its own importer. " +
			"(A) shared-state fingerprint: a deep hash (reflect + unsafe, through pointers, maps, slices, interfaces and unexported fields) of everything reachable from every package-level variable of the library (list generated from the syntax of /repo) is taken before and after building each program; no build, the first one in a cold process included, may change the hash. " +
			"(B) interleavings: for ordered pairs of programs (quick: every program with itself, its successor and the mixed program; thorough: with itself, its three successors, the API program and the mixed program) the two builds run as two threads under a cooperative scheduler whose scheduling points are the entry of every library function that refers to a package-level variable (inserted mechanically in the build overlay); depth-first exploration of all schedules with at most 1 (thorough: 2) preemptions; in every schedule both outputs (files, per-row verdicts) must equal the sequential outputs and the fingerprint must be unchanged; one recorded schedule per pair is replayed and must reproduce the same observations. " +
			"(C) the same programs run free on 16 goroutines under the Go race detector, from a cold process (first use of every lazily initialised object is concurrent) and warm; any report is a violation. " +
			"non-trivial = schedules with at least one preemption; distinct = pair x schedule",
		Assumptions:    []string{"interference between builds needs a package-level variable (or something reachable from one): stage A lists them from the source, stage B puts a scheduling point in front of every function that uses one", "go/types objects that belong to one importer are not shared between builds"},
		ThoroughBudget: 60 * time.Minute,
		Run:            run,
		Replay:         replay,
	})
}

// ---------------------------------------------------------------- programs

type program struct {
	name string
	run  func() output
}

type output struct {
	texts    map[string]string
	verdicts []string
	err      string
}

func (o output) key() string {
	var names []string
	for n := range o.texts {
		names = append(names, n)
	}
	sort.Strings(names)
	var b strings.Builder
	for _, n := range names {
		b.WriteString("== " + n + "\n" + o.texts[n])
	}
	b.WriteString("== verdicts\n" + strings.Join(o.verdicts, "\n") + "\n== err " + o.err)
	return b.String()
}

func programs(thorough bool) []program { return programsN(thorough, 10) }

// programsN: slices of n rows / bodies per table.
func programsN(thorough bool, n int) []program {
	var out []program
	per := 1
	if thorough {
		per = 2
	}
	for _, p := range c11.Programs(n, per) {
		p := p
		out = append(out, program{p.Name, func() output {
			t, v, err := p.Run()
			o := output{texts: t, verdicts: v}
			if err != nil {
				o.err = err.Error()
			}
			return o
		}})
	}
	for _, p := range c10.Programs(n, per) {
		p := p
		out = append(out, program{p.Name, func() output {
			t, v := p.Run()
			return output{texts: t, verdicts: v}
		}})
	}
	out = append(out, program{"api", apiProgram})
	out = append(out, program{"mixed", mixedProgram})
	return out
}

// ---------------------------------------------------------------- stage A

func stageA(c *vf.Ctx, progs []program) {
	for i, p := range progs {
		if !c.MineIdx(int64(i)) {
			continue
		}
		f0 := fingerprint()
		o1 := p.run()
		f1 := fingerprint()
		o2 := p.run()
		f2 := fingerprint()
		c.Eval(2)
		c.State(3)
		if d := diff(f0, f1); len(d) > 0 {
			// the first build of this program in this process wrote to shared state: an unsynchronised lazily
			// filled table or cache is a data race as soon as two builds use it for the first time together
			// (synchronisation primitives themselves are opaque to the fingerprint)
			c.Violation("shared-state-written-on-first-use|"+strings.Join(d, ","), fmt.Sprintf("the first build of %s in this process changed shared state reachable from: %s", p.name, strings.Join(d, ", ")), payload{Stage: "A", A: p.name})
		}
		if d := diff(f1, f2); len(d) > 0 {
			c.Violation("shared-state-written|"+strings.Join(d, ","), fmt.Sprintf("building %s a second time changed shared state reachable from: %s", p.name, strings.Join(d, ", ")), payload{Stage: "A", A: p.name})
		}
		if o1.key() != o2.key() {
			c.Violation("build-not-repeatable|"+p.name, "two sequential builds of "+p.name+" differ", payload{Stage: "A", A: p.name})
		}
		c.Outcome("A:" + fmt.Sprint(len(diff(f0, f1)) > 0))
	}
}

func diff(a, b map[string]uint64) []string {
	var out []string
	for k, v := range a {
		if b[k] != v {
			out = append(out, k)
		}
	}
	for k := range b {
		if _, ok := a[k]; !ok {
			out = append(out, k)
		}
	}
	sort.Strings(out)
	return out
}

// ---------------------------------------------------------------- stage B: controlled scheduler

// sched runs two builds as cooperative threads; exactly one runs at any time.
type sched struct {
	prefix  []int // choices to replay: 0 = keep running the current thread, 1 = switch
	choices []int // choices taken
	sites   []string
	cur     int
	wake    [2]chan struct{}
	done    [2]bool
	out     [2]output
	preempt int
	mu      sync.Mutex
	diverge string
}

func (s *sched) point(site string) {
	// called on the running thread
	other := 1 - s.cur
	if s.done[other] {
		return // nothing to switch to: not a choice point
	}
	i := len(s.choices)
	ch := 0
	if i < len(s.prefix) {
		ch = s.prefix[i]
	}
	s.choices = append(s.choices, ch)
	s.sites = append(s.sites, site)
	if ch == 1 {
		s.preempt++
		me := s.cur
		s.cur = other
		s.wake[other] <- struct{}{}
		<-s.wake[me]
	}
}

func runSchedule(a, b program, prefix []int) *sched {
	s := &sched{prefix: prefix}
	s.wake[0], s.wake[1] = make(chan struct{}), make(chan struct{})
	progs := [2]program{a, b}
	var wg sync.WaitGroup
	finished := make(chan int, 2)
	for t := 0; t < 2; t++ {
		t := t
		wg.Add(1)
		go func() {
			defer wg.Done()
			<-s.wake[t]
			func() {
				defer func() {
					if e := recover(); e != nil {
						s.out[t] = output{err: fmt.Sprint("panic: ", e)}
					}
				}()
				s.out[t] = progs[t].run()
			}()
			s.done[t] = true
			finished <- t
			if !s.done[1-t] {
				s.cur = 1 - t
				s.wake[1-t] <- struct{}{}
			}
		}()
	}
	verifrt.Sched = s.point
	s.cur = 0
	s.wake[0] <- struct{}{}
	wg.Wait()
	verifrt.Sched = nil
	if len(s.choices) < len(prefix) {
		s.diverge = fmt.Sprintf("replay divergence: prefix has %d choices, execution offered %d", len(prefix), len(s.choices))
	}
	return s
}

type payload struct {
	Stage    string `json:"stage"`
	A        string `json:"a"`
	B        string `json:"b,omitempty"`
	Schedule []int  `json:"schedule,omitempty"`
}

func explorePair(c *vf.Ctx, a, b program, seqA, seqB string, bound int, base map[string]uint64) {
	var rec func(prefix []int)
	count := 0
	rec = func(prefix []int) {
		if c.Expired() {
			c.Cap("wall budget (stage B)")
			return
		}
		s := runSchedule(a, b, prefix)
		count++
		c.Eval(1)
		c.Trace(1)
		c.Transition(len(s.choices))
		if s.preempt > 0 {
			c.Distinct(fmt.Sprint(a.name, "|", b.name, "|", s.choices))
		}
		pl := payload{Stage: "B", A: a.name, B: b.name, Schedule: append([]int{}, s.choices...)}
		if s.diverge != "" {
			c.Violation("replay-divergence|"+a.name+"|"+b.name, s.diverge, pl)
			return
		}
		okA, okB := s.out[0].key() == seqA, s.out[1].key() == seqB
		c.Outcome(fmt.Sprintf("B:%v,%v", okA, okB))
		if !okA || !okB {
			where := ""
			for i, ch := range s.choices {
				if ch == 1 {
					where += fmt.Sprintf(" preempt@%d:%s", i, s.sites[i])
				}
			}
			who := a.name
			if okA {
				who = b.name
			}
			c.Violation("interleaved-output-differs|"+who+"|"+siteOf(s), fmt.Sprintf("pair (%s, %s), schedule%s: the output of %s differs from its sequential build", a.name, b.name, where, who), pl)
		}
		if d := diff(base, fingerprint()); len(d) > 0 {
			c.Violation("shared-state-written|"+strings.Join(d, ","), fmt.Sprintf("pair (%s, %s): shared state changed: %s", a.name, b.name, strings.Join(d, ", ")), pl)
		}
		// alternatives: preempt at any later point
		if s.preempt >= bound {
			return
		}
		for i := len(prefix); i < len(s.choices); i++ {
			if s.choices[i] == 0 {
				np := append(append([]int{}, s.choices[:i]...), 1)
				rec(np)
			}
		}
	}
	rec(nil)
	c.Tally("schedules:"+a.name+"+"+b.name, count)
	if s := runSchedule(a, b, []int{0, 0, 0, 0, 0, 1}); len(s.sites) > 5 {
		c.Sample(map[string]any{"pair": a.name + " + " + b.name, "schedules_explored": count, "example_schedule": "run " + a.name + " until its 6th scheduling point (" + s.sites[5] + "), then " + b.name + " to completion, then the rest of " + a.name,
			"outputs_equal_sequential": s.out[0].key() == seqA && s.out[1].key() == seqB})
	}
}

func siteOf(s *sched) string {
	for i, ch := range s.choices {
		if ch == 1 {
			return s.sites[i]
		}
	}
	return "-"
}

// stageB explores pairs of progs; partners(i) lists the indices program i is paired with.
func stageB(c *vf.Ctx, progs []program, bound int, partners func(i int) []int, idx *int64) {
	seq := make([]string, len(progs))
	for i, p := range progs {
		p.run() // warm-up
		seq[i] = p.run().key()
	}
	base := fingerprint()
	for i, a := range progs {
		for _, j := range partners(i) {
			b := progs[j]
			k := *idx
			*idx++
			if !c.MineIdx(k) {
				continue
			}
			explorePair(c, a, b, seq[i], seq[j], bound, base)
			// determinism of the harness: one schedule with a preemption in the middle, run twice
			s1 := runSchedule(a, b, []int{0, 0, 0, 1})
			s2 := runSchedule(a, b, []int{0, 0, 0, 1})
			if s1.out[0].key() != s2.out[0].key() || s1.out[1].key() != s2.out[1].key() || fmt.Sprint(s1.sites) != fmt.Sprint(s2.sites) {
				c.Violation("schedule-not-reproducible|"+a.name+"|"+b.name, "the same schedule gave different observations", payload{Stage: "B", A: a.name, B: b.name, Schedule: []int{0, 0, 0, 1}})
			}
		}
	}
}

// ---------------------------------------------------------------- stage C: race detector

func stageC(c *vf.Ctx) {
	if c.Idx != 0 {
		return
	}
	bin := os.Getenv("VERIF_RACE_BIN")
	if bin == "" {
		c.Cap("race-detector binary not built (VERIF_RACE_BIN unset): stage C skipped")
		return
	}
	rounds := 2
	if c.Thorough() {
		rounds = 6
	}
	for r := 0; r < rounds; r++ {
		cmd := exec.Command(bin)
		cmd.Env = append(os.Environ(), "VERIF_C18_RACE=1", fmt.Sprintf("VERIF_C18_ROUND=%d", r), "GORACE=halt_on_error=0 exitcode=66", "VERIF_C18_THOROUGH="+fmt.Sprint(c.Thorough()))
		out, err := cmd.CombinedOutput()
		text := string(out)
		c.Eval(1)
		n := strings.Count(text, "WARNING: DATA RACE")
		c.Tally("race_pass_rounds", 1)
		if m := strings.Index(text, "BUILDS="); m >= 0 {
			var k int
			fmt.Sscanf(text[m:], "BUILDS=%d", &k)
			c.Tally("race_pass_builds", k)
		}
		if n > 0 {
			for _, rep := range raceReports(text) {
				c.Violation("data-race|"+rep.key, rep.text, payload{Stage: "C", A: fmt.Sprint("round ", r)})
			}
			c.Outcome("C:race")
			continue
		}
		if err != nil {
			c.Violation("race-pass-failed", fmt.Sprintf("race pass exited with %v:\n%s", err, tail(text, 3000)), payload{Stage: "C"})
			continue
		}
		if strings.Contains(text, "OUTPUT-DIFFERS") {
			c.Violation("concurrent-output-differs", tail(text, 3000), payload{Stage: "C"})
		}
		c.Outcome("C:clean")
	}
}

type raceReport struct{ key, text string }

// raceReports splits the detector output into reports keyed by the two top library frames.
func raceReports(text string) []raceReport {
	var out []raceReport
	seen := map[string]bool{}
	for _, blk := range strings.Split(text, "WARNING: DATA RACE")[1:] {
		if i := strings.Index(blk, "=================="); i >= 0 {
			blk = blk[:i]
		}
		var frames []string
		for _, sec := range strings.Split(blk, "\n\n") {
			lines := strings.Split(strings.TrimSpace(sec), "\n")
			if len(lines) < 2 || !(strings.Contains(lines[0], "Write at") || strings.Contains(lines[0], "Read at") || strings.Contains(lines[0], "Previous")) {
				continue
			}
			for _, l := range lines[1:] {
				l = strings.TrimSpace(l)
				if strings.HasPrefix(l, "github.com/goplus/gogen") || strings.HasPrefix(l, "go/types") {
					if j := strings.LastIndex(l, "("); j > 0 {
						l = l[:j]
					}
					frames = append(frames, strings.TrimPrefix(l, "github.com/goplus/gogen"))
					break
				}
			}
		}
		key := strings.Join(frames, "<>")
		if key == "" {
			key = "unattributed"
		}
		if !seen[key] {
			seen[key] = true
			out = append(out, raceReport{key, "WARNING: DATA RACE" + tail(blk, 4000)})
		}
	}
	return out
}

func tail(s string, n int) string {
	if len(s) > n {
		return s[:n]
	}
	return s
}

// raceMain is the body of the race-detector process: all programs on 16 goroutines, first from a cold
// process (nothing built before), then again warm; outputs are compared with sequential builds at the end.
func raceMain() {
	thorough := os.Getenv("VERIF_C18_THOROUGH") == "true"
	progs := programs(thorough)
	var round int
	fmt.Sscanf(os.Getenv("VERIF_C18_ROUND"), "%d", &round)
	const G = 16
	builds := 0
	var mu sync.Mutex
	outs := make([][]string, len(progs))
	for pass := 0; pass < 2; pass++ {
		var wg sync.WaitGroup
		start := make(chan struct{})
		for g := 0; g < G; g++ {
			g := g
			wg.Add(1)
			go func() {
				defer wg.Done()
				<-start
				for k := 0; k < len(progs); k++ {
					i := (k*(round+1) + g*7) % len(progs) // different goroutines start on different programs
					key := progs[i].run().key()
					mu.Lock()
					outs[i] = append(outs[i], key)
					builds++
					mu.Unlock()
				}
			}()
		}
		close(start)
		wg.Wait()
	}
	bad := 0
	for i, p := range progs {
		want := p.run().key()
		for _, k := range outs[i] {
			if k != want {
				bad++
				fmt.Printf("OUTPUT-DIFFERS program=%s\n", p.name)
				break
			}
		}
	}
	fmt.Printf("BUILDS=%d differing=%d\n", builds, bad)
	_ = gogen.VerifFastBuiltin
	os.Exit(0)
}

// ----------------------------------------------------------------

// apiCoverage runs every program once with the accounting on and reports which exported entry points of
// the library the programs reach (the sites are listed by the overlay generator).
func apiCoverage(c *vf.Ctx, progs []program) {
	if c.Idx != 0 {
		return
	}
	verifrt.CoverOn = true
	for _, p := range progs {
		p.run()
	}
	verifrt.CoverOn = false
	var all []string
	if b, err := os.ReadFile(os.Getenv("VERIF_GEN") + "/ovgen_meta.json"); err == nil {
		var meta struct {
			CoverSites []string `json:"cover_sites"`
		}
		json.Unmarshal(b, &meta)
		all = meta.CoverSites
	}
	var missing []string
	for _, s := range all {
		if verifrt.Covered[s] == 0 && strings.HasPrefix(s, ":") { // root package API
			missing = append(missing, strings.TrimPrefix(s, ":"))
		}
	}
	sort.Strings(missing)
	c.Tally("api_entry_points_total", len(all))
	c.Tally("api_entry_points_reached", len(verifrt.Covered))
	c.Note(fmt.Sprintf("exported entry points of package gogen not reached by any program (%d): %s", len(missing), strings.Join(missing, " ")))
}

func run(c *vf.Ctx) {
	progs := programs(c.Thorough())
	c.Note(fmt.Sprintf("%d programs, %d package-level variables fingerprinted", len(progs), len(gogen.VerifAllGlobals())))
	stageA(c, progs) // first: the worker process is still cold
	apiCoverage(c, progs)
	var idx int64
	if !c.Thorough() {
		// quick: 5-row programs; every program against itself, its successor and the mixed program; 1 preemption
		small := programsN(false, 5)
		n := len(small)
		stageB(c, small, 1, func(i int) []int {
			out := []int{i, (i + 1) % n}
			if i != n-1 && (i+1)%n != n-1 {
				out = append(out, n-1)
			}
			return out
		}, &idx)
	} else {
		// thorough: 5-row programs (two slices per table), every program against itself, its three successors, the API program
		// and the mixed program, with 1 preemption ...
		progs5 := programsN(true, 5)
		n := len(progs5)
		near := func(m int) func(i int) []int {
			return func(i int) []int {
				seen := map[int]bool{}
				var out []int
				for _, j := range []int{i, (i + 1) % m, (i + 2) % m, (i + 3) % m, m - 2, m - 1} {
					if !seen[j] {
						seen[j] = true
						out = append(out, j)
					}
				}
				return out
			}
		}
		stageB(c, progs5, 1, near(n), &idx)
		// ... and 1-row programs against themselves and the mixed program with 2 preemptions
		tiny := programsN(false, 1)
		stageB(c, tiny, 2, func(i int) []int {
			if i == len(tiny)-1 {
				return []int{i}
			}
			return []int{i, len(tiny) - 1}
		}, &idx)
	}
	stageC(c)
}

func replay(raw json.RawMessage) (string, bool) {
	var p payload
	if err := json.Unmarshal(raw, &p); err != nil {
		return err.Error(), false
	}
	progs := append(append(append(append(programs(true), programsN(false, 5)...), programsN(true, 5)...), programsN(false, 1)...), programs(false)...)
	find := func(n string) *program {
		for i := range progs {
			if progs[i].name == n {
				return &progs[i]
			}
		}
		return nil
	}
	switch p.Stage {
	case "A":
		a := find(p.A)
		if a == nil {
			return "program not found: " + p.A, false
		}
		f0 := fingerprint()
		a.run()
		f1 := fingerprint()
		if d := diff(f0, f1); len(d) > 0 {
			return "the first build in this process changed shared state: " + strings.Join(d, ", "), true
		}
		a.run()
		if d := diff(f1, fingerprint()); len(d) > 0 {
			return "shared state changed: " + strings.Join(d, ", "), true
		}
		return "no shared state written by " + p.A, false
	case "B":
		a, b := find(p.A), find(p.B)
		if a == nil || b == nil {
			return "program not found", false
		}
		a.run()
		b.run()
		sa, sb := a.run().key(), b.run().key()
		s := runSchedule(*a, *b, p.Schedule)
		if s.out[0].key() != sa || s.out[1].key() != sb {
			return fmt.Sprintf("schedule %v: output differs from the sequential build", p.Schedule), true
		}
		return fmt.Sprintf("schedule %v: both outputs equal the sequential builds", p.Schedule), false
	}
	return "stage C findings are reproduced by running the race pass again: VERIF_C18_RACE=1 " + os.Getenv("VERIF_RACE_BIN"), false
}
