package c18

import (
	"bytes"
	"fmt"
	"go/ast"
	"go/token"
	"go/types"
	"os"

	"github.com/goplus/gogen"

	"verifengine/fixture"
	"verifengine/gx"
	"verifengine/oracle"
)

// apiProgram exercises entry points the other programs do not reach (literals with units, composite
// literals, slices, type assertions, constant/type/variable definition groups, tuples, comments, method
// values, forced imports, file switching). Each step is guarded: a misuse is recorded as a verdict and does
// not stop the rest, so the program is the same function of its inputs on every run.
const unitSrc = `package unit

type Distance int

const XGou_Distance = "mm=1,cm=10,dm=100,m=1000"

type Seconds = float64

const XGou_Seconds = "s=1,ms=0.001"

type T struct{ N int }

func (T) Get() int { return 0 }

func (*T) Set(n int) {}

func First(s []int) int { return 0 }

func Shout(s string) string { return s }

func Drain(c chan int) int { return 0 }
`

func apiProgram() output {
	imp := fixture.New(map[string]string{"unit": unitSrc}, false)
	b := gx.New(imp, gx.Options{RealBuiltin: true})
	pkg := b.Pkg
	var verdicts []string
	step := func(name string, f func()) {
		nErr := len(b.Errs)
		o := gx.Try(f)
		verdicts = append(verdicts, fmt.Sprintf("%s:%v:%s:%v", name, o.Panicked, o.Msg, b.Errs[nErr:]))
		if o.Panicked {
			gx.Try(func() { pkg.CB().ResetStmt() })
		}
	}
	T := types.Typ
	var u gogen.PkgRef
	step("import", func() { u = pkg.Import("unit") })
	step("typedefs", func() {
		defs := pkg.NewTypeDefs()
		defs.NewType("Pt").InitType(pkg, types.NewStruct([]*types.Var{types.NewField(token.NoPos, pkg.Types, "X", T[types.Int], false)}, nil))
		defs.AliasType("Al", T[types.String])
		defs.Complete()
		pkg.AliasType("Al2", types.NewSlice(T[types.Int]))
	})
	step("constdefs", func() {
		pkg.NewConstDefs(pkg.Types.Scope()).
			New(func(cb *gogen.CodeBuilder) int { cb.Val(types.Universe.Lookup("iota")); return 1 }, 0, token.NoPos, nil, "A0").
			Next(1, token.NoPos, "A1").Next(2, token.NoPos, "A2")
	})
	step("vardefs", func() {
		defs := pkg.NewVarDefs(pkg.Types.Scope())
		defs.New(token.NoPos, T[types.Int], "g1", "g2")
		defs.NewAndInit(func(cb *gogen.CodeBuilder) int { cb.Val(3); return 1 }, token.NoPos, nil, "g3")
	})
	step("funcdecl", func() {
		pkg.NewFuncDecl(token.NoPos, "ext", types.NewSignatureType(nil, nil, nil, nil, nil, false))
	})
	step("force-import", func() { pkg.ForceImport("unit") })
	step("builtin-ti", func() {
		// packages may extend the builtin-type method tables of their own Package object
		pkg.BuiltinTI(types.NewSlice(T[types.Int])).AddMethods(&gogen.BuiltinMethod{Name: "First", Fn: u.Ref("First")})
		if ti := pkg.BuiltinTI(T[types.String]); ti != nil { // only present when strings/strconv can be imported
			ti.AddMethods(&gogen.BuiltinMethod{Name: "Shout", Fn: u.Ref("Shout")})
		}
		pkg.BuiltinTI(types.NewChan(types.SendRecv, T[types.Int])).AddMethods(&gogen.BuiltinMethod{Name: "Drain", Fn: u.Ref("Drain")})
	})
	step("sizeof", func() { verdicts = append(verdicts, fmt.Sprint(pkg.Sizeof(T[types.Int64]))) })
	var cb *gogen.CodeBuilder
	step("func", func() { cb = pkg.NewFunc(nil, "api", nil, nil, false).BodyStart(pkg) })
	if cb == nil {
		return output{verdicts: verdicts, err: "api program: no function"}
	}
	intSl := types.NewSlice(T[types.Int])
	step("units", func() {
		cb.NewVarStart(u.Ref("Distance").Type(), "d").ValWithUnit(&ast.BasicLit{Kind: token.INT, Value: "2"}, u.Ref("Distance").Type(), "cm").EndInit(1)
		cb.NewVarStart(u.Ref("Seconds").Type(), "s").ValWithUnit(&ast.BasicLit{Kind: token.INT, Value: "3"}, u.Ref("Seconds").Type(), "ms").EndInit(1)
	})
	step("literals", func() {
		cb.DefineVarStart(token.NoPos, "m").Val("a").Val(1).Val("b").Val(2).MapLit(nil, 4).EndInit(1)
		cb.DefineVarStart(token.NoPos, "arr").Val(1).Val(2).ArrayLit(types.NewArray(T[types.Int], 2), 2).EndInit(1)
		cb.DefineVarStart(token.NoPos, "sl").Val(1).Val(2).Val(3).SliceLit(intSl, 3).EndInit(1)
	})
	step("builtin-ti-use", func() {
		cb.VarRef(nil).Val(cb.Scope().Lookup("sl")).MemberVal("First", 0).Call(0).Assign(1).EndStmt()
		cb.NewVar(types.NewChan(types.SendRecv, T[types.Int]), "chn")
		cb.VarRef(nil).Val(cb.Scope().Lookup("chn")).MemberVal("Drain", 0).Call(0).Assign(1).EndStmt()
	})
	step("slice-index", func() {
		sl := cb.Scope().Lookup("sl")
		cb.VarRef(nil).Val(sl).Val(0).Val(2).Slice(false).Assign(1).EndStmt()
		cb.VarRef(nil).Val(sl).Val(1).Index(1, 0).Assign(1).EndStmt()
		cb.Val(sl).Val(0).IndexRef(1).Val(5).Assign(1).EndStmt()
		m := cb.Scope().Lookup("m")
		cb.DefineVarStart(token.NoPos, "v", "ok").Val(m).Val("a").Index(1, 2).EndInit(1)
	})
	step("assert-elem", func() {
		cb.NewVar(gogen.TyEmptyInterface, "e")
		e := cb.Scope().Lookup("e")
		cb.VarRef(nil).Val(e).TypeAssert(T[types.Int], 0).Assign(1).EndStmt()
		cb.NewVar(types.NewPointer(T[types.Int]), "p")
		p := cb.Scope().Lookup("p")
		cb.VarRef(nil).Val(p).Elem().Assign(1).EndStmt()
		cb.Val(p).ElemRef().Val(1).Assign(1).EndStmt()
	})
	step("tuple", func() {
		tt := pkg.NewTuple(false, types.NewVar(token.NoPos, pkg.Types, "", T[types.Int]), types.NewVar(token.NoPos, pkg.Types, "", T[types.String]))
		cb.DefineVarStart(token.NoPos, "tp").Val(1).Val("s").TupleLit(tt, 2).EndInit(1)
	})
	step("comments", func() {
		cg := &ast.CommentGroup{List: []*ast.Comment{{Text: "// note"}}}
		cb.SetComments(cg, true)
		cb.VarRef(cb.Scope().Lookup("sl")).Val(nil).Assign(1).EndStmt()
	})
	step("method-value", func() {
		el, err := pkg.MethodToFunc(u.Ref("T").Type(), "Get")
		if err != nil {
			panic(err)
		}
		cb.VarRef(nil).Val(el).Assign(1).EndStmt()
	})
	step("for-post", func() {
		cb.For().DefineVarStart(token.NoPos, "i").Val(0).EndInit(1).
			Val(cb.Scope().Lookup("i")).Val(3).BinaryOp(token.LSS).Then().
			Post().VarRef(cb.Scope().Lookup("i")).IncDec(token.INC).EndStmt().
			End()
	})
	step("const", func() {
		cb.NewConstStart(nil, "k").Val(1).Val(2).BinaryOp(token.ADD).EndInit(1)
	})
	step("labels-goto", func() {
		l := cb.NewLabel(token.NoPos, token.NoPos, "L")
		cb.Goto(l)
		cb.Label(l)
		if _, ok := cb.LookupLabel("L"); !ok {
			panic("label lost")
		}
		cb.VarRef(cb.Scope().Lookup("sl")).Val(nil).Assign(1).EndStmt()
	})
	step("local-types", func() {
		cb.NewType("Loc").InitType(pkg, T[types.Int])
		cb.AliasType("LocA", T[types.Bool])
		cb.NewTypeDefs().NewType("Loc2").InitType(pkg, T[types.String])
	})
	step("vblock", func() {
		cb.VBlock()
		if !cb.InVBlock() {
			panic("not in vblock")
		}
		cb.VarRef(cb.Scope().Lookup("sl")).Val(nil).Assign(1).EndStmt()
		cb.End()
	})
	step("accessors", func() {
		verdicts = append(verdicts, fmt.Sprint(cb.Func() != nil, cb.Pkg() == pkg, cb.Comments() == nil, gogen.IsFunc(T[types.Int]), gogen.IsTypeEx(T[types.Int]),
			gogen.Default(pkg, T[types.UntypedInt]), gogen.Lookup(pkg.Types.Scope(), "Pt") != nil, pkg.Offsetsof([]*types.Var{types.NewField(token.NoPos, pkg.Types, "a", T[types.Int8], false), types.NewField(token.NoPos, pkg.Types, "b", T[types.Int64], false)})))
		if _, o := gogen.LookupParent(cb.Scope(), "sl", token.NoPos); o == nil {
			panic("LookupParent lost sl")
		}
	})
	step("closure-conversion", func() {
		cb.VarRef(nil).Val(1)
		if err := cb.ConvertToClosure(T[types.Int]); err != nil {
			panic(err)
		}
		cb.Assign(1).EndStmt()
	})
	step("type-decl-life", func() {
		d := pkg.NewType("Tmp")
		verdicts = append(verdicts, fmt.Sprint(d.Inited(), d.State(), d.Type() != nil))
		d.Delete()
		pkg.ValidType(u.Ref("T").Type().(*types.Named))
		verdicts = append(verdicts, u.Path())
		u.EnsureImported()
		u.MarkForceUsed(pkg)
		pkg.SetRedeclarable(false)
	})
	step("instantiate", func() {
		verdicts = append(verdicts, fmt.Sprint(pkg.Instantiate(T[types.Int], nil, gx.SrcNode("int[]")))) // reported error, not a crash
	})
	step("end", func() { cb.End() })
	step("pkg-level", func() {
		pkg.NewVarStart(token.NoPos, T[types.Int], "pv1").Val(1).EndInit(1)
		pkg.NewVarEx(pkg.Types.Scope(), token.NoPos, T[types.String], "pv2")
		pkg.NewConstStart(pkg.Types.Scope(), token.NoPos, nil, "PC").Val(7).EndInit(1)
		fn := pkg.NewFunc(nil, "documented", nil, nil, false)
		fn.SetComments(pkg, &ast.CommentGroup{List: []*ast.Comment{{Text: "// documented does nothing"}}})
		fn.BodyStart(pkg).End()
		verdicts = append(verdicts, fmt.Sprint(fn.Comments() != nil, fn.Ancestor() == fn))
	})
	step("ast", func() {
		f := gogen.ASTFile(pkg)
		cn := gogen.CommentedASTFile(pkg)
		verdicts = append(verdicts, fmt.Sprint(len(f.Decls) > 0, cn != nil, gogen.TypeAST(pkg, intSl) != nil))
		var buf bytes.Buffer
		if err := gogen.WriteTo(&buf, pkg); err != nil {
			panic(err)
		}
		verdicts = append(verdicts, fmt.Sprint(buf.Len() > 0))
	})
	step("write-file", func() {
		f, err := os.CreateTemp("", "c18-*.go")
		if err != nil {
			panic(err)
		}
		name := f.Name()
		f.Close()
		defer os.Remove(name)
		if err := pkg.WriteFile(name); err != nil {
			panic(err)
		}
		b, _ := os.ReadFile(name)
		verdicts = append(verdicts, fmt.Sprint("written bytes > 0: ", len(b) > 0))
	})
	step("second-file", func() {
		old, err := pkg.SetCurFile("other.go", true)
		if err != nil {
			panic(err)
		}
		pkg.NewFunc(nil, "inOther", nil, nil, false).BodyStart(pkg).End()
		pkg.RestoreCurFile(old)
	})
	texts, werr := oracle.WriteAll(pkg)
	out := output{texts: texts, verdicts: verdicts}
	if werr != nil {
		out.err = werr.Error()
	}
	return out
}
