package c18

import (
	"fmt"
	"go/token"
	"go/types"
	"strings"

	"verifengine/ex"
	"verifengine/gx"
	"verifengine/oracle"
	"verifengine/st"
)

// mixedProgram builds functions that reach the shared singletons of the library: the true/false/nil/_
// identifiers, zero values, operators of every kind, unsafe functions, composite literals in headers
// (parenthesised in place), labels, closures, type switches, select, range forms.
const mixedSrc = `package p

import (
	"env"
	"unsafe"
)

func a(x int, s string, f float64, b bool, p *int, sl []int, m map[string]int, ch chan int, e any) int {
	var t, u = true, false
	_ = t && !u || b
	_ = x + 1 - 2*3/4%5 | 6 ^ 7&8 << 1 >> 1 &^ 3
	_ = s + "a" < "b"
	_ = f*1.5 >= 2
	_ = p == nil || sl != nil || m == nil || ch != nil || e == nil
	x++
	x += 2
	for i := range sl {
		_ = i
	}
	for _, v := range sl {
		_ = v
	}
	for k, v := range m {
		_, _ = k, v
	}
	for range ch {
	}
	switch x {
	case 1:
		x = 2
	default:
	}
	switch v := e.(type) {
	case int:
		_ = v
	case nil:
	}
	select {
	case v := <-ch:
		_ = v
	case ch <- 1:
	default:
	}
L:
	for {
		if b {
			break L
		}
		continue L
	}
	_ = unsafe.Sizeof(x)
	_ = unsafe.Pointer(p)
	_ = env.VInt
	var arr [3]int
	_ = len(arr) + cap(sl) + len(s)
	_ = append(sl, 1, 2)
	_ = new(int)
	_ = make(map[string]int, 2)
	return x
}

func b2(x uint8, c complex128, r rune) {
	_ = x<<1 | x>>1
	_ = c * (1 + 2i)
	_ = real(c) + imag(c)
	_ = string(r)
	_ = -x
	_ = ^x
	var q *int
	_ = *q
	_ = &x
}
`

func handBuilt(b *gx.Build) {
	pkg := b.Pkg
	T := types.Typ
	intSl := types.NewSlice(T[types.Int])
	fld := types.NewField(token.NoPos, pkg.Types, "A", T[types.Int], false)
	stru := types.NewStruct([]*types.Var{fld}, nil)
	one := types.NewTuple(types.NewParam(token.NoPos, pkg.Types, "a", T[types.Int]))
	res := types.NewTuple(types.NewParam(token.NoPos, pkg.Types, "", T[types.Int]))
	cb := pkg.NewFunc(nil, "c", nil, nil, false).BodyStart(pkg)
	// g := func(a int) int { return a + 1 }; defer g(1); go g(2)
	cb.DefineVarStart(token.NoPos, "g").
		NewClosure(one, res, false).BodyStart(pkg).Val(one.At(0)).Val(1).BinaryOp(token.ADD).Return(1).End().
		EndInit(1)
	g := cb.Scope().Lookup("g")
	cb.Val(g).Val(1).Call(1).Defer()
	cb.Val(g).Val(2).Call(1).Go()
	// for _, v := range []int{1, 2} { _ = v }
	cb.ForRange("_", "v").Val(1).Val(2).SliceLit(intSl, 2).RangeAssignThen(token.NoPos).
		VarRef(nil).Val(cb.Scope().Lookup("v")).Assign(1).EndStmt().End()
	// switch struct{A int}{1}.A { case 1: }
	cb.Switch().Val(1).StructLit(stru, 1, false).MemberVal("A", 0).Then().
		Case().Val(1).Then().End().
		End()
	// if struct{A int}{} == struct{A int}{} {}
	cb.If().StructLit(stru, 0, false).StructLit(stru, 0, false).BinaryOp(token.EQL).Then().End()
	// zero values, nil comparisons, blank
	cb.NewVarStart(intSl, "z").ZeroLit(intSl).EndInit(1)
	cb.VarRef(nil).Val(cb.Scope().Lookup("z")).CompareNil(token.EQL).Assign(1).EndStmt()
	cb.VarRef(nil).ZeroLit(stru).Assign(1).EndStmt()
	cb.VarRef(nil).Val(true).Val(false).BinaryOp(token.LAND).Assign(1).EndStmt()
	cb.End()
}

func mixedProgram() output {
	fs, err := st.ParseFuncs(mixedSrc)
	if err != nil {
		panic("c18: mixed program outside the IR: " + err.Error())
	}
	imp := ex.Importer(nil)
	b := gx.New(imp, gx.Options{RealBuiltin: true})
	var verdicts []string
	o := gx.Try(func() {
		xb := ex.NewBuilder(b)
		sb := st.NewBuilder(xb)
		for _, f := range fs {
			nErr := len(b.Errs)
			fo := gx.Try(func() { sb.Func(f) })
			verdicts = append(verdicts, fmt.Sprintf("%s:%v:%s:%s", f.Name, fo.Panicked, fo.Msg, strings.Join(b.Errs[nErr:], ";")))
		}
		// constructs outside the IR: closures, defer/go, composite literals in headers, zero values
		ho := gx.Try(func() { handBuilt(b) })
		verdicts = append(verdicts, fmt.Sprintf("hand:%v:%s", ho.Panicked, ho.Msg))
	})
	if o.Panicked {
		verdicts = append(verdicts, "setup: "+o.Msg)
	}
	texts, werr := oracle.WriteAll(b.Pkg)
	out := output{texts: texts, verdicts: verdicts}
	if werr != nil {
		out.err = werr.Error()
	}
	return out
}
