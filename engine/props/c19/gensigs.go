package c19

import (
	"fmt"
	"go/ast"
	"go/parser"
	"go/token"
	"go/types"
	"strings"
)

// Generic signatures generated from source text: 1..3 type parameters, every constraint drawn from forms that
// do or do not mention another (earlier, later or the same) type parameter of the same signature, a few
// parameter/result shapes; every signature is type-checked under two naming schemes in two separate packages,
// which yields pairs of identical signatures whose type-parameter objects are all distinct.

const gsigPrelude = "package g\n\ntype Cons[X any] interface{ ~[]X }\n\ntype Box[X any] struct{ v X }\n\n"

// constraint forms; %[1]s = the referenced type parameter
var (
	consPlain = []string{"any", "comparable", "~int | ~string"}
	consRef   = []string{"~[]%[1]s", "interface{ ~map[int]%[1]s }", "interface{ M(%[1]s) %[1]s }", "Cons[%[1]s]", "interface{ *%[1]s }", "interface{ ~func(%[1]s) Box[%[1]s] }"}
	consSelf  = []string{"interface{ M(%[1]s) %[1]s }", "interface{ comparable; Less(%[1]s) bool }"}
)

type gsigSpec struct {
	cons   []string // per type parameter, with %[k]s placeholders already resolved to P<k>
	shape  int
	nparam int
}

func gsigSpecs(full bool) []gsigSpec {
	var out []gsigSpec
	P := func(k int) string { return fmt.Sprintf("\x00%d\x00", k) }
	options := func(i, n int) []string {
		o := append([]string{}, consPlain...)
		for j := 0; j < n; j++ {
			if j == i {
				for _, f := range consSelf {
					o = append(o, fmt.Sprintf(f, P(j)))
				}
				continue
			}
			for _, f := range consRef {
				o = append(o, fmt.Sprintf(f, P(j)))
			}
		}
		return o
	}
	for n := 1; n <= 3; n++ {
		opts := make([][]string, n)
		for i := range opts {
			opts[i] = options(i, n)
			if n == 3 && !full {
				// quick: a parameter of a 3-parameter signature refers to its successor only
				var keep []string
				for _, o := range opts[i] {
					if !strings.Contains(o, "\x00") || strings.Contains(o, P((i+1)%3)) {
						keep = append(keep, o)
					}
				}
				opts[i] = keep
			}
		}
		idx := make([]int, n)
		for {
			cons := make([]string, n)
			for i := range cons {
				cons[i] = opts[i][idx[i]]
			}
			shapes := 4
			if n == 3 {
				shapes = 2
			}
			for s := 0; s < shapes; s++ {
				out = append(out, gsigSpec{cons, s, n})
			}
			k := n - 1
			for k >= 0 {
				idx[k]++
				if idx[k] < len(opts[k]) {
					break
				}
				idx[k] = 0
				k--
			}
			if k < 0 {
				break
			}
		}
	}
	return out
}

func (g gsigSpec) render(name string, names []string) string {
	sub := func(s string) string {
		for k, n := range names {
			s = strings.ReplaceAll(s, fmt.Sprintf("\x00%d\x00", k), n)
		}
		return s
	}
	var tps []string
	for i := 0; i < g.nparam; i++ {
		tps = append(tps, names[i]+" "+sub(g.cons[i]))
	}
	first, last := names[0], names[g.nparam-1]
	var sig string
	switch g.shape {
	case 0:
		sig = fmt.Sprintf("(%s) %s", first, last)
	case 1:
		sig = fmt.Sprintf("([]%s, ...%s)", last, first)
	case 2:
		sig = fmt.Sprintf("(func(%s) %s) map[int]%s", first, last, last)
	case 3:
		sig = fmt.Sprintf("(*%s, chan %s) (%s, error)", last, first, first)
	}
	return fmt.Sprintf("func %s[%s]%s { panic(0) }\n", name, strings.Join(tps, ", "), sig)
}

func (g gsigSpec) desc() string {
	d := strings.Join(g.cons, "; ")
	d = strings.NewReplacer("\x000\x00", "P0", "\x001\x00", "P1", "\x002\x00", "P2").Replace(d)
	return fmt.Sprintf("gensig[%s]shape%d", d, g.shape)
}

func checkSrc(src string) (*types.Package, error) {
	fset := token.NewFileSet()
	f, err := parser.ParseFile(fset, "g.go", src, 0)
	if err != nil {
		return nil, err
	}
	conf := types.Config{}
	return conf.Check("g", fset, []*ast.File{f}, nil)
}

// genericSignatures returns, for every spec go/types accepts, the signature under two naming schemes.
func genericSignatures(full bool) (out []utype, rejected int) {
	schemes := [][]string{{"T", "S", "R"}, {"U", "V", "W"}}
	specs := gsigSpecs(full)
	var valid []gsigSpec
	for _, g := range specs {
		if _, err := checkSrc(gsigPrelude + g.render("F", schemes[0])); err != nil {
			rejected++
			continue
		}
		valid = append(valid, g)
	}
	for si, names := range schemes {
		var b strings.Builder
		b.WriteString(gsigPrelude)
		for i, g := range valid {
			b.WriteString(g.render(fmt.Sprintf("F%d", i), names))
		}
		pkg, err := checkSrc(b.String())
		if err != nil {
			panic("c19: generated generic signatures do not type-check together: " + err.Error())
		}
		for i, g := range valid {
			out = append(out, utype{fmt.Sprintf("%s#names%d", g.desc(), si), pkg.Scope().Lookup(fmt.Sprintf("F%d", i)).Type()})
		}
	}
	return out, rejected
}
