// Package c19: the type-keyed map behaves as a map over type identity.
package c19

import (
	"encoding/json"
	"fmt"
	"go/token"
	"go/types"
	"sort"
	"strings"

	"github.com/goplus/gogen/typeutil"

	"verifengine/fixture"
	"verifengine/gx"
	"verifengine/tygen"
	"verifengine/vf"
)

func init() {
	vf.Register(&vf.Prop{
		ID: "C19", Level: "model_checking",
		Rule: "(a) universe U of types: every type of constructor depth<=2 over 26 leaves built twice (distinct objects), special shapes, interfaces with permuted methods/embeddings, unions with permuted/duplicated terms, generic signatures with renamed type parameters (hand-built, and all generated signatures of 1..3 type parameters whose constraints are plain or mention another/the same type parameter, type-checked under two naming schemes), separately instantiated generics; ALL ordered pairs: Identical(x,y) => Hash(x)==Hash(y), Hash never panics. " +
			"(b) explicit exploration of ALL operation sequences up to length L over keys chosen to collide under the real hash (groups of non-identical types with equal Hash, each with a second identical-but-distinct object) plus a non-colliding key; operations Set(k,1|2), Delete(k), IterateDeleting(k); after EVERY step At(all keys), Len, Keys, Iterate, KeysString are compared with a reference association list under types.Identical. " +
			"(c) BuiltinTI lookup agrees for identical spellings. state = canonical observation (bucket order + values); non-trivial = sequences with at least one colliding pair live",
		Assumptions: []string{"types.Identical is the identity relation", "map iteration order inside Iterate is the sorted order chosen by the overlay (any order is legal Go behaviour)"},
		Run:         run,
		Replay:      replay,
		Extra: func(t map[string]int64, cov map[string]any) {
			cov["states"] = cov["distinct_outcomes"] // distinct canonical observations (bucket order + values), merged over workers
		},
	})
}

// ---------------------------------------------------------------------------------------
// universe

type utype struct {
	desc string
	t    types.Type
}

func universe(full bool) []utype {
	imp := fixture.New(tygen.Fixtures, false)
	b := gx.New(imp, gx.Options{})
	env := tygen.NewEnv(b.Pkg, true)
	var u []utype
	depth := 2
	for rep := 0; rep < 2; rep++ {
		env.Depth(depth, tygen.Ctors, func(desc string, t types.Type) bool {
			if !full && strings.Count(desc, "(") == 2 && len(u)%3 != 0 {
				// quick: every third depth-2 type
				u = append(u, utype{}) // placeholder keeps the modulus deterministic
				return true
			}
			u = append(u, utype{fmt.Sprintf("%s#%d", desc, rep), t})
			return true
		})
		for _, s := range env.Specials() {
			u = append(u, utype{fmt.Sprintf("special:%s#%d", s.Desc, rep), s.T})
		}
		for _, s := range env.Constraints() {
			u = append(u, utype{fmt.Sprintf("constraint:%s#%d", s.Desc, rep), s.T})
		}
	}
	// drop placeholders
	out := u[:0]
	for _, x := range u {
		if x.t != nil {
			out = append(out, x)
		}
	}
	u = out
	T := types.Typ
	pkg := b.Pkg.Types
	mk := func(name string, sig *types.Signature) *types.Func { return types.NewFunc(token.NoPos, pkg, name, sig) }
	sig0 := func() *types.Signature { return types.NewSignatureType(nil, nil, nil, nil, nil, false) }
	sigI := func() *types.Signature {
		return types.NewSignatureType(nil, nil, nil, types.NewTuple(types.NewParam(0, pkg, "", T[types.Int])), types.NewTuple(types.NewParam(0, pkg, "", T[types.String])), false)
	}
	// interfaces with permuted methods and embeddings
	u = append(u,
		utype{"iface-AB", types.NewInterfaceType([]*types.Func{mk("A", sig0()), mk("B", sigI())}, nil).Complete()},
		utype{"iface-BA", types.NewInterfaceType([]*types.Func{mk("B", sigI()), mk("A", sig0())}, nil).Complete()},
		utype{"iface-A+embedB", types.NewInterfaceType([]*types.Func{mk("A", sig0())}, []types.Type{types.NewInterfaceType([]*types.Func{mk("B", sigI())}, nil).Complete()}).Complete()},
		utype{"iface-AB-othersig", types.NewInterfaceType([]*types.Func{mk("A", sigI()), mk("B", sig0())}, nil).Complete()},
		utype{"iface-embed-I-err", types.NewInterfaceType(nil, []types.Type{env.Named["I"], types.Universe.Lookup("error").Type()}).Complete()},
		utype{"iface-embed-err-I", types.NewInterfaceType(nil, []types.Type{types.Universe.Lookup("error").Type(), env.Named["I"]}).Complete()},
	)
	// unions with permuted / duplicated terms inside constraint interfaces
	term := types.NewTerm
	un := func(ts ...*types.Term) types.Type {
		return types.NewInterfaceType(nil, []types.Type{types.NewUnion(ts)}).Complete()
	}
	u = append(u,
		utype{"union-int|str", un(term(true, T[types.Int]), term(true, T[types.String]))},
		utype{"union-str|int", un(term(true, T[types.String]), term(true, T[types.Int]))},
		utype{"union-int|str|int", un(term(true, T[types.Int]), term(true, T[types.String]), term(true, T[types.Int]))},
		utype{"union-int|~int", un(term(false, T[types.Int]), term(true, T[types.Int]))},
		utype{"union-~int", un(term(true, T[types.Int]))},
		utype{"union-int", un(term(false, T[types.Int]))},
		utype{"union-M|int", un(term(false, env.Named["M"]), term(false, T[types.Int]))},
		utype{"union-int|M", un(term(false, T[types.Int]), term(false, env.Named["M"]))},
		utype{"union-~int|M", un(term(true, T[types.Int]), term(false, env.Named["M"]))},
		utype{"bare-union-a", types.NewUnion([]*types.Term{term(true, T[types.Int]), term(false, T[types.String])})},
		utype{"bare-union-b", types.NewUnion([]*types.Term{term(false, T[types.String]), term(true, T[types.Int])})},
	)
	// generic signatures with renamed type parameters
	gsig := func(names []string, cons []types.Type, shape int) types.Type {
		var tps []*types.TypeParam
		for i, n := range names {
			tps = append(tps, types.NewTypeParam(types.NewTypeName(0, pkg, n, nil), cons[i]))
		}
		var params, results []*types.Var
		switch shape {
		case 0: // func[T](T) T
			params = []*types.Var{types.NewParam(0, pkg, "", tps[0])}
			results = []*types.Var{types.NewParam(0, pkg, "", tps[0])}
		case 1: // func[K,V](map[K]V) []K
			params = []*types.Var{types.NewParam(0, pkg, "", types.NewMap(tps[0], tps[1]))}
			results = []*types.Var{types.NewParam(0, pkg, "", types.NewSlice(tps[0]))}
		case 2: // func[K,V](map[K]V) []V
			params = []*types.Var{types.NewParam(0, pkg, "", types.NewMap(tps[0], tps[1]))}
			results = []*types.Var{types.NewParam(0, pkg, "", types.NewSlice(tps[1]))}
		case 3: // func[T](...T)
			params = []*types.Var{types.NewParam(0, pkg, "", types.NewSlice(tps[0]))}
			return types.NewSignatureType(nil, nil, tps, types.NewTuple(params...), nil, true)
		}
		return types.NewSignatureType(nil, nil, tps, types.NewTuple(params...), types.NewTuple(results...), false)
	}
	anyT := types.Universe.Lookup("any").Type()
	cmp := types.Universe.Lookup("comparable").Type()
	u = append(u,
		utype{"gsig-T-any", gsig([]string{"T"}, []types.Type{anyT}, 0)},
		utype{"gsig-U-any", gsig([]string{"U"}, []types.Type{anyT}, 0)},
		utype{"gsig-T-cmp", gsig([]string{"T"}, []types.Type{cmp}, 0)},
		utype{"gsig-KV-keys", gsig([]string{"K", "V"}, []types.Type{cmp, anyT}, 1)},
		utype{"gsig-AB-keys", gsig([]string{"A", "B"}, []types.Type{cmp, anyT}, 1)},
		utype{"gsig-KV-vals", gsig([]string{"K", "V"}, []types.Type{cmp, anyT}, 2)},
		utype{"gsig-T-variadic", gsig([]string{"T"}, []types.Type{anyT}, 3)},
		utype{"gsig-Q-variadic", gsig([]string{"Q"}, []types.Type{anyT}, 3)},
		utype{"gsig-T-tildeint", gsig([]string{"T"}, []types.Type{un(term(true, T[types.Int]))}, 0)},
		utype{"gsig-S-tildeint", gsig([]string{"S"}, []types.Type{un(term(true, T[types.Int]))}, 0)},
	)
	// generated generic signatures whose constraints mention other type parameters, under two naming schemes
	gs, _ := genericSignatures(full)
	u = append(u, gs...)
	// free type parameters (identical iff same object)
	tp1 := types.NewTypeParam(types.NewTypeName(0, pkg, "P", nil), anyT)
	tp2 := types.NewTypeParam(types.NewTypeName(0, pkg, "P", nil), anyT)
	u = append(u, utype{"free-tparam-1", tp1}, utype{"free-tparam-2", tp2}, utype{"slice-of-free-tparam-1", types.NewSlice(tp1)}, utype{"slice-of-free-tparam-1b", types.NewSlice(tp1)})
	// separately instantiated generics
	for i := 0; i < 2; i++ {
		inst, err := types.Instantiate(nil, env.Named["Box"], []types.Type{types.NewSlice(T[types.Int])}, true)
		if err == nil {
			u = append(u, utype{fmt.Sprintf("Box[[]int]#%d", i), inst})
		}
		ctx := types.NewContext()
		inst2, err := types.Instantiate(ctx, env.Named["Box"], []types.Type{env.Named["M"]}, true)
		if err == nil {
			u = append(u, utype{fmt.Sprintf("Box[M]#ctx%d", i), inst2})
		}
	}
	// tuples
	u = append(u, utype{"tuple-int-str", types.NewTuple(types.NewVar(0, pkg, "a", T[types.Int]), types.NewVar(0, pkg, "b", T[types.String]))},
		utype{"tuple-int-str-b", types.NewTuple(types.NewVar(0, pkg, "x", T[types.Int]), types.NewVar(0, pkg, "y", T[types.String]))},
		utype{"tuple-empty", types.NewTuple()})
	// alias chains
	al := types.NewAlias(types.NewTypeName(0, pkg, "AA", nil), env.Named["A"])
	u = append(u, utype{"alias-of-alias-int", al}, utype{"slice-alias-of-alias", types.NewSlice(al)})
	return u
}

func safeHash(h typeutil.Hasher, t types.Type) (v uint32, panicked string) {
	defer func() {
		if e := recover(); e != nil {
			panicked = fmt.Sprint(e)
		}
	}()
	return h.Hash(t), ""
}

// ---------------------------------------------------------------------------------------
// sequences

type op struct {
	Kind string // set | del | iterdel
	Key  int
	Val  int
}

func (o op) String() string {
	switch o.Kind {
	case "set":
		return fmt.Sprintf("Set(k%d,%d)", o.Key, o.Val)
	case "del":
		return fmt.Sprintf("Delete(k%d)", o.Key)
	}
	return fmt.Sprintf("IterateDeleting(k%d)", o.Key)
}

type refEntry struct {
	key types.Type
	val int
}

type refMap struct{ es []refEntry }

func (r *refMap) find(k types.Type) int {
	for i, e := range r.es {
		if types.Identical(e.key, k) {
			return i
		}
	}
	return -1
}
func (r *refMap) set(k types.Type, v int) (prev any) {
	if i := r.find(k); i >= 0 {
		prev = r.es[i].val
		r.es[i].val = v
		return
	}
	r.es = append(r.es, refEntry{k, v})
	return nil
}
func (r *refMap) del(k types.Type) bool {
	if i := r.find(k); i >= 0 {
		r.es = append(r.es[:i:i], r.es[i+1:]...)
		return true
	}
	return false
}

// keys: chosen from the universe so that they collide under the real hash.
type keyset struct {
	keys  []types.Type
	descs []string
}

func chooseKeys(u []utype) keyset {
	h := typeutil.MakeHasher()
	groups := map[uint32][]int{}
	for i, x := range u {
		if v, p := safeHash(h, x.t); p == "" {
			groups[v] = append(groups[v], i)
		}
	}
	var hs []uint32
	for k := range groups {
		hs = append(hs, k)
	}
	sort.Slice(hs, func(i, j int) bool { return hs[i] < hs[j] })
	var ks keyset
	add := func(i int) {
		ks.keys = append(ks.keys, u[i].t)
		ks.descs = append(ks.descs, u[i].desc)
	}
	// find the hash value with the most identity classes; take up to 3 classes, 2 objects each
	best, bestClasses := uint32(0), [][]int(nil)
	for _, hv := range hs {
		var classes [][]int
		for _, i := range groups[hv] {
			if _, isNamed := u[i].t.(*types.Named); isNamed {
				continue // pointer-hashed: collisions would not be reproducible
			}
			placed := false
			for c := range classes {
				if types.Identical(u[classes[c][0]].t, u[i].t) {
					classes[c] = append(classes[c], i)
					placed = true
					break
				}
			}
			if !placed {
				classes = append(classes, []int{i})
			}
		}
		score := len(classes)
		if score > len(bestClasses) && stable(u, classes) {
			best, bestClasses = hv, classes
		}
	}
	_ = best
	for c := 0; c < len(bestClasses) && c < 3; c++ {
		add(bestClasses[c][0])
		if len(bestClasses[c]) > 1 {
			add(bestClasses[c][1])
		}
	}
	// a non-colliding key: int
	ks.keys = append(ks.keys, types.Typ[types.Int])
	ks.descs = append(ks.descs, "int")
	return ks
}

// stable: the classes must not involve pointer-valued hashes (named types), so that the
// collision is reproducible across processes.
func stable(u []utype, classes [][]int) bool {
	for _, c := range classes {
		if strings.Contains(u[c[0]].desc, "fmt.") || strings.Contains(u[c[0]].desc, "verif/p") || strings.Contains(u[c[0]].desc, "Box") || strings.Contains(u[c[0]].desc, "util.") {
			return false
		}
		for _, n := range []string{"M", "Str", "S", "I", "A"} {
			if strings.Contains(u[c[0]].desc, "("+n+")") {
				return false
			}
		}
	}
	return true
}

type observation struct {
	canon string
	err   string
}

// observe compares the real map with the reference after a step.
func observe(m *typeutil.Map, ref *refMap, ks keyset) observation {
	var errs []string
	if m.Len() != len(ref.es) {
		errs = append(errs, fmt.Sprintf("Len()=%d, reference %d", m.Len(), len(ref.es)))
	}
	for i, k := range ks.keys {
		got := m.At(k)
		var want any
		if j := ref.find(k); j >= 0 {
			want = ref.es[j].val
		}
		if got != want {
			errs = append(errs, fmt.Sprintf("At(k%d)=%v, reference %v", i, got, want))
		}
	}
	check := func(name string, keys []types.Type) {
		if len(keys) != len(ref.es) {
			errs = append(errs, fmt.Sprintf("%s yields %d keys, reference %d", name, len(keys), len(ref.es)))
			return
		}
		used := make([]bool, len(ref.es))
		for _, k := range keys {
			j := -1
			for x, e := range ref.es {
				if !used[x] && types.Identical(e.key, k) {
					j = x
					break
				}
			}
			if j < 0 {
				errs = append(errs, fmt.Sprintf("%s yields key %v not (or twice) in reference", name, k))
				return
			}
			used[j] = true
		}
	}
	keys := m.Keys()
	check("Keys", keys)
	var it []types.Type
	var canon strings.Builder
	m.Iterate(func(k types.Type, v any) {
		it = append(it, k)
		ci := -1
		for i, kk := range ks.keys {
			if types.Identical(kk, k) {
				ci = i
				break
			}
		}
		fmt.Fprintf(&canon, "c%d=%v;", ci, v)
		if j := ref.find(k); j < 0 || ref.es[j].val != v {
			errs = append(errs, fmt.Sprintf("Iterate yields (%v,%v), reference disagrees", k, v))
		}
	})
	check("Iterate", it)
	if n := strings.Count(m.KeysString(), ","); len(ref.es) > 0 && n != len(ref.es)-1 {
		// type strings may contain commas; only check when they cannot
		plain := true
		for _, e := range ref.es {
			if strings.Contains(e.key.String(), ",") {
				plain = false
			}
		}
		if plain {
			errs = append(errs, fmt.Sprintf("KeysString lists %d keys, reference %d", n+1, len(ref.es)))
		}
	}
	return observation{canon.String(), strings.Join(errs, "; ")}
}

func apply(m *typeutil.Map, ref *refMap, ks keyset, o op) string {
	k := ks.keys[o.Key]
	switch o.Kind {
	case "set":
		gp, wp := m.Set(k, o.Val), ref.set(k, o.Val)
		if gp != wp {
			return fmt.Sprintf("%v returned previous %v, reference %v", o, gp, wp)
		}
	case "del":
		g, w := m.Delete(k), ref.del(k)
		if g != w {
			return fmt.Sprintf("%v returned %v, reference %v", o, g, w)
		}
	case "iterdel":
		// on the first callback delete k (unless it is the current entry); afterwards k's class
		// must not be visited
		deleted, bad := false, ""
		first := true
		m.Iterate(func(key types.Type, v any) {
			if deleted && types.Identical(key, k) {
				bad = fmt.Sprintf("%v: key visited after it was deleted during iteration", o)
			}
			if first {
				first = false
				if !types.Identical(key, k) {
					g, w := m.Delete(k), ref.del(k)
					if g != w {
						bad = fmt.Sprintf("%v: Delete during iteration returned %v, reference %v", o, g, w)
					}
					deleted = g
				}
			}
		})
		return bad
	}
	return ""
}

type payload struct {
	Ops   []op     `json:"ops"`
	Keys  []string `json:"keys"`
	Pair  []string `json:"pair,omitempty"`
	Stage string   `json:"stage"`
}

func alphabet(ks keyset, reducedKeys int) []op {
	n := len(ks.keys)
	if reducedKeys > 0 && reducedKeys < n {
		n = reducedKeys
	}
	var a []op
	for k := 0; k < n; k++ {
		a = append(a, op{"set", k, 1})
	}
	for k := 0; k < n; k++ {
		a = append(a, op{"del", k, 0})
	}
	for k := 0; k < n; k++ {
		a = append(a, op{"set", k, 2})
	}
	for k := 0; k < n; k++ {
		a = append(a, op{"iterdel", k, 0})
	}
	return a
}

func runSeq(ks keyset, seq []op) (fail string, states []string) {
	m := new(typeutil.Map)
	ref := &refMap{}
	for i, o := range seq {
		if e := apply(m, ref, ks, o); e != "" {
			return fmt.Sprintf("step %d: %s", i, e), states
		}
		ob := observe(m, ref, ks)
		states = append(states, ob.canon)
		if ob.err != "" {
			return fmt.Sprintf("after step %d (%v): %s", i, o, ob.err), states
		}
	}
	return "", states
}

func seqString(seq []op) string {
	var s []string
	for _, o := range seq {
		s = append(s, o.String())
	}
	return strings.Join(s, " ")
}

func run(c *vf.Ctx) {
	u := universe(c.Thorough())
	h := typeutil.MakeHasher()
	// (a) all pairs
	hashes := make([]uint32, len(u))
	for i, x := range u {
		v, p := safeHash(h, x.t)
		hashes[i] = v
		if p != "" && c.MineIdx(int64(i)) {
			c.Violation("hash-panic|"+shape(x.desc), fmt.Sprintf("Hash(%s) panics: %s", x.desc, p), payload{Stage: "hash", Pair: []string{x.desc}})
		}
	}
	var identicalPairs, collidingNonIdentical int
	for i := range u {
		if !c.MineIdx(int64(i)) {
			continue
		}
		for j := range u {
			c.Eval(1)
			if types.Identical(u[i].t, u[j].t) {
				if i != j {
					identicalPairs++
					c.Distinct(fmt.Sprintf("id:%d:%d", i, j))
				}
				if hashes[i] != hashes[j] {
					c.Violation("identical-hash-differs|"+shape(u[i].desc)+"|"+shape(u[j].desc),
						fmt.Sprintf("Identical(%s, %s) but Hash %d != %d", u[i].desc, u[j].desc, hashes[i], hashes[j]), payload{Stage: "hash", Pair: []string{u[i].desc, u[j].desc}})
				}
			} else if hashes[i] == hashes[j] {
				collidingNonIdentical++
			}
		}
	}
	c.Tally("universe_types", len(u)/c.N+1)
	c.Tally("identical_pairs_distinct_objects", identicalPairs)
	c.Tally("colliding_non_identical_pairs", collidingNonIdentical)
	c.Outcome("pairs-ok")

	// (b) sequences
	ks := chooseKeys(u)
	if c.Idx == 0 {
		c.Sample(map[string]any{"keys": ks.descs})
	}
	type bound struct{ L, keys int }
	bounds := []bound{{4, 0}, {5, 5}}
	if c.Thorough() {
		bounds = []bound{{5, 0}, {6, 4}}
	}
	seen := map[string]struct{}{}
	for _, bd := range bounds {
		L := bd.L
		alpha := alphabet(ks, bd.keys)
		var seq []op
		var dfs func(depth int)
		var counter int64
		dfs = func(depth int) {
			if depth == L {
				return
			}
			for _, o := range alpha {
				seq = append(seq, o)
				mine := true
				if depth == 1 { // shard on the first two operations
					mine = c.MineIdx(counter)
					counter++
				}
				if mine {
					if depth >= 1 {
						fail, states := runSeq(ks, seq)
						c.Eval(1)
						c.Transition(1)
						if len(states) > 0 {
							st := states[len(states)-1]
							if _, ok := seen[st]; !ok {
								seen[st] = struct{}{}
							}
							c.Outcome(st)
						}
						if liveCollision(seq) {
							c.Distinct(seqString(seq))
						}
						if fail != "" {
							c.Violation("sequence|"+kinds(seq), fmt.Sprintf("%s\nsequence: %s\nkeys: %v", fail, seqString(seq), ks.descs), payload{Ops: append([]op{}, seq...), Keys: ks.descs, Stage: "seq"})
						} else {
							c.Trace(1)
							if len(seq) == L && counter%97 == 0 {
								c.Sample(seqString(seq))
							}
							dfs(depth + 1)
						}
					} else {
						dfs(depth + 1)
					}
				}
				seq = seq[:len(seq)-1]
			}
		}
		dfs(0)
		c.Tally(fmt.Sprintf("bound_L%d_keys%d_completed", bd.L, len(alpha)/4), 1)
	}

	// (c) client table
	if c.Idx == 0 {
		imp := fixture.New(tygen.Fixtures, false)
		b := gx.New(imp, gx.Options{})
		T := types.Typ
		spell := [][2]types.Type{
			{types.NewSlice(T[types.String]), types.NewSlice(T[types.String])},
			{types.NewSlice(T[types.Int]), types.NewSlice(types.NewAlias(types.NewTypeName(0, b.Pkg.Types, "AI", nil), T[types.Int]))},
			{types.NewChan(types.SendRecv, T[types.Int]), types.NewChan(types.RecvOnly, T[types.String])},
			{T[types.String], types.NewAlias(types.NewTypeName(0, b.Pkg.Types, "AS", nil), T[types.String])},
			{T[types.Int], T[types.UntypedInt]},
		}
		for _, p := range spell {
			a, bb := b.Pkg.BuiltinTI(p[0]), b.Pkg.BuiltinTI(p[1])
			c.Eval(1)
			if a != bb {
				c.Violation("builtin-ti|"+p[0].String(), fmt.Sprintf("BuiltinTI(%v) != BuiltinTI(%v)", p[0], p[1]), payload{Stage: "bti", Pair: []string{p[0].String(), p[1].String()}})
			}
		}
	}
}

func liveCollision(seq []op) bool {
	live := map[int]bool{}
	for _, o := range seq {
		switch o.Kind {
		case "set":
			live[o.Key/2] = true
		}
	}
	return len(live) >= 2
}

func kinds(seq []op) string {
	var s []string
	for _, o := range seq {
		s = append(s, o.Kind)
	}
	return strings.Join(s, ",")
}

func shape(desc string) string {
	if i := strings.Index(desc, "#"); i >= 0 {
		desc = desc[:i]
	}
	// erase leaf
	if i := strings.LastIndex(desc, "("); i >= 0 {
		if j := strings.Index(desc[i:], ")"); j > 0 {
			return desc[:i+1] + "_" + desc[i+j:]
		}
	}
	return desc
}

func replay(raw json.RawMessage) (string, bool) {
	var p payload
	if err := json.Unmarshal(raw, &p); err != nil {
		return err.Error(), false
	}
	u := universe(true)
	switch p.Stage {
	case "seq":
		ks := chooseKeys(u)
		fail, _ := runSeq(ks, p.Ops)
		if fail != "" {
			return fail + "\nsequence: " + seqString(p.Ops), true
		}
		return "sequence agrees with the reference: " + seqString(p.Ops), false
	case "hash":
		h := typeutil.MakeHasher()
		var ts []types.Type
		for _, d := range p.Pair {
			for _, x := range u {
				if x.desc == d {
					ts = append(ts, x.t)
					break
				}
			}
		}
		if len(ts) == 2 {
			a, pa := safeHash(h, ts[0])
			b, pb := safeHash(h, ts[1])
			if pa != "" || pb != "" {
				return "Hash panics: " + pa + pb, true
			}
			if types.Identical(ts[0], ts[1]) && a != b {
				return fmt.Sprintf("Identical but Hash %d != %d", a, b), true
			}
			return "hashes agree", false
		}
	}
	return "replay: case not reconstructible", false
}
