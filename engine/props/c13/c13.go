// Package c13: type expressions round-trip — the syntax gogen emits for a type, read back in the
// generated package's context, denotes the identical type.
package c13

import (
	"encoding/json"
	"fmt"
	"go/token"
	"go/types"
	"regexp"
	"strings"

	"github.com/goplus/gogen"

	"verifengine/fixture"
	"verifengine/gx"
	"verifengine/oracle"
	"verifengine/tygen"
	"verifengine/vf"
)

func init() {
	vf.Register(&vf.Prop{
		ID: "C13", Level: "exploration",
		Rule: "all types of constructor depth<=D over the leaf set (basic, unsafe.Pointer, local named/alias/generic instance, imported incl. equal base names) with 18 one-argument constructors, " +
			"all chains of the 6 syntactically tricky constructors up to length L, hand-listed special shapes (tags, multi-field structs, named params, embedded interfaces, instantiations); " +
			"each type is emitted in 5 positions (var, alias, func-decl param+result, named-struct field, type argument of Box) and the emitted text re-checked by go/types; " +
			"non-trivial = depth>=1; distinct = distinct canonical type string x position",
		Assumptions: []string{"go/types 1.23 is the reference reader of the emitted text", "identity across the two universes is compared by structural canonical string with named types identified by path+name+type arguments"},
		Run:    run,
		Replay: replay,
	})
}

type item struct {
	Desc string
	T    types.Type
	Mode string
}

type replayPayload struct {
	Desc string `json:"desc"`
	Mode string `json:"mode"`
	Full bool   `json:"full_leaves"`
}

var modes = []string{"var", "alias", "func", "field", "targ"}

var leafRe = regexp.MustCompile(`\(([^()]*)\)`)

// classOf erases the leaf so that classes are "constructor chain | mode | category".
func classOf(desc, mode, cat string) string {
	d := desc
	if strings.HasPrefix(d, "special:") {
		return d + "|" + mode + "|" + cat
	}
	if i := strings.LastIndex(d, "("); i >= 0 {
		j := strings.Index(d[i:], ")")
		if j > 0 {
			d = d[:i+1] + "_" + d[i+j:]
		}
	} else {
		d = "_"
	}
	return d + "|" + mode + "|" + cat
}

func newBuild() (*gx.Build, *tygen.Env, *fixture.Importer) {
	imp := fixture.New(tygen.Fixtures, false)
	b := gx.New(imp, gx.Options{})
	return b, nil, imp
}

// emit declares t in the given position under ordinal i. It returns the name of the object
// to look up in the re-checked package and how to extract the type from it.
func emit(b *gx.Build, env *tygen.Env, t types.Type, mode string, i int) string {
	pkg := b.Pkg
	name := fmt.Sprintf("V%d", i)
	switch mode {
	case "var":
		pkg.NewVar(token.NoPos, t, name)
	case "alias":
		pkg.AliasType(name, t)
	case "func":
		p := pkg.NewParam(token.NoPos, "p", t, false)
		r := pkg.NewParam(token.NoPos, "", t, false)
		pkg.NewFunc(nil, name, types.NewTuple(p), types.NewTuple(r), false).BodyStart(pkg).
			Val(p).Return(1).End()
	case "field":
		st := types.NewStruct([]*types.Var{types.NewField(token.NoPos, pkg.Types, "F", t, false)}, nil)
		pkg.NewType(name).InitType(pkg, st)
	case "constraint":
		tp := types.NewTypeParam(types.NewTypeName(token.NoPos, pkg.Types, "P", nil), t)
		sig := types.NewSignatureType(nil, nil, []*types.TypeParam{tp}, types.NewTuple(pkg.NewParam(token.NoPos, "p", tp, false)), nil, false)
		fn, err := pkg.NewFuncWith(token.NoPos, name, sig, nil)
		if err != nil {
			panic(err)
		}
		fn.BodyStart(pkg).End()
	case "targ":
		inst, err := types.Instantiate(nil, env.Named["Box"], []types.Type{t}, true)
		if err != nil {
			panic(err)
		}
		pkg.NewVar(token.NoPos, inst, name)
	}
	return name
}

// extract returns the type denoted at the position for ordinal name in the re-checked package.
func extract(c *oracle.Checked, mode, name string) types.Type {
	obj := c.Pkg.Scope().Lookup(name)
	if obj == nil {
		return nil
	}
	switch mode {
	case "var", "alias":
		return obj.Type()
	case "func":
		sig := obj.Type().(*types.Signature)
		p, r := sig.Params().At(0).Type(), sig.Results().At(0).Type()
		if oracle.Canon(p) != oracle.Canon(r) {
			return types.NewTuple(sig.Params().At(0), sig.Results().At(0)) // mismatch marker
		}
		return p
	case "constraint":
		sig := obj.Type().(*types.Signature)
		if sig.TypeParams().Len() != 1 {
			return nil
		}
		return sig.TypeParams().At(0).Constraint()
	case "field":
		st, ok := obj.Type().Underlying().(*types.Struct)
		if !ok || st.NumFields() != 1 {
			return nil
		}
		return st.Field(0).Type()
	case "targ":
		n, ok := obj.Type().(*types.Named)
		if !ok || n.TypeArgs() == nil || n.TypeArgs().Len() != 1 {
			return nil
		}
		return n.TypeArgs().At(0)
	}
	return nil
}

// checkBatch builds all items in one package. It returns per-item failure text ("" = ok) and
// a global failure (parse/type error not attributable) if any.
func checkBatch(full bool, descs []item, gen func(env *tygen.Env) []item) (fail []string, global string, texts map[string]string) {
	imp := fixture.New(tygen.Fixtures, false)
	b := gx.New(imp, gx.Options{})
	var env *tygen.Env
	var items []item
	var names []string
	out := gx.Try(func() {
		env = tygen.NewEnv(b.Pkg, full)
		items = gen(env)
		for i, it := range items {
			names = append(names, emit(b, env, it.T, it.Mode, i))
		}
	})
	fail = make([]string, len(items))
	if !b.Accepted(out) {
		return fail, "builder rejected a type declaration: " + out.Msg + strings.Join(b.Errs, ";"), nil
	}
	texts, err := oracle.WriteAll(b.Pkg)
	if err != nil {
		return fail, err.Error(), texts
	}
	c := oracle.Check(texts, imp, gx.PkgPath)
	if !c.OK() {
		return fail, "emitted text rejected: " + c.ErrString(), texts
	}
	for i, it := range items {
		got := extract(c, it.Mode, names[i])
		want := oracle.Canon(it.T)
		if got == nil {
			fail[i] = "object missing or of unexpected shape in emitted package"
		} else if g := oracle.Canon(got); g != want {
			fail[i] = fmt.Sprintf("emitted type denotes %s, original is %s", g, want)
		}
	}
	return fail, "", texts
}

type spec struct {
	full   bool
	depth  int
	chain  int
	thorough bool
}

// enumerate lists (desc, mode) pairs deterministically for env; T filled in.
func enumerate(env *tygen.Env, sp spec) []item {
	var out []item
	seen := map[string]bool{}
	add := func(desc string, t types.Type, depth int) {
		ms := modes
		if depth >= 2 && !sp.thorough {
			ms = modes[:2]
		}
		if depth >= 3 {
			ms = modes[:1]
		}
		for _, m := range ms {
			if m == "alias" && depth == 0 {
				// alias of a plain leaf is fine too
			}
			k := desc + "|" + m
			if !seen[k] {
				seen[k] = true
				out = append(out, item{desc, t, m})
			}
		}
	}
	env.Depth(sp.depth, tygen.Ctors, func(desc string, t types.Type) bool {
		add(desc, t, strings.Count(desc, "("))
		return true
	})
	for _, s := range env.Specials() {
		add("special:"+s.Desc, s.T, 1)
	}
	for _, s := range env.Constraints() {
		k := "special:constraint:" + s.Desc
		seen[k] = true
		out = append(out, item{k, s.T, "constraint"})
	}
	// chains of the tricky constructors over two leaves
	chainEnv := *env
	chainEnv.Leaves = []types.Type{types.Typ[types.Int], env.Named["a/fmt.T"]}
	chainEnv.Depth(sp.chain, tygen.Ctors[:6], func(desc string, t types.Type) bool {
		add(desc, t, 3)
		return true
	})
	return out
}

func specFor(c *vf.Ctx) spec {
	if c.Thorough() {
		return spec{full: true, depth: 3, chain: 6, thorough: true}
	}
	return spec{full: true, depth: 2, chain: 4}
}

func run(c *vf.Ctx) {
	sp := specFor(c)
	// enumerate once to learn the size; each batch re-enumerates inside its own package
	// (types belong to a package instance) and picks its slice by index.
	probeImp := fixture.New(tygen.Fixtures, false)
	probe := gx.New(probeImp, gx.Options{})
	all := enumerate(tygen.NewEnv(probe.Pkg, sp.full), sp)
	const batch = 150
	nb := (len(all) + batch - 1) / batch
	for bi := 0; bi < nb; bi++ {
		if !c.Mine() {
			continue
		}
		if c.Expired() {
			c.Cap(fmt.Sprintf("wall budget hit at batch %d/%d", bi, nb))
			break
		}
		lo, hi := bi*batch, (bi+1)*batch
		if hi > len(all) {
			hi = len(all)
		}
		runRange(c, sp, lo, hi)
	}
}

func runRange(c *vf.Ctx, sp spec, lo, hi int) {
	var items []item
	gen := func(env *tygen.Env) []item {
		items = enumerate(env, sp)[lo:hi]
		return items
	}
	fail, global, texts := checkBatch(sp.full, nil, gen)
	if global != "" && hi-lo > 1 {
		mid := (lo + hi) / 2
		runRange(c, sp, lo, mid)
		runRange(c, sp, mid, hi)
		return
	}
	for i, it := range items {
		c.Eval(1)
		depth := strings.Count(it.Desc, "(")
		if depth >= 1 || strings.HasPrefix(it.Desc, "special:") {
			c.Distinct(oracle.Canon(it.T) + "|" + it.Mode)
		}
		c.Tally("mode:"+it.Mode, 1)
		c.Tally(fmt.Sprintf("depth:%d", depth), 1)
		msg := fail[i]
		cat := "mismatch"
		if global != "" {
			msg, cat = global, "rejected"
		}
		if msg == "" {
			c.Outcome("ok")
			if i == 0 && lo%1500 == 0 {
				c.Sample(map[string]string{"type": it.Desc, "position": it.Mode, "canonical": oracle.Canon(it.T)})
			}
			continue
		}
		c.Outcome(cat)
		txt := ""
		for _, t := range texts {
			txt += t
		}
		if len(txt) > 1500 {
			txt = txt[:1500]
		}
		c.Violation(classOf(it.Desc, it.Mode, cat), fmt.Sprintf("type %s in position %s: %s\nemitted:\n%s", it.Desc, it.Mode, msg, txt),
			replayPayload{it.Desc, it.Mode, sp.full})
	}
}

func replay(raw json.RawMessage) (string, bool) {
	var p replayPayload
	if err := json.Unmarshal(raw, &p); err != nil {
		return err.Error(), false
	}
	sp := spec{full: p.Full, depth: 3, chain: 6, thorough: true}
	var its []item
	gen := func(env *tygen.Env) []item {
		for _, it := range enumerate(env, sp) {
			if it.Desc == p.Desc && it.Mode == p.Mode {
				its = []item{it}
				return its
			}
		}
		return nil
	}
	fail, global, texts := checkBatch(p.Full, nil, gen)
	if len(its) == 0 {
		return "case not found in enumeration: " + p.Desc, false
	}
	txt := ""
	for _, t := range texts {
		txt += t
	}
	if global != "" {
		return global + "\n" + txt, true
	}
	if fail[0] != "" {
		return fail[0] + "\n" + txt, true
	}
	return "type " + p.Desc + " round-trips\n" + txt, false
}

var _ = gogen.TyAny
