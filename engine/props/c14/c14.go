// Package c14: synthesised zero values are the zero value of exactly the requested type.
package c14

import (
	"encoding/json"
	"fmt"
	"go/ast"
	"go/constant"
	"go/token"
	"go/types"
	"strings"

	"github.com/goplus/gogen"

	"verifengine/fixture"
	"verifengine/gx"
	"verifengine/oracle"
	"verifengine/tygen"
	"verifengine/vf"
)

func init() {
	vf.Register(&vf.Prop{
		ID: "C14", Level: "exploration",
		Rule: "all types of constructor depth<=2 (quick) / <=3 reduced (thorough) over 26 leaves (every basic kind, named over basic/struct/interface, alias, imported, instantiated generic) plus special shapes, x 4 producers of zero values: " +
			"ZeroLit in `var x T = z`, omitted optional argument of type T, ReturnErr padding in func() (T, error), zero-argument conversion T(). " +
			"oracle: emitted package type-checks; the element the builder reports has type T; the expression is a zero-value form (0, \"\", false, nil, T{}, or a conversion/parenthesisation of those) and its constant value, if any, is zero. non-trivial = depth>=1 or named; distinct = canonical type x producer",
		Assumptions: []string{"go/types 1.23.5 is the reader of the emitted text", "zero-ness is judged syntactically on the emitted expression plus the constant value reported by the builder"},
		Run:         run,
		Replay:      replay,
	})
}

var producers = []string{"var", "optional", "returnerr", "conv0"}

type item struct {
	Desc string
	T    types.Type
	Prod string
}

type payload struct {
	Desc string `json:"desc"`
	Prod string `json:"producer"`
}

type observed struct {
	name     string // function name f<i>
	repType  types.Type
	repCVal  constant.Value
	defType  types.Type // builder-scope type of x in the define form
	zeroExpr ast.Expr
}

func emit(b *gx.Build, t types.Type, prod string, i int) (ob observed) {
	pkg := b.Pkg
	ob.name = fmt.Sprintf("f%d", i)
	errT := types.Universe.Lookup("error").Type()
	switch prod {
	case "var":
		cb := pkg.NewFunc(nil, ob.name, nil, nil, false).BodyStart(pkg)
		cb.NewVarStart(t, "x").ZeroLit(t)
		el := cb.Get(-1)
		ob.repType, ob.repCVal = el.Type, el.CVal
		cb.EndInit(1).VarRef(nil).VarVal("x").Assign(1).EndStmt().End()
	case "define":
		cb := pkg.NewFunc(nil, ob.name, nil, nil, false).BodyStart(pkg)
		cb.DefineVarStart(token.NoPos, "x").ZeroLit(t)
		el := cb.Get(-1)
		ob.repType, ob.repCVal = el.Type, el.CVal
		cb.EndInit(1)
		if o := cb.Scope().Lookup("x"); o != nil {
			ob.defType = o.Type()
		}
		cb.VarRef(nil).VarVal("x").Assign(1).EndStmt().End()
	case "optional":
		a := pkg.NewParam(token.NoPos, "a", types.Typ[types.Int], false)
		p := pkg.NewParam(token.NoPos, "p", t, true)
		callee := pkg.NewFunc(nil, ob.name+"opt", types.NewTuple(a, p), nil, false)
		callee.BodyStart(pkg).End()
		cb := pkg.NewFunc(nil, ob.name, nil, nil, false).BodyStart(pkg)
		cb.Val(callee.Obj()).Val(1).Call(1).EndStmt().End()
	case "returnerr":
		r0 := pkg.NewParam(token.NoPos, "", t, false)
		r1 := pkg.NewParam(token.NoPos, "", errT, false)
		e := pkg.NewParam(token.NoPos, "e", errT, false)
		cb := pkg.NewFunc(nil, ob.name, types.NewTuple(e), types.NewTuple(r0, r1), false).BodyStart(pkg)
		cb.Val(e).ReturnErr(false).End()
	case "conv0":
		cb := pkg.NewFunc(nil, ob.name, nil, nil, false).BodyStart(pkg)
		cb.NewVarStart(t, "x").Typ(t).Call(0)
		el := cb.Get(-1)
		ob.repType, ob.repCVal = el.Type, el.CVal
		cb.EndInit(1).VarRef(nil).VarVal("x").Assign(1).EndStmt().End()
	}
	return
}

// findZero locates the synthesised expression in the emitted function.
func findZero(c *oracle.Checked, prod, name string) (ast.Expr, *ast.Ident) {
	for _, f := range c.Files {
		for _, d := range f.Decls {
			fd, ok := d.(*ast.FuncDecl)
			if !ok || fd.Name.Name != name || fd.Body == nil || len(fd.Body.List) == 0 {
				continue
			}
			switch s := fd.Body.List[0].(type) {
			case *ast.DeclStmt:
				vs := s.Decl.(*ast.GenDecl).Specs[0].(*ast.ValueSpec)
				if len(vs.Values) == 1 {
					return vs.Values[0], vs.Names[0]
				}
			case *ast.AssignStmt:
				if id, ok := s.Lhs[0].(*ast.Ident); ok && len(s.Rhs) == 1 {
					return s.Rhs[0], id
				}
			case *ast.ExprStmt:
				if call, ok := s.X.(*ast.CallExpr); ok && len(call.Args) == 2 {
					return call.Args[1], nil
				}
			case *ast.ReturnStmt:
				if len(s.Results) == 2 {
					return s.Results[0], nil
				}
			}
		}
	}
	return nil, nil
}

func isZeroForm(e ast.Expr) bool {
	switch v := e.(type) {
	case *ast.ParenExpr:
		return isZeroForm(v.X)
	case *ast.BasicLit:
		return v.Value == "0" || v.Value == `""` || v.Value == "0.0" || v.Value == "``"
	case *ast.Ident:
		return v.Name == "nil" || v.Name == "false"
	case *ast.CompositeLit:
		return len(v.Elts) == 0
	case *ast.CallExpr: // conversion T(0), T(nil)
		return len(v.Args) == 1 && isZeroForm(v.Args[0])
	}
	return false
}

func isZeroConst(v constant.Value) bool {
	switch v.Kind() {
	case constant.Bool:
		return !constant.BoolVal(v)
	case constant.String:
		return constant.StringVal(v) == ""
	case constant.Int, constant.Float, constant.Complex:
		return constant.Sign(v) == 0
	}
	return false
}

func classOf(desc, prod, cat string) string {
	d := desc
	if !strings.HasPrefix(d, "special:") {
		if i := strings.LastIndex(d, "("); i >= 0 {
			if j := strings.Index(d[i:], ")"); j > 0 {
				d = d[:i+1] + kindOfLeaf(d[i+1:i+j]) + d[i+j:]
			}
		} else {
			d = kindOfLeaf(d)
		}
	}
	return d + "|" + prod + "|" + cat
}

func kindOfLeaf(l string) string {
	switch {
	case strings.Contains(l, "."):
		return "named:" + l
	case l == "any" || l == "error":
		return l
	}
	return l
}

type spec struct {
	depth   int
	reduced bool
}

func enumerate(env *tygen.Env, sp spec) []item {
	var out []item
	add := func(desc string, t types.Type) {
		for _, p := range producers {
			out = append(out, item{desc, t, p})
		}
	}
	env.Depth(sp.depth, tygen.Ctors, func(desc string, t types.Type) bool {
		if sp.reduced && strings.Count(desc, "(") == 3 {
			// depth 3 only over chains that start from named / basic representative leaves
			if !(strings.Contains(desc, "(M)") || strings.Contains(desc, "(int)") || strings.Contains(desc, "(a/fmt.T)")) {
				return true
			}
		}
		add(desc, t)
		return true
	})
	for _, s := range env.Specials() {
		add("special:"+s.Desc, s.T)
	}
	return out
}

// checkBatch builds items[lo:hi] into one package.
func checkBatch(sp spec, lo, hi int) (items []item, fail []string, cats []string, global string, text string) {
	imp := fixture.New(tygen.Fixtures, false)
	b := gx.New(imp, gx.Options{})
	var obs []observed
	out := gx.Try(func() {
		env := tygen.NewEnv(b.Pkg, true)
		items = enumerate(env, sp)[lo:hi]
		for i, it := range items {
			obs = append(obs, emit(b, it.T, it.Prod, i))
		}
	})
	fail = make([]string, len(items))
	cats = make([]string, len(items))
	if !b.Accepted(out) {
		return items, fail, cats, "builder rejected: " + out.Msg + strings.Join(b.Errs, ";"), ""
	}
	texts, err := oracle.WriteAll(b.Pkg)
	for _, t := range texts {
		text += t
	}
	if err != nil {
		return items, fail, cats, err.Error(), text
	}
	c := oracle.Check(texts, imp, gx.PkgPath)
	if len(c.Parse) > 0 {
		return items, fail, cats, "emitted text rejected: " + c.ErrString(), text
	}
	byFunc := c.ErrsByFunc()
	if len(byFunc[""]) > 0 {
		return items, fail, cats, "emitted text rejected: " + strings.Join(byFunc[""], "; "), text
	}
	for i, it := range items {
		ob := obs[i]
		want := oracle.Canon(it.T)
		set := func(cat, msg string) {
			if fail[i] == "" {
				fail[i], cats[i] = msg, cat
			}
		}
		if errs := append(byFunc[ob.name], byFunc[ob.name+"opt"]...); len(errs) > 0 {
			set("rejected:"+oracle.NormMsg(errs[0]), "go/types rejects the emitted use: "+strings.Join(errs, "; "))
			continue
		}
		if ob.repType != nil && oracle.Canon(ob.repType) != want {
			set("reported-type", fmt.Sprintf("builder reports type %s for the zero value of %s", oracle.Canon(ob.repType), want))
		}
		if ob.repCVal != nil && !isZeroConst(ob.repCVal) {
			set("nonzero-const", fmt.Sprintf("reported constant %v is not zero", ob.repCVal))
		}
		z, id := findZero(c, it.Prod, ob.name)
		if z == nil {
			set("not-found", "could not locate the synthesised expression in the emitted function")
			continue
		}
		if !isZeroForm(z) {
			set("not-zero-form", "emitted expression is not a zero-value form")
		}
		if it.Prod == "define" && id != nil {
			gobj := c.Info.Defs[id]
			if gobj == nil {
				set("define-missing", "x not defined in emitted text")
			} else {
				got := oracle.Canon(gobj.Type())
				if got != want {
					set("define-type-go", fmt.Sprintf("`x := <zero of %s>` declares x of type %s in the emitted Go", want, got))
				}
				if ob.defType != nil && oracle.Canon(ob.defType) != got {
					set("define-type-builder", fmt.Sprintf("builder scope says x has type %s, go/types says %s", oracle.Canon(ob.defType), got))
				}
			}
		}
	}
	return items, fail, cats, "", text
}

func specFor(c *vf.Ctx) spec {
	if c.Thorough() {
		return spec{3, true}
	}
	return spec{2, false}
}

func run(c *vf.Ctx) {
	sp := specFor(c)
	imp := fixture.New(tygen.Fixtures, false)
	probe := gx.New(imp, gx.Options{})
	total := len(enumerate(tygen.NewEnv(probe.Pkg, true), sp))
	const batch = 100
	nb := (total + batch - 1) / batch
	for bi := 0; bi < nb; bi++ {
		if !c.Mine() {
			continue
		}
		if c.Expired() {
			c.Cap("wall budget")
			break
		}
		lo, hi := bi*batch, (bi+1)*batch
		if hi > total {
			hi = total
		}
		runRange(c, sp, lo, hi)
	}
}

func runRange(c *vf.Ctx, sp spec, lo, hi int) {
	items, fail, cats, global, text := checkBatch(sp, lo, hi)
	if global != "" && hi-lo > 1 {
		mid := (lo + hi) / 2
		runRange(c, sp, lo, mid)
		runRange(c, sp, mid, hi)
		return
	}
	for i, it := range items {
		c.Eval(1)
		c.Tally("producer:"+it.Prod, 1)
		depth := strings.Count(it.Desc, "(")
		_, named := it.T.(*types.Named)
		if depth >= 1 || named || strings.HasPrefix(it.Desc, "special:") {
			c.Distinct(oracle.Canon(it.T) + "|" + it.Prod)
		}
		msg, cat := fail[i], cats[i]
		if global != "" {
			msg, cat = global, "rejected:"+oracle.NormMsg(strings.TrimPrefix(global, "emitted text rejected: "))
			if strings.HasPrefix(global, "builder rejected") {
				cat = "builder-rejected"
			}
		}
		if msg == "" {
			c.Outcome("ok")
			if (lo+i)%7001 == 0 {
				c.Sample(map[string]string{"type": it.Desc, "producer": it.Prod})
			}
			continue
		}
		c.Outcome(cat)
		if len(text) > 1200 {
			text = text[:1200]
		}
		c.Violation(classOf(it.Desc, it.Prod, cat), fmt.Sprintf("type %s, producer %s: %s\nemitted:\n%s", it.Desc, it.Prod, msg, text), payload{it.Desc, it.Prod})
	}
}

func replay(raw json.RawMessage) (string, bool) {
	var p payload
	if err := json.Unmarshal(raw, &p); err != nil {
		return err.Error(), false
	}
	for _, sp := range []spec{{2, false}, {3, true}} {
		imp := fixture.New(tygen.Fixtures, false)
		probe := gx.New(imp, gx.Options{})
		all := enumerate(tygen.NewEnv(probe.Pkg, true), sp)
		for i, it := range all {
			if it.Desc == p.Desc && it.Prod == p.Prod {
				_, fail, _, global, text := checkBatch(sp, i, i+1)
				if global != "" {
					return global + "\n" + text, true
				}
				if fail[0] != "" {
					return fail[0] + "\n" + text, true
				}
				return "zero value of " + p.Desc + " via " + p.Prod + " is correct\n" + text, false
			}
		}
	}
	return "case not found", false
}

var _ = gogen.TyAny
