// Package c11: every language extension lowers to plain Go with the documented meaning.
package c11

import (
	"encoding/json"
	"fmt"
	"go/token"
	"go/types"
	"sort"
	"strings"

	"github.com/goplus/gogen"

	"verifengine/fixture"
	"verifengine/gx"
	"verifengine/oracle"
	"verifengine/vf"
)

func init() {
	vf.Register(&vf.Prop{
		ID: "C11", Level: "exploration",
		Rule: "one table per extension; every row is built on the real CodeBuilder and compared with a reference lowering written by the harness as plain Go: " +
			"(builtin) every method of the builtin-type method table (transcribed from the documentation in builtin.go) x receivers {variable, named type over the builtin type, literal, unsupported basic types} x every argument list of the documented arity over 2 atoms per parameter, arity-1 and arity+1, as exact name, lower-case alias and auto-property; " +
			"(member) member chains of depth 1..2 on map[string]T / map[string]any / any / named map values, read, comma-ok and assignment target, in 12 statement positions incl. if/for/switch/range headers; " +
			"(cast) T(b) for every basic type T and bool constant/variable/expression b, T() zero-argument conversions for 12 types, tuple casts; " +
			"(optional) signatures positional^i optional^j [variadic] (i,j<=2), own package and imported, called with 0..i+j+2 arguments; " +
			"(alias) types with Foo / foo / both, own and imported, value/pointer receivers, as alias call and auto-property; " +
			"(enum) XGo_Enum / Gop_Enum x {Next() (v, ok), Next() (k, v, ok), func(yield) with 0..2 values} x {:=, =, no variables} x blank positions x break/continue/return bodies; " +
			"(closure) inline closure calls for signatures with 0..2 parameters (incl. variadic) and 0..2 results x bodies with plain and early return; " +
			"(big) big integer / rational literals +-(2^k +- 1) and p/q, XGo configuration. " +
			"Oracle: the builder accepts iff go/types accepts the reference lowering (or the row is documented as rejected); for accepted rows the emitted function and the reference function have the same typed canonical form (identifiers resolved to objects, auto-generated names alpha-renamed) and the emitted package type-checks. " +
			"non-trivial = rows whose lowering differs textually from the sugar; distinct = feature x row key",
		Assumptions: []string{"the reference lowerings transcribe the documentation of each extension (comments in builtin.go, codebuild.go, stmt.go, util_gengo.go)", "go/types 1.23.5"},
		Run:         run,
		Replay:      replay,
	})
}

// row is one use of an extension.
type row struct {
	Feature string
	Key     string
	Results string         // result list of the enclosing function ("" or "(int, error)")
	ResTyps []string       // the same as type texts
	Build   func(w *world) // emits the body through w.cb
	Ref     string         // reference body (plain Go); "" with Reject = documented rejection
	Setup   func(w *world, idx int) // package-level declarations the row needs (own-package functions)
	RefDecl string         // their reference text; @ stands for the row index; compared as function h_<idx>
	Alt     []string       // further bodies with the same meaning (placement of hoisted statements)
	Reject  bool
	Sugar   bool // the lowering differs from the sugar
}

type world struct {
	b   *gx.Build
	pkg *gogen.Package
	cb  *gogen.CodeBuilder
	loc map[string]types.Object
	imp map[string]gogen.PkgRef
	idx int
}

func (w *world) val(name string) *gogen.CodeBuilder {
	o, ok := w.loc[name]
	if !ok {
		panic("c11: unknown local " + name)
	}
	return w.cb.Val(o, gx.SrcNode(name))
}

func (w *world) ref(pkg, name string) types.Object {
	p, ok := w.imp[pkg]
	if !ok {
		p = w.pkg.Import(pkg)
		w.imp[pkg] = p
	}
	return p.Ref(name)
}

// package-level variables shared by all rows: name -> type text
var locals = [][2]string{
	{"x", "int"}, {"y", "string"}, {"fl", "float64"}, {"i64", "int64"}, {"u64", "uint64"}, {"i8", "int8"}, {"u", "uint"}, {"f32", "float32"},
	{"bt", "byte"}, {"rn", "rune"}, {"bo", "bool"}, {"z", "[]int"}, {"ss", "[]string"}, {"ch", "chan int"}, {"e", "any"}, {"er", "error"},
	{"ms", "ext.MyStr"}, {"mi", "ext.MyInt"}, {"mf", "ext.MyFloat"}, {"mss", "ext.MySS"}, {"msl", "ext.MySl"}, {"mch", "ext.MyCh"}, {"mi64", "ext.MyI64"}, {"mu64", "ext.MyU64"},
	{"mb", "ext.MyBool"}, {"e1", "ext.E1"}, {"e2", "ext.E2"}, {"g1", "ext.G1"}, {"ev", "ext.EV"}, {"ep", "ext.EP"}, {"pe1", "*ext.E1"}, {"f0", "ext.F0"}, {"f1", "ext.F1"}, {"f2", "ext.F2"}, {"fn", "ext.FN"}, {"bad1", "ext.Bad1"}, {"bad2", "ext.Bad2"}, {"bad3", "ext.Bad3"}, {"al", "ext.Al"}, {"pal", "*ext.Al"}, {"ali", "ext.AlI"}, {"st", "ext.St"}, {"pst", "*ext.St"}, {"arr", "[2]int"}, {"fn0", "func()"}, {"m", "map[string]int"}, {"ma", "map[string]any"}, {"mm", "map[string]map[string]int"}, {"mk", "map[int]string"}, {"nm", "ext.MyMap"}, {"pm", "*map[string]int"},
}

func prelude(imports []string) string {
	var b strings.Builder
	b.WriteString("package p\n\nimport (\n")
	for _, i := range imports {
		fmt.Fprintf(&b, "\t%q\n", i)
	}
	b.WriteString(")\n\nvar (\n")
	for _, l := range locals {
		fmt.Fprintf(&b, "\t%s %s\n", l[0], l[1])
	}
	b.WriteString(")\n\n")
	return b.String()
}

var fixtures = map[string]string{
	"strings": stringsStub,
	"strconv": strconvStub,
	"ext":     extSrc + optionalFixture() + enumFixture,
	"math/big": mathBigStub,
	"bi":       biFixture(),
}

var allImports = []string{"bi", "ext", "math/big", "strconv", "strings"}

// typeOf resolves a type text against the fixture world by type-checking a one-line package.
func typeOf(w *world, text string) types.Type {
	if t, ok := w.b.Extra["T:"+text]; ok {
		return t.(types.Type)
	}
	src := "package q\nimport (\n\t\"ext\"\n\t\"math/big\"\n)\nvar _ ext.MyInt\nvar _ big.Int\nvar V " + text + "\n"
	c := oracle.CheckSrc(src, w.b.Imp, "q")
	if !c.OK() {
		panic("c11: type text does not check: " + text + ": " + c.ErrString())
	}
	t := c.Pkg.Scope().Lookup("V").Type()
	w.b.Extra["T:"+text] = t
	return t
}

type answer struct {
	ok  bool
	msg string
}

func build1(imp *fixture.Importer, rows []row, skip []bool, conf func(*gogen.Config)) ([]answer, map[string]string, error) {
	return build1o(imp, rows, skip, gx.Options{Conf: conf})
}

func build1o(imp *fixture.Importer, rows []row, skip []bool, opts gx.Options) ([]answer, map[string]string, error) {
	b := gx.New(imp, opts)
	b.Extra = map[string]any{}
	w := &world{b: b, pkg: b.Pkg, loc: map[string]types.Object{}, imp: map[string]gogen.PkgRef{}}
	pkg := b.Pkg
	ans := make([]answer, len(rows))
	out := gx.Try(func() {
		for _, l := range locals {
			pkg.NewVar(token.NoPos, typeOf(w, l[1]), l[0])
			w.loc[l[0]] = pkg.Types.Scope().Lookup(l[0])
		}
		for i, r := range rows {
			if skip != nil && skip[i] {
				continue
			}
			nErr := len(b.Errs)
			var results *types.Tuple
			if len(r.ResTyps) > 0 {
				var vs []*types.Var
				for _, t := range r.ResTyps {
					vs = append(vs, types.NewParam(token.NoPos, pkg.Types, "", typeOf(w, t)))
				}
				results = types.NewTuple(vs...)
			}
			w.idx = i
			var so gx.Outcome
			if r.Setup != nil {
				so = gx.Try(func() { r.Setup(w, i) })
			}
			cb := pkg.NewFunc(nil, fmt.Sprintf("q_%d", i), nil, results, false).BodyStart(pkg)
			w.cb = cb
			o := so
			if !so.Panicked {
				o = gx.Try(func() { r.Build(w) })
			}
			ans[i].ok = !o.Panicked && len(b.Errs) == nErr
			if !ans[i].ok {
				ans[i].msg = o.Msg + strings.Join(b.Errs[nErr:], ";")
				if o.Fault {
					ans[i].msg = "FAULT@" + gx.Where(o.Stack) + " " + ans[i].msg
				}
				b.Errs = b.Errs[:nErr]
				gx.Try(func() { cb.ResetStmt() })
			}
			eo := gx.Try(func() { cb.End() })
			if ans[i].ok && (eo.Panicked || len(b.Errs) > nErr) {
				ans[i].ok = false
				ans[i].msg = "at End: " + eo.Msg + strings.Join(b.Errs[nErr:], ";")
				if eo.Fault {
					ans[i].msg = "FAULT@" + gx.Where(eo.Stack) + " " + ans[i].msg
				}
				b.Errs = b.Errs[:nErr]
			}
		}
	})
	if out.Panicked {
		for i := range ans {
			if ans[i].msg == "" && !ans[i].ok {
				ans[i].msg = "setup failed: " + out.Msg
			}
		}
	}
	texts, err := oracle.WriteAll(b.Pkg)
	return ans, texts, err
}

// build: verdict pass over all rows, then a second package with the accepted rows only (a rejected row
// may leave a half-built statement behind), which is the one printed.
func build(imp *fixture.Importer, rows []row, conf func(*gogen.Config)) ([]answer, map[string]string, error) {
	ans, _, _ := build1(imp, rows, nil, conf)
	skip := make([]bool, len(rows))
	for i := range ans {
		skip[i] = !ans[i].ok
	}
	ans2, texts, err := build1(imp, rows, skip, conf)
	for i := range ans {
		if ans[i].ok && !ans2[i].ok {
			ans[i].ok = false
			ans[i].msg = "FAULT verdict differs between two builds: " + ans2[i].msg
		}
	}
	return ans, texts, err
}

func refText(rows []row) string {
	var b strings.Builder
	b.WriteString(prelude(allImports))
	for i, r := range rows {
		if r.Ref == "" && r.Reject {
			continue
		}
		res := r.Results
		if res != "" {
			res = " " + res
		}
		body := strings.ReplaceAll(r.Ref, "@", fmt.Sprint(i))
		fmt.Fprintf(&b, "func q_%d()%s {\n%s\n}\n", i, res, body)
		if r.RefDecl != "" {
			b.WriteString(strings.ReplaceAll(r.RefDecl, "@", fmt.Sprint(i)) + "\n")
		}
		for k, alt := range r.Alt {
			fmt.Fprintf(&b, "func q_%d_alt%d()%s {\n%s\n}\n", i, k, res, strings.ReplaceAll(alt, "@", fmt.Sprint(i)))
		}
	}
	return b.String()
}

type payload struct {
	Feature string `json:"feature"`
	Key     string `json:"key"`
}

func judge(rows []row, conf func(*gogen.Config), report func(r row, kind, detail string), count func(r row, refOK, ok bool)) {
	imp := fixture.New(fixtures, false)
	ref := oracle.CheckSrc(refText(rows), imp, gx.PkgPath)
	if len(ref.Parse) > 0 {
		panic("c11: reference text does not parse: " + ref.Parse[0])
	}
	rby := ref.ErrsByFunc()
	if len(rby[""]) > 0 {
		panic("c11: reference prelude rejected: " + rby[""][0])
	}
	ans, texts, werr := build(imp, rows, conf)
	unprintable := map[int]string{}
	if werr != nil {
		// find the rows whose accepted output cannot be printed, then print the rest
		skip := make([]bool, len(rows))
		for i := range rows {
			skip[i] = !ans[i].ok
		}
		for i := range rows {
			if !ans[i].ok {
				continue
			}
			only := make([]bool, len(rows))
			for k := range only {
				only[k] = k != i
			}
			if _, _, e := build1(imp, rows, only, conf); e != nil {
				unprintable[i] = e.Error()
				skip[i] = true
			}
		}
		_, texts, werr = build1(imp, rows, skip, conf)
	}
	em := oracle.Check(texts, imp, gx.PkgPath)
	eby := map[string][]string{}
	if len(em.Parse) == 0 {
		eby = em.ErrsByFunc()
	}
	for i, r := range rows {
		fn := fmt.Sprintf("q_%d", i)
		refOK := !r.Reject && len(rby[fn]) == 0
		a := ans[i]
		count(r, refOK, a.ok)
		switch {
		case strings.HasPrefix(a.msg, "FAULT"):
			report(r, "fault:"+strings.SplitN(a.msg, " ", 2)[0], a.msg)
		case !refOK && a.ok:
			if msg, bad := unprintable[i]; bad {
				report(r, "accepted-but-unprintable", msg)
				continue
			}
			why := "documented as rejected"
			if !r.Reject {
				why = "reference lowering rejected by go/types: " + rby[fn][0]
			}
			report(r, "accepted-but-should-reject", why+"\nreference:\n"+r.Ref+"\nemitted:\n"+funcText(texts, fn))
		case refOK && !a.ok:
			report(r, "rejected:"+oracle.NormMsg(a.msg), "the reference lowering type-checks, the builder rejects: "+a.msg+"\nreference:\n"+r.Ref)
		case refOK && a.ok:
			if msg, bad := unprintable[i]; bad {
				report(r, "accepted-but-unprintable", msg+"\nreference:\n"+r.Ref)
				continue
			}
			if werr != nil {
				report(r, "write-failed", werr.Error())
				continue
			}
			if len(em.Parse) > 0 {
				report(r, "emitted-no-parse", em.Parse[0])
				continue
			}
			if errs := eby[fn]; len(errs) > 0 {
				report(r, "emitted-rejected:"+oracle.NormMsg(errs[0]), "emitted code rejected by go/types: "+errs[0]+"\nemitted:\n"+funcText(texts, fn)+"\nreference:\n"+r.Ref)
				continue
			}
			ce, _ := oracle.CanonFunc(em, fn)
			cr, _ := oracle.CanonFunc(ref, fn)
			ce = strings.Replace(ce, fn, "q", 1)
			same := ce == strings.Replace(cr, fn, "q", 1)
			for k := range r.Alt {
				an := fmt.Sprintf("%s_alt%d", fn, k)
				if len(rby[an]) > 0 {
					panic("c11: alternative reference rejected: " + rby[an][0] + "\n" + r.Alt[k])
				}
				ca, _ := oracle.CanonFunc(ref, an)
				same = same || ce == strings.Replace(ca, an, "q", 1)
			}
			if same && r.RefDecl != "" {
				hn := fmt.Sprintf("h_%d", i)
				he, _ := oracle.CanonFunc(em, hn)
				hr, _ := oracle.CanonFunc(ref, hn)
				if he != hr {
					report(r, "declaration-differs", "emitted:\n"+funcText(texts, hn)+"\nreference:\n"+strings.ReplaceAll(r.RefDecl, "@", fmt.Sprint(i)))
					continue
				}
			}
			if !same {
				report(r, "lowering-differs", "emitted:\n"+funcText(texts, fn)+"\nreference:\n"+r.Ref)
			}
		}
	}
}

func funcText(texts map[string]string, fn string) string {
	for _, t := range texts {
		if i := strings.Index(t, "func "+fn+"("); i >= 0 {
			j := strings.Index(t[i:], "\n}\n")
			if j < 0 {
				return t[i:]
			}
			return t[i : i+j+2]
		}
	}
	return "<not emitted>"
}

type group struct {
	name string
	conf func(*gogen.Config)
	rows []row
}

func groups(thorough bool) []group {
	var gs []group
	add := func(name string, conf func(*gogen.Config), rows []row) {
		const chunk = 600
		for lo := 0; lo < len(rows); lo += chunk {
			hi := lo + chunk
			if hi > len(rows) {
				hi = len(rows)
			}
			gs = append(gs, group{name, conf, rows[lo:hi]})
		}
	}
	add("builtin", nil, builtinRows(thorough))
	add("member", nil, memberRows(thorough))
	add("cast", nil, castRows(thorough))
	add("optional", nil, optionalRows(thorough))
	add("alias", nil, aliasRows(thorough))
	add("enum", nil, enumRows(thorough))
	add("closure", nil, closureRows(thorough))
	add("big", bigConf, bigRows(thorough))
	return gs
}

func run(c *vf.Ctx) {
	for gi, g := range groups(c.Thorough()) {
		if !c.MineIdx(int64(gi)) {
			continue
		}
		if c.Expired() {
			c.Cap("wall budget")
			return
		}
		seen := map[string]bool{}
		for _, r := range g.rows {
			if seen[r.Key] {
				panic("c11: duplicate row key " + r.Feature + "|" + r.Key)
			}
			seen[r.Key] = true
		}
		judge(g.rows, g.conf, func(r row, kind, detail string) {
			c.Violation(kind+"|"+r.Feature+"|"+r.Key, r.Feature+" "+r.Key+": "+detail, payload{r.Feature, r.Key})
		}, func(r row, refOK, ok bool) {
			c.Eval(1)
			c.Outcome(fmt.Sprintf("%s:ref=%v,builder=%v", r.Feature, refOK, ok))
			c.Tally("rows:"+r.Feature, 1)
			if r.Sugar {
				c.Distinct(r.Feature + "|" + r.Key)
			}
		})
		if len(g.rows) > 0 {
			r := g.rows[len(g.rows)/2]
			c.Sample(map[string]string{"feature": r.Feature, "row": r.Key, "reference": r.Ref})
		}
	}
}

func replay(raw json.RawMessage) (string, bool) {
	var p payload
	if err := json.Unmarshal(raw, &p); err != nil {
		return err.Error(), false
	}
	var out []string
	for _, th := range []bool{false, true} {
		for _, g := range groups(th) {
			has := false
			for _, r := range g.rows {
				if r.Feature == p.Feature && r.Key == p.Key {
					has = true
				}
			}
			if !has {
				continue
			}
			judge(g.rows, g.conf, func(r row, kind, detail string) {
				if r.Feature == p.Feature && r.Key == p.Key {
					out = append(out, kind+": "+detail)
				}
			}, func(row, bool, bool) {})
			sort.Strings(out)
			if len(out) == 0 {
				return p.Feature + " " + p.Key + ": emitted code equals the reference lowering", false
			}
			return strings.Join(out, "\n"), true
		}
	}
	return "row not found: " + p.Feature + " " + p.Key, false
}

// Program is a self-contained build used by other checks (C18): rows [lo,hi) of one feature table, built
// in a fresh package over a fresh importer, without any process-wide accelerator.
type Program struct {
	Name string
	Run  func() (texts map[string]string, verdicts []string, err error)
}

// Programs returns slices of n rows spread over every feature table.
func Programs(n, perFeature int) []Program {
	var out []Program
	seen := map[string]int{}
	for _, g := range groups(false) {
		g := g
		if seen[g.name] >= perFeature || len(g.rows) == 0 {
			continue
		}
		k := seen[g.name]
		seen[g.name]++
		lo := (k * 37 * n) % len(g.rows)
		hi := lo + n
		if hi > len(g.rows) {
			hi = len(g.rows)
		}
		rows := g.rows[lo:hi]
		out = append(out, Program{Name: fmt.Sprintf("c11-%s[%d:%d]", g.name, lo, hi), Run: func() (map[string]string, []string, error) {
			imp := fixture.New(fixtures, false)
			ans, _, _ := build1o(imp, rows, nil, gx.Options{Conf: g.conf, RealBuiltin: true})
			skip := make([]bool, len(rows))
			var verdicts []string
			for i, a := range ans {
				skip[i] = !a.ok
				verdicts = append(verdicts, fmt.Sprintf("%s=%v:%s", rows[i].Key, a.ok, a.msg))
			}
			_, texts, err := build1o(imp, rows, skip, gx.Options{Conf: g.conf, RealBuiltin: true})
			return texts, verdicts, err
		}})
	}
	return out
}
