package c11

import (
	"fmt"
	"go/token"
	"go/types"
	"strings"

	"verifengine/gx"
)

// casts: T(b) for bool b, T() zero-argument conversions.

type bexpr struct {
	text  string
	konst int // -1 variable, 0/1 constant value
	push  func(w *world)
}

func boolExprs() []bexpr {
	return []bexpr{
		{"true", 1, func(w *world) { w.cb.Val(types.Universe.Lookup("true"), gx.SrcNode("true")) }},
		{"false", 0, func(w *world) { w.cb.Val(types.Universe.Lookup("false"), gx.SrcNode("false")) }},
		{"bo", -1, func(w *world) { w.val("bo") }},
		{"x == 1", -1, func(w *world) { w.val("x").Val(1).BinaryOp(token.EQL) }},
		{"!bo", -1, func(w *world) { w.val("bo").UnaryOp(token.NOT) }},
		{"mb", -1, func(w *world) { w.val("mb") }},
	}
}

var numericTypes = []string{"int", "int8", "int16", "int32", "int64", "uint", "uint8", "uint16", "uint32", "uint64", "uintptr", "float32", "float64", "complex64", "complex128"}

// use contexts for a value expression X of type T
func castContexts(T, X string, alts []string, push func(w *world)) []row {
	mk := func(ctx, tmpl string, build func(w *world)) row {
		r := row{Ref: fmt.Sprintf(tmpl, X), Build: build, Sugar: true}
		for _, a := range alts {
			r.Alt = append(r.Alt, fmt.Sprintf(tmpl, a))
		}
		r.Key = ctx
		return r
	}
	rows := []row{
		mk("assign", "\t_ = %s", func(w *world) {
			w.cb.VarRef(nil)
			push(w)
			w.cb.Assign(1).EndStmt()
		}),
		mk("typed-var", "\tvar w "+T+" = %s\n\t_ = w", func(w *world) {
			w.cb.NewVarStart(typeOf(w, T), "w")
			push(w)
			w.cb.EndInit(1)
			w.cb.VarRef(nil).Val(w.cb.Scope().Lookup("w")).Assign(1).EndStmt()
		}),
	}
	// define: the variable must get type T, whatever the spelling
	d := row{Key: "define", Sugar: true, Ref: "\tv := " + X + "\n\tvar w " + T + " = v\n\t_ = w", Build: func(w *world) {
		w.cb.DefineVarStart(token.NoPos, "v")
		push(w)
		w.cb.EndInit(1)
		w.cb.NewVarStart(typeOf(w, T), "w").Val(w.cb.Scope().Lookup("v")).EndInit(1)
		w.cb.VarRef(nil).Val(w.cb.Scope().Lookup("w")).Assign(1).EndStmt()
	}}
	d.Alt = append(d.Alt, "\tvar v "+T+" = "+X+"\n\tvar w "+T+" = v\n\t_ = w")
	for _, a := range alts {
		d.Alt = append(d.Alt, "\tvar v "+T+" = "+a+"\n\tvar w "+T+" = v\n\t_ = w")
		if T == "int" || T == "bool" || T == "string" { // the default type of the untyped spelling is T itself
			d.Alt = append(d.Alt, "\tv := "+a+"\n\tvar w "+T+" = v\n\t_ = w")
		}
	}
	rows = append(rows, d)
	return rows
}

func castRows(thorough bool) []row {
	var rows []row
	add := func(feature, key string, rs []row) {
		for _, r := range rs {
			r.Feature = feature
			r.Key = key + "/" + r.Key
			rows = append(rows, r)
		}
	}
	targets := append(append([]string{}, numericTypes...), "bool", "string", "ext.MyInt", "ext.MyBool", "ext.MyFloat")
	for _, T := range targets {
		for _, b := range boolExprs() {
			T, b := T, b
			push := func(w *world) {
				w.cb.Typ(typeOf(w, T), gx.SrcNode(T))
				b.push(w)
				w.cb.CallWith(1, 0, 0, gx.SrcNode("cast"))
			}
			var X string
			var alts []string
			isNum := false
			for _, n := range numericTypes {
				isNum = isNum || n == T
			}
			switch {
			case T == "bool" || T == "ext.MyBool":
				X = T + "(" + b.text + ")" // an ordinary conversion
			case isNum && b.konst >= 0:
				X = fmt.Sprintf("%s(%d)", T, b.konst)
				alts = []string{fmt.Sprint(b.konst)}
			case isNum:
				X = fmt.Sprintf("func() %s {\n\t\tif %s {\n\t\t\treturn 1\n\t\t} else {\n\t\t\treturn 0\n\t\t}\n\t}()", T, b.text)
			default:
				X = T + "(" + b.text + ")" // not a number: plain Go decides (rejected)
			}
			add("cast", T+"("+b.text+")", castContexts(T, X, alts, push))
		}
	}
	zeros := [][3]string{ // type, zero expression, alternative spelling
		{"int", "int(0)", "0"}, {"int8", "int8(0)", "0"}, {"uint64", "uint64(0)", "0"}, {"float64", "float64(0)", "0"}, {"complex128", "complex128(0)", "0"},
		{"uintptr", "uintptr(0)", "0"}, {"string", `string("")`, `""`}, {"bool", "bool(false)", "false"},
		{"[]int", "[]int(nil)", "nil"}, {"*int", "(*int)(nil)", "nil"}, {"map[string]int", "map[string]int(nil)", "nil"}, {"chan int", "(chan int)(nil)", "nil"},
		{"func()", "(func())(nil)", "nil"}, {"any", "any(nil)", "nil"}, {"error", "error(nil)", "nil"},
		{"struct{ A int }", "struct{ A int }{}", ""}, {"[2]int", "[2]int{}", ""},
		{"ext.MyInt", "ext.MyInt(0)", "0"}, {"ext.MyStr", `ext.MyStr("")`, `""`}, {"ext.MySl", "ext.MySl(nil)", "nil"}, {"ext.St", "ext.St{}", ""}, {"*ext.St", "(*ext.St)(nil)", "nil"},
	}
	for _, z := range zeros {
		z := z
		push := func(w *world) {
			w.cb.Typ(typeOf(w, z[0]), gx.SrcNode(z[0]))
			w.cb.CallWith(0, 0, 0, gx.SrcNode("zero"))
		}
		var alts []string
		if z[2] != "" {
			alts = []string{z[2]}
		}
		rs := castContexts(z[0], z[1], alts, push)
		if z[2] == "nil" {
			// `_ = nil` is not Go: in the blank assignment only the typed spelling is a lowering
			rs[0].Alt = nil
		}
		add("cast", z[0]+"()", rs)
	}
	_ = strings.Join
	return rows
}
