package c11

import (
	"fmt"
	"go/token"
	"strings"

	"verifengine/gx"
)

// user-defined range enumerators

const enumFixture = `
type It1 struct{}

func (*It1) Next() (v int, ok bool) { return 0, false }

type It2 struct{}

func (*It2) Next() (k string, v int, ok bool) { return "", 0, false }

type It1v struct{}

func (It1v) Next() (v int, ok bool) { return 0, false }

type E1 struct{}

func (E1) XGo_Enum() *It1 { return nil }

type E2 struct{}

func (E2) XGo_Enum() *It2 { return nil }

type G1 struct{}

func (G1) Gop_Enum() *It1 { return nil }

type EV struct{}

func (EV) XGo_Enum() It1v { return It1v{} }

type EP struct{}

func (*EP) XGo_Enum() *It1 { return nil }

type Seq func(yield func(int) bool)

type F0 struct{}

func (F0) XGo_Enum() func(yield func() bool) { return nil }

type F1 struct{}

func (F1) XGo_Enum() func(yield func(int) bool) { return nil }

type F2 struct{}

func (F2) XGo_Enum() func(yield func(string, int) bool) { return nil }

type FN struct{}

func (FN) XGo_Enum() Seq { return nil }

type Bad1 struct{}

func (Bad1) XGo_Enum(n int) *It1 { return nil }

type Bad2 struct{}

func (Bad2) XGo_Enum() int { return 0 }

type Bad3 struct{}

func (Bad3) XGo_Enum() *It3 { return nil }

type It3 struct{}

func (*It3) Next() (v int, ok int) { return 0, 0 }
`

type enumT struct {
	name  string // local variable
	meth  string
	style string // next1 | next2 | func0 | func1 | func2 | bad
}

var enumTs = []enumT{
	{"e1", "XGo_Enum", "next1"}, {"e2", "XGo_Enum", "next2"}, {"g1", "Gop_Enum", "next1"}, {"ev", "XGo_Enum", "next1"},
	{"ep", "XGo_Enum", "next1"}, {"pe1", "XGo_Enum", "next1"},
	{"f0", "XGo_Enum", "func0"}, {"f1", "XGo_Enum", "func1"}, {"f2", "XGo_Enum", "func2"}, {"fn", "XGo_Enum", "func1"},
	{"bad1", "", "bad"}, {"bad2", "", "bad"}, {"bad3", "", "bad"},
}

type loopVars struct {
	key    string
	define bool
	names  []string // define: names; assign: existing variables ("x", "y", "_")
}

var loopForms = []loopVars{
	{"none", false, nil},
	{"v:=", true, []string{"v"}},
	{"_:=", true, []string{"_"}},
	{"k,v:=", true, []string{"k", "v"}},
	{"_,v:=", true, []string{"_", "v"}},
	{"k,_:=", true, []string{"k", "_"}},
	{"_,_:=", true, []string{"_", "_"}},
	{"x=", false, []string{"x"}},
	{"_=", false, []string{"_"}},
	{"y,x=", false, []string{"y", "x"}},
	{"_,x=", false, []string{"_", "x"}},
}

var loopBodies = []string{"use", "break", "continue", "return", "empty"}

func enumRows(thorough bool) []row {
	var rows []row
	for _, et := range enumTs {
		for _, lf := range loopForms {
			for _, body := range loopBodies {
				if !thorough && body != "use" && (lf.key != "v:=" && lf.key != "k,v:=" && lf.key != "none") {
					continue
				}
				et, lf, body := et, lf, body
				// value variables available to the body
				var uses []string
				for _, n := range lf.names {
					if n != "_" && lf.define {
						uses = append(uses, n)
					}
				}
				bodyText := func(ind string) string {
					var b strings.Builder
					switch body {
					case "use":
						for _, u := range uses {
							b.WriteString(ind + "_ = " + u + "\n")
						}
						b.WriteString(ind + "bo = true\n")
					case "break":
						b.WriteString(ind + "if bo {\n" + ind + "\tbreak\n" + ind + "}\n" + ind + "bo = true\n")
					case "continue":
						b.WriteString(ind + "if bo {\n" + ind + "\tcontinue\n" + ind + "}\n" + ind + "bo = true\n")
					case "return":
						b.WriteString(ind + "if bo {\n" + ind + "\treturn\n" + ind + "}\n" + ind + "bo = true\n")
					}
					return b.String()
				}
				buildBody := func(w *world) {
					cb := w.cb
					set := func() { cb.VarRef(w.loc["bo"]).Val(types_true()).Assign(1).EndStmt() }
					switch body {
					case "use":
						for _, u := range uses {
							cb.VarRef(nil).Val(cb.Scope().Lookup(u)).Assign(1).EndStmt()
						}
						set()
					case "break":
						cb.If()
						w.val("bo")
						cb.Then().Break(nil).End()
						set()
					case "continue":
						cb.If()
						w.val("bo")
						cb.Then().Continue(nil).End()
						set()
					case "return":
						cb.If()
						w.val("bo")
						cb.Then().Return(0).End()
						set()
					}
				}
				// reference
				var ref string
				nvals := map[string]int{"next1": 1, "next2": 2, "func0": 0, "func1": 1, "func2": 2}[et.style]
				names := append([]string{}, lf.names...)
				reject := et.style == "bad"
				// chan-like rule for one-value enumerators: `_, v` means v
				if nvals == 1 && len(names) == 2 {
					switch {
					case !lf.define:
						reject = true // like a channel: only one iteration variable
					case names[0] == "_":
						names = names[1:]
					case names[1] == "_":
						names = names[:1]
					default:
						reject = true
					}
				}
				if nvals == 0 && len(names) > 0 {
					reject = true
				}
				recv := et.name
				switch {
				case reject:
					ref = ""
				case strings.HasPrefix(et.style, "next"):
					lhs := make([]string, nvals)
					for i := range lhs {
						lhs[i] = "_"
						if i < len(names) {
							lhs[i] = names[i]
						}
					}
					tok := ":="
					allBlank := true
					for _, l := range lhs {
						allBlank = allBlank && l == "_"
					}
					if !lf.define || allBlank {
						tok = "="
					}
					ref = fmt.Sprintf("\tfor it := %s.%s(); ; {\n\t\tvar ok bool\n\t\t%s, ok %s it.Next()\n\t\tif !ok {\n\t\t\tbreak\n\t\t}\n%s\t}",
						recv, et.meth, strings.Join(lhs, ", "), tok, bodyText("\t\t"))
				default:
					hdr := "for range"
					if len(names) > 0 {
						tok := ":="
						allBlank := true
						for _, n := range names {
							allBlank = allBlank && n == "_"
						}
						if !lf.define || allBlank {
							tok = "="
						}
						hdr = "for " + strings.Join(names, ", ") + " " + tok + " range"
					}
					ref = fmt.Sprintf("\t%s %s.%s() {\n%s\t}", hdr, recv, et.meth, bodyText("\t\t"))
				}
				r := row{Feature: "enum", Key: fmt.Sprintf("%s/%s/%s", et.name, lf.key, body), Ref: ref, Reject: reject, Sugar: true,
					Build: func(w *world) {
						cb := w.cb
						if lf.define {
							cb.ForRange(append([]string{}, lf.names...)...) // the builder keeps and edits the slice
						} else {
							cb.ForRange()
							for _, n := range lf.names {
								if n == "_" {
									cb.VarRef(nil)
								} else {
									cb.VarRef(w.loc[n])
								}
							}
						}
						w.val(et.name)
						cb.RangeAssignThen(token.NoPos)
						buildBody(w)
						cb.End()
					}}
				if reject {
					// a rejected row is still plain Go when the operand is no enumerator at all: go/types decides
					r.Reject = true
				}
				rows = append(rows, r)
			}
		}
	}
	_ = gx.SrcNode
	return rows
}

func types_true() any { return true }
