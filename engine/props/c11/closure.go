package c11

import (
	"fmt"
	"go/token"
	"go/types"
	"strings"

	"verifengine/gx"
)

// inline closure calls: arguments and results are bound exactly once, in order.

type icParam struct {
	name, typ string
}

type icSig struct {
	key      string
	params   []icParam
	variadic bool
	results  []string
}

var icSigs = []icSig{
	{"()", nil, false, nil},
	{"()int", nil, false, []string{"int"}},
	{"(int)", []icParam{{"a", "int"}}, false, nil},
	{"(int)int", []icParam{{"a", "int"}}, false, []string{"int"}},
	{"(int,string)int", []icParam{{"a", "int"}, {"b", "string"}}, false, []string{"int"}},
	{"(int,string)(int,string)", []icParam{{"a", "int"}, {"b", "string"}}, false, []string{"int", "string"}},
	{"(int,...int)int", []icParam{{"a", "int"}, {"rest", "[]int"}}, true, []string{"int"}},
	{"(...int)(int,string)", []icParam{{"rest", "[]int"}}, true, []string{"int", "string"}},
	// arguments that are assignable to, but not identical with, the parameter type: the binding must have the
	// parameter's type
	{"(any)int", []icParam{{"a", "any"}}, false, []string{"int"}},
	{"(ext.MySl,<-chan int)int", []icParam{{"a", "ext.MySl"}, {"b", "<-chan int"}}, false, []string{"int"}},
	{"(float64,error)", []icParam{{"a", "float64"}, {"b", "error"}}, false, nil},
}

func icArg(typ string, effect bool) arg {
	switch {
	case typ == "int" && effect:
		return arg{"ext.SideI()", func(w *world) { w.cb.Val(w.ref("ext", "SideI")).Call(0) }}
	case typ == "int":
		return arg{"x", func(w *world) { w.val("x") }}
	case typ == "string" && effect:
		return arg{"ext.SideS()", func(w *world) { w.cb.Val(w.ref("ext", "SideS")).Call(0) }}
	case typ == "string":
		return arg{"y", func(w *world) { w.val("y") }}
	case typ == "any":
		return arg{"y", func(w *world) { w.val("y") }}
	case typ == "ext.MySl":
		return arg{"z", func(w *world) { w.val("z") }}
	case typ == "<-chan int":
		return arg{"ch", func(w *world) { w.val("ch") }}
	case typ == "float64":
		return arg{"1", func(w *world) { w.cb.Val(1) }}
	case typ == "error":
		return arg{"nil", func(w *world) { w.cb.Val(nil) }}
	}
	panic("icArg " + typ)
}

func closureRows(thorough bool) []row {
	var rows []row
	for _, sg := range icSigs {
		for _, effect := range []bool{false, true} {
			for _, body := range []string{"ret", "early"} {
				for _, nvar := range []int{0, 1, 2} { // number of variadic arguments
					if !sg.variadic && nvar != 1 {
						continue
					}
					plain := true // only int / string operands have side-effecting variants
					for _, p := range sg.params {
						plain = plain && (p.typ == "int" || p.typ == "string" || p.typ == "[]int")
					}
					if effect && !plain {
						continue
					}
					sg, effect, body, nvar := sg, effect, body, nvar
					// arguments
					var args []arg
					for _, p := range sg.params {
						if p.typ == "[]int" {
							for k := 0; k < nvar; k++ {
								args = append(args, icArg("int", effect))
							}
						} else {
							args = append(args, icArg(p.typ, effect))
						}
					}
					// result expressions of the two returns: parameters where possible, else calls / constants
					retExpr := func(k int, t string, second bool) arg {
						if effect {
							return icArg(t, true)
						}
						for _, p := range sg.params {
							if p.typ == t && !second {
								p := p
								return arg{"P:" + p.name, nil}
							}
						}
						if t == "int" {
							return arg{"7", func(w *world) { w.cb.Val(7) }}
						}
						return arg{`"s"`, func(w *world) { w.cb.Val("s") }}
					}
					key := fmt.Sprintf("%s/%s/effects=%v/nvar=%d", sg.key, body, effect, nvar)
					// ---- reference
					mkRef := func(reverse bool) string {
						var b strings.Builder
						for i, t := range sg.results {
							fmt.Fprintf(&b, "\tvar r%d %s\n", i, t)
						}
						b.WriteString("\t{\n")
						// parameter bindings
						var binds []string
						ai := 0
						for _, p := range sg.params {
							if p.typ == "[]int" {
								var el []string
								for k := 0; k < nvar; k++ {
									el = append(el, args[ai].text)
									ai++
								}
								binds = append(binds, fmt.Sprintf("\t\tvar %s []int = []int{%s}\n", p.name, strings.Join(el, ", ")))
							} else {
								binds = append(binds, fmt.Sprintf("\t\tvar %s %s = %s\n", p.name, p.typ, args[ai].text))
								ai++
							}
						}
						if reverse {
							for i := len(binds) - 1; i >= 0; i-- {
								b.WriteString(binds[i])
							}
						} else {
							for _, s := range binds {
								b.WriteString(s)
							}
						}
						ret := func(ind string, second bool) {
							var as []string
							for i, t := range sg.results {
								e := retExpr(i, t, second)
								txt := e.text
								if strings.HasPrefix(txt, "P:") {
									txt = txt[2:]
								}
								as = append(as, fmt.Sprintf("%sr%d = %s\n", ind, i, txt))
							}
							if reverse {
								for i := len(as) - 1; i >= 0; i-- {
									b.WriteString(as[i])
								}
							} else {
								for _, s := range as {
									b.WriteString(s)
								}
							}
							b.WriteString(ind + "goto end\n")
						}
						for _, p := range sg.params { // parameters are used so that the bodies are legal Go
							b.WriteString("\t\t_ = " + p.name + "\n")
						}
						if body == "early" {
							b.WriteString("\t\tif bo {\n")
							ret("\t\t\t", false)
							b.WriteString("\t\t}\n")
						}
						b.WriteString("\t\tbo = true\n")
						ret("\t\t", body == "early")
						b.WriteString("\tend:\n\t}\n")
						switch len(sg.results) {
						case 1:
							b.WriteString("\tx = r0")
						case 2:
							b.WriteString("\tx, y = r0, r1")
						}
						return b.String()
					}
					r := row{Feature: "closure", Key: key, Ref: mkRef(false), Sugar: true}
					if !effect {
						r.Alt = []string{mkRef(true)} // without side effects the binding order is unobservable
					}
					r.Build = func(w *world) {
						cb := w.cb
						pkg := w.pkg
						var ps, rs []*types.Var
						for _, p := range sg.params {
							ps = append(ps, types.NewParam(token.NoPos, pkg.Types, p.name, typeOf(w, p.typ)))
						}
						for i, t := range sg.results {
							rs = append(rs, types.NewParam(token.NoPos, pkg.Types, fmt.Sprintf("ret%d", i), typeOf(w, t)))
						}
						sig := types.NewSignatureType(nil, nil, nil, types.NewTuple(ps...), types.NewTuple(rs...), sg.variadic)
						switch len(sg.results) {
						case 1:
							cb.VarRef(w.loc["x"])
						case 2:
							cb.VarRef(w.loc["x"]).VarRef(w.loc["y"])
						}
						for _, a := range args {
							a.push(w)
						}
						cb.CallInlineClosureStart(sig, len(args), false)
						for _, p := range ps {
							cb.VarRef(nil).Val(p).Assign(1).EndStmt()
						}
						ret := func(second bool) {
							for i, t := range sg.results {
								e := retExpr(i, t, second)
								if strings.HasPrefix(e.text, "P:") {
									for _, p := range ps {
										if p.Name() == e.text[2:] {
											cb.Val(p)
										}
									}
								} else {
									e.push(w)
								}
							}
							cb.Return(len(sg.results), gx.SrcNode("return"))
						}
						if body == "early" {
							cb.If()
							w.val("bo")
							cb.Then()
							ret(false)
							cb.End()
						}
						cb.VarRef(w.loc["bo"]).Val(true).Assign(1).EndStmt()
						ret(body == "early")
						cb.End()
						switch len(sg.results) {
						case 0:
							// statement form: nothing is left on the stack
						case 1:
							cb.Assign(1).EndStmt()
						case 2:
							cb.Assign(2).EndStmt()
						}
					}
					rows = append(rows, r)
				}
			}
		}
	}
	return rows
}
