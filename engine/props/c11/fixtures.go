package c11

const stringsStub = `package strings

func Count(s, substr string) int                  { return 0 }
func Index(s, substr string) int                  { return 0 }
func IndexAny(s, chars string) int                { return 0 }
func IndexByte(s string, c byte) int              { return 0 }
func IndexRune(s string, r rune) int              { return 0 }
func LastIndex(s, substr string) int              { return 0 }
func LastIndexAny(s, chars string) int            { return 0 }
func LastIndexByte(s string, c byte) int          { return 0 }
func Contains(s, substr string) bool              { return false }
func ContainsAny(s, chars string) bool            { return false }
func ContainsRune(s string, r rune) bool          { return false }
func Compare(a, b string) int                     { return 0 }
func EqualFold(s, t string) bool                  { return false }
func HasPrefix(s, prefix string) bool             { return false }
func HasSuffix(s, suffix string) bool             { return false }
func ToTitle(s string) string                     { return s }
func ToUpper(s string) string                     { return s }
func ToLower(s string) string                     { return s }
func Fields(s string) []string                    { return nil }
func Repeat(s string, count int) string           { return s }
func Split(s, sep string) []string                { return nil }
func SplitAfter(s, sep string) []string           { return nil }
func SplitN(s, sep string, n int) []string        { return nil }
func SplitAfterN(s, sep string, n int) []string   { return nil }
func Replace(s, old, new string, n int) string    { return s }
func ReplaceAll(s, old, new string) string        { return s }
func Trim(s, cutset string) string                { return s }
func TrimSpace(s string) string                   { return s }
func TrimLeft(s, cutset string) string            { return s }
func TrimRight(s, cutset string) string           { return s }
func TrimPrefix(s, prefix string) string          { return s }
func TrimSuffix(s, suffix string) string          { return s }
func Join(elems []string, sep string) string      { return "" }
`

const strconvStub = `package strconv

func Itoa(i int) string                                       { return "" }
func FormatInt(i int64, base int) string                      { return "" }
func FormatUint(i uint64, base int) string                    { return "" }
func FormatFloat(f float64, fmt byte, prec, bitSize int) string { return "" }
func Atoi(s string) (int, error)                              { return 0, nil }
func ParseInt(s string, base int, bitSize int) (int64, error) { return 0, nil }
func ParseUint(s string, base int, bitSize int) (uint64, error) { return 0, nil }
func ParseFloat(s string, bitSize int) (float64, error)       { return 0, nil }
func Quote(s string) string                                   { return s }
func Unquote(s string) (string, error)                        { return s, nil }
`

const extSrc = `package ext

const XGoPackage = true

type MyStr string
type MyInt int
type MyFloat float64
type MySS []string
type MySl []int
type MyCh chan int
type MyI64 int64
type MyU64 uint64
type MyMap map[string]int
type MyBool bool

func SideI() int { return 0 }

func SideS() string { return "" }

type Al struct{ N int }

func (Al) Foo() int                      { return 0 }
func (Al) Bar(a int, b string) string    { return "" }
func (*Al) Ptr() int                     { return 0 }
func (Al) XGo_under() int                { return 0 }
func (Al) Two() (int, error)             { return 0, nil }
func (Al) Void()                         {}

func MkAl() Al { return Al{} }

type AlI interface {
	Foo() int
	Bar(a int, b string) string
	XGo_under() int
	Two() (int, error)
	Void()
}

type St struct {
	A int
	B string
}
`
