package c11

import (
	"fmt"
	"go/token"
	"go/types"
	"strings"

	"verifengine/gx"
)

// optional parameters: positional^i optional^j [variadic]

var posTypes = []string{"int", "string"}
var optTypes = []string{"int", "string", "[]int", "*ext.St", "ext.St", "any", "ext.MyInt", "float64", "bool", "[2]int", "func()"}

func zeroText(t string) string {
	switch t {
	case "int", "float64", "ext.MyInt":
		return "0"
	case "string":
		return `""`
	case "bool":
		return "false"
	case "[]int", "*ext.St", "any", "func()":
		return "nil"
	case "ext.St":
		return "ext.St{}"
	case "[2]int":
		return "[2]int{}"
	}
	panic("zeroText " + t)
}

func argFor(t string, k int) arg {
	switch t {
	case "int":
		return argAtoms("int")[k%2]
	case "string":
		return argAtoms("string")[k%2]
	case "float64":
		return arg{"fl", func(w *world) { w.val("fl") }}
	case "bool":
		return arg{"bo", func(w *world) { w.val("bo") }}
	case "[]int":
		return arg{"z", func(w *world) { w.val("z") }}
	case "any":
		return arg{"e", func(w *world) { w.val("e") }}
	case "ext.MyInt":
		return arg{"mi", func(w *world) { w.val("mi") }}
	case "*ext.St":
		return arg{"pst", func(w *world) { w.val("pst") }}
	case "ext.St":
		return arg{"st", func(w *world) { w.val("st") }}
	case "[2]int":
		return arg{"arr", func(w *world) { w.val("arr") }}
	case "func()":
		return arg{"fn0", func(w *world) { w.val("fn0") }}
	}
	panic("argFor " + t)
}

type optSig struct {
	pos      []string
	opt      []string
	variadic bool
}

func (s optSig) name() string {
	n := "Opt" + strings.Join(s.pos, "") + "X" + strings.Join(s.opt, "")
	if s.variadic {
		n += "V"
	}
	r := strings.NewReplacer("[]", "sl", "*", "p", ".", "", "[2]", "arr", "()", "0", " ", "")
	return r.Replace(n)
}

func (s optSig) paramText() string {
	var ps []string
	for i, t := range s.pos {
		ps = append(ps, fmt.Sprintf("a%d %s", i, t))
	}
	for i, t := range s.opt {
		ps = append(ps, fmt.Sprintf("__xgo_optional_o%d %s", i, t))
	}
	if s.variadic {
		ps = append(ps, "rest ...int")
	}
	return strings.Join(ps, ", ")
}

func optSigs(thorough bool) []optSig {
	var out []optSig
	for i := 0; i <= 2; i++ {
		for j := 0; j <= 2; j++ {
			var optLists [][]string
			switch j {
			case 0:
				optLists = [][]string{nil}
			case 1:
				for _, t := range optTypes {
					optLists = append(optLists, []string{t})
				}
			case 2:
				for k, t := range optTypes {
					optLists = append(optLists, []string{t, optTypes[(k+3)%len(optTypes)]})
					if thorough {
						optLists = append(optLists, []string{t, t})
					}
				}
			}
			for _, ol := range optLists {
				for _, v := range []bool{false, true} {
					out = append(out, optSig{posTypes[:i], ol, v})
				}
			}
		}
	}
	return out
}

func optionalFixture() string {
	var b strings.Builder
	for _, s := range optSigs(true) {
		fmt.Fprintf(&b, "func %s(%s) int { return 0 }\n", s.name(), strings.ReplaceAll(s.paramText(), "ext.", ""))
	}
	return b.String()
}

func optionalRows(thorough bool) []row {
	var rows []row
	for _, s := range optSigs(thorough) {
		all := append(append([]string{}, s.pos...), s.opt...)
		maxArgs := len(all) + 1
		if s.variadic {
			maxArgs = len(all) + 2
		}
		for n := 0; n <= maxArgs; n++ {
			var args []arg
			for k := 0; k < n; k++ {
				if k < len(all) {
					args = append(args, argFor(all[k], k))
				} else {
					args = append(args, argAtoms("int")[k%2])
				}
			}
			var ats []string
			for _, a := range args {
				ats = append(ats, a.text)
			}
			// documented lowering: omitted trailing optional parameters become zero values
			lowered := append([]string{}, ats...)
			if n >= len(s.pos) && n < len(all) {
				for k := n; k < len(all); k++ {
					lowered = append(lowered, zeroText(all[k]))
				}
			}
			for _, where := range []string{"imported", "own"} {
				s, args, where := s, args, where
				callee := "ext." + s.name()
				r := row{Feature: "optional", Key: fmt.Sprintf("%s(%s)/%s", s.name(), strings.Join(ats, ", "), where), Sugar: n < len(all)}
				if where == "own" {
					callee = "h_@"
					r.RefDecl = "func h_@(" + s.paramText() + ") int {\n\treturn 0\n}"
					r.Setup = func(w *world, idx int) {
						var vs []*types.Var
						for i, t := range s.pos {
							vs = append(vs, w.pkg.NewParam(token.NoPos, fmt.Sprintf("a%d", i), typeOf(w, t), false))
						}
						for i, t := range s.opt {
							vs = append(vs, w.pkg.NewParam(token.NoPos, fmt.Sprintf("o%d", i), typeOf(w, t), true))
						}
						if s.variadic {
							vs = append(vs, w.pkg.NewParam(token.NoPos, "rest", types.NewSlice(types.Typ[types.Int]), false))
						}
						res := types.NewTuple(types.NewParam(token.NoPos, w.pkg.Types, "", types.Typ[types.Int]))
						w.pkg.NewFunc(nil, fmt.Sprintf("h_%d", idx), types.NewTuple(vs...), res, s.variadic).BodyStart(w.pkg).Val(0).Return(1).End()
					}
				}
				r.Ref = "\t_ = " + callee + "(" + strings.Join(lowered, ", ") + ")"
				r.Build = func(w *world) {
					w.cb.VarRef(nil)
					if where == "own" {
						w.cb.Val(w.pkg.Types.Scope().Lookup(fmt.Sprintf("h_%d", w.idx)), gx.SrcNode("h"))
					} else {
						w.cb.Val(w.ref("ext", s.name()), gx.SrcNode(s.name()))
					}
					for _, a := range args {
						a.push(w)
					}
					w.cb.CallWith(len(args), 0, 0, gx.SrcNode("call"))
					w.cb.Assign(1).EndStmt()
				}
				rows = append(rows, r)
			}
		}
	}
	// misplaced order is documented as rejected
	bad := []struct {
		key      string
		optional []bool
		variadic bool
	}{
		{"optional-then-positional", []bool{true, false}, false},
		{"positional-optional-positional", []bool{false, true, false}, false},
		{"optional-variadic-param", []bool{false, true}, true},
		{"optional-positional-variadic", []bool{true, false, false}, true},
	}
	for _, bc := range bad {
		bc := bc
		rows = append(rows, row{Feature: "optional", Key: "order/" + bc.key, Reject: true, Sugar: true,
			Setup: func(w *world, idx int) {
				var vs []*types.Var
				for i, o := range bc.optional {
					t := types.Type(types.Typ[types.Int])
					isLast := i == len(bc.optional)-1
					if bc.variadic && isLast {
						t = types.NewSlice(t)
					}
					vs = append(vs, w.pkg.NewParam(token.NoPos, fmt.Sprintf("p%d", i), t, o))
				}
				w.pkg.NewFunc(nil, fmt.Sprintf("h_%d", idx), types.NewTuple(vs...), nil, bc.variadic).BodyStart(w.pkg).End()
			},
			Build: func(w *world) {}})
	}
	// a valid order with variadic after optional is accepted
	return rows
}
