package c11

import (
	"fmt"
	"go/token"
	"math/big"
	"strings"

	"github.com/goplus/gogen"

	"verifengine/gx"
)

// big-number literals (XGo configuration): the emitted expression must denote exactly the written value.

const mathBigStub = gx.MathBigStub

func biFixture() string { return gx.BiFixture() }

func bigConf(conf *gogen.Config) { gx.XGoConf(conf) }

func bigIntLit(v *big.Int) string {
	if v.IsInt64() {
		return fmt.Sprintf("big.NewInt(%d)", v.Int64())
	}
	return fmt.Sprintf("func() *big.Int {\n\t\tv, _ := new(big.Int).SetString(%q, 10)\n\t\treturn v\n\t}()", v.String())
}

func bigRatLit(v *big.Rat) string {
	a, b := v.Num(), v.Denom()
	if a.IsInt64() && b.IsInt64() {
		return fmt.Sprintf("big.NewRat(%d, %d)", a.Int64(), b.Int64())
	}
	return fmt.Sprintf("new(big.Rat).SetFrac(%s, %s)", bigIntLit(a), bigIntLit(b))
}

func bigValues() []*big.Int {
	var out []*big.Int
	seen := map[string]bool{}
	for _, k := range []uint{0, 1, 31, 32, 62, 63, 64, 65, 127, 128, 200} {
		p := new(big.Int).Lsh(big.NewInt(1), k)
		for _, d := range []int64{-1, 0, 1} {
			for _, sign := range []int64{1, -1} {
				v := new(big.Int).Add(p, big.NewInt(d))
				v.Mul(v, big.NewInt(sign))
				if !seen[v.String()] {
					seen[v.String()] = true
					out = append(out, v)
				}
			}
		}
	}
	return out
}

func bigRows(thorough bool) []row {
	var rows []row
	vals := bigValues()
	for _, v := range vals {
		v := v
		rows = append(rows, row{Feature: "big", Key: "int/" + v.String(), Sugar: true,
			Ref: "\tvar a = bi.XGo_bigint_Init__1(" + bigIntLit(v) + ")\n\t_ = a",
			Build: func(w *world) {
				w.cb.NewVarStart(nil, "a").UntypedBigInt(v).EndInit(1)
				w.cb.VarRef(nil).Val(w.cb.Scope().Lookup("a")).Assign(1).EndStmt()
			}})
		rows = append(rows, row{Feature: "big", Key: "int-typed/" + v.String(), Sugar: true,
			Ref: "\tvar a bi.XGo_bigint = bi.XGo_bigint_Init__1(" + bigIntLit(v) + ")\n\t_ = a",
			Build: func(w *world) {
				w.cb.NewVarStart(w.ref("bi", "XGo_bigint").Type(), "a").UntypedBigInt(v).EndInit(1)
				w.cb.VarRef(nil).Val(w.cb.Scope().Lookup("a")).Assign(1).EndStmt()
			}})
	}
	// rationals p/q
	step := 5
	if thorough {
		step = 1
	}
	n := 0
	for _, p := range vals {
		for _, q := range vals {
			if q.Sign() == 0 {
				continue
			}
			n++
			if n%step != 0 {
				continue
			}
			r := new(big.Rat).SetFrac(p, q)
			p, q := p, q
			rows = append(rows, row{Feature: "big", Key: "rat/" + p.String() + "/" + q.String(), Sugar: true,
				Ref: "\tvar a = bi.XGo_bigrat_Init__2(" + bigRatLit(r) + ")\n\t_ = a",
				Build: func(w *world) {
					w.cb.NewVarStart(nil, "a").UntypedBigRat(new(big.Rat).SetFrac(p, q)).EndInit(1)
					w.cb.VarRef(nil).Val(w.cb.Scope().Lookup("a")).Assign(1).EndStmt()
				}})
		}
	}
	// constant folding of operators on literals: the result literal is the exact value
	ops := []struct {
		tok token.Token
		f   func(a, b *big.Int) (string, bool)
	}{
		{token.ADD, func(a, b *big.Int) (string, bool) { return "bi.XGo_bigint_Init__1(" + bigIntLit(new(big.Int).Add(a, b)) + ")", true }},
		{token.SUB, func(a, b *big.Int) (string, bool) { return "bi.XGo_bigint_Init__1(" + bigIntLit(new(big.Int).Sub(a, b)) + ")", true }},
		{token.MUL, func(a, b *big.Int) (string, bool) { return "bi.XGo_bigint_Init__1(" + bigIntLit(new(big.Int).Mul(a, b)) + ")", true }},
		{token.QUO, func(a, b *big.Int) (string, bool) {
			if b.Sign() == 0 {
				return "", false
			}
			return "bi.XGo_bigrat_Init__2(" + bigRatLit(new(big.Rat).SetFrac(a, b)) + ")", true
		}},
	}
	n = 0
	for _, a := range vals {
		for _, b := range vals {
			n++
			if n%step != 0 {
				continue
			}
			for _, op := range ops {
				a, b, op := a, b, op
				txt, ok := op.f(a, b)
				r := row{Feature: "big", Key: fmt.Sprintf("fold/%s%s%s", a, op.tok, b), Sugar: true,
					Build: func(w *world) {
						w.cb.NewVarStart(nil, "a").UntypedBigInt(a).UntypedBigInt(b).BinaryOp(op.tok).EndInit(1)
						w.cb.VarRef(nil).Val(w.cb.Scope().Lookup("a")).Assign(1).EndStmt()
					}}
				if ok {
					r.Ref = "\tvar a = " + txt + "\n\t_ = a"
				} else {
					r.Reject = true // division by zero
				}
				rows = append(rows, r)
			}
		}
	}
	_ = strings.Join
	return rows
}
