package c11

import (
	"fmt"
	"go/token"
	"strings"

	"verifengine/gx"
)

// member sugar: m.key on string-keyed maps and on `any`.

type mrecv struct {
	name string
	typ  string // "map:int" (elem), "map:any", "map:map:int", "any", "none"
}

var mrecvs = []mrecv{
	{"m", "map:int"}, {"ma", "map:any"}, {"mm", "map:map:int"}, {"nm", "map:int"}, {"e", "any"}, {"mk", "none"}, {"pm", "none"}, {"x", "none"},
}

// lower computes the documented lowering of recv.chain: hoisted statements, expression text and value class.
func lowerMember(r mrecv, chain []string) (pre []string, text string, class string, ok bool) {
	text, class = r.name, r.typ
	n := 0
	for _, name := range chain {
		switch {
		case strings.HasPrefix(class, "map:"):
			text = fmt.Sprintf("%s[%q]", text, name)
			class = strings.TrimPrefix(class, "map:")
		case class == "any":
			n++
			t := fmt.Sprintf("t%d", n)
			pre = append(pre, fmt.Sprintf("%s, _ := %s.(map[string]any)", t, text))
			text = fmt.Sprintf("%s[%q]", t, name)
			class = "any"
		default:
			return nil, r.name + "." + strings.Join(chain, "."), "none", false
		}
	}
	return pre, text, class, true
}

func cmpText(class string) string {
	if class == "int" {
		return " == 1"
	}
	return " == nil"
}

func memberRows(thorough bool) []row {
	var rows []row
	chains := [][]string{{"a"}, {"a", "b"}, {"Key", "a"}}
	if thorough {
		chains = append(chains, []string{"a", "b", "c"}, []string{"_x"})
	}
	for _, r := range mrecvs {
		for _, chain := range chains {
			pre, X, class, ok := lowerMember(r, chain)
			if !ok && len(chain) > 1 && !thorough {
				continue
			}
			r, chain := r, chain
			// pushX pushes the member expression (value); lhs = 2 for the comma-ok form on the last member
			pushX := func(w *world, lhs int) {
				w.val(r.name)
				for i, n := range chain {
					l := 0
					if i == len(chain)-1 {
						l = lhs
					}
					w.cb.MemberVal(n, l, gx.SrcNode(n))
				}
			}
			pushRef := func(w *world) {
				w.val(r.name)
				for i, n := range chain {
					if i == len(chain)-1 {
						w.cb.MemberRef(n, gx.SrcNode(n))
					} else {
						w.cb.MemberVal(n, 0, gx.SrcNode(n))
					}
				}
			}
			cmp := func(w *world) {
				if class == "int" {
					w.cb.Val(1).BinaryOp(token.EQL)
				} else {
					w.cb.CompareNil(token.EQL)
				}
			}
			P := strings.Join(pre, "\n\t")
			if P != "" {
				P = "\t" + P + "\n"
			}
			key := r.name + "." + strings.Join(chain, ".")
			var alt []string
			add := func(pos, ref string, resTyp string, build func(w *world)) {
				rw := row{Feature: "member", Key: key + "/" + pos, Ref: ref, Build: build, Sugar: true, Alt: alt}
				alt = nil
				if resTyp != "" {
					rw.Results, rw.ResTyps = resTyp, []string{resTyp}
				}
				rows = append(rows, rw)
			}
			C := cmpText(class)
			add("assign", P+"\t_ = "+X, "", func(w *world) {
				w.cb.VarRef(nil)
				pushX(w, 0)
				w.cb.Assign(1).EndStmt()
			})
			add("define", P+"\tv := "+X+"\n\t_ = v", "", func(w *world) {
				w.cb.DefineVarStart(token.NoPos, "v")
				pushX(w, 0)
				w.cb.EndInit(1)
				w.cb.VarRef(nil).Val(w.cb.Scope().Lookup("v")).Assign(1).EndStmt()
			})
			add("commaok", P+"\tv, ok := "+X+"\n\t_, _ = v, ok", "", func(w *world) {
				w.cb.DefineVarStart(token.NoPos, "v", "ok")
				pushX(w, 2)
				w.cb.EndInit(1)
				w.cb.VarRef(nil).VarRef(nil).Val(w.cb.Scope().Lookup("v")).Val(w.cb.Scope().Lookup("ok")).Assign(2).EndStmt()
			})
			if class != "any" || r.typ == "map:any" && len(chain) == 1 {
				val, push := "1", func(w *world) { w.cb.Val(1) }
				if class != "int" && class != "any" {
					val, push = "nil", func(w *world) { w.cb.Val(nil) }
				}
				add("target", P+"\t"+X+" = "+val, "", func(w *world) {
					pushRef(w)
					push(w)
					w.cb.Assign(1).EndStmt()
				})
			}
			add("binary", P+"\t_ = "+X+C, "", func(w *world) {
				w.cb.VarRef(nil)
				pushX(w, 0)
				cmp(w)
				w.cb.Assign(1).EndStmt()
			})
			add("call-arg", P+"\tprintln("+X+")", "", func(w *world) {
				w.cb.Val(w.pkg.Builtin().Ref("println"))
				pushX(w, 0)
				w.cb.Call(1).EndStmt()
			})
			add("return", P+"\treturn "+X+C, "bool", func(w *world) {
				pushX(w, 0)
				cmp(w)
				w.cb.Return(1)
			})
			if len(pre) == 1 { // the hoisted statement may equally be the init statement of the header
				alt = []string{"\tif " + pre[0] + "; " + X + C + " {\n\t\tx = 1\n\t}"}
			}
			add("if-cond", P+"\tif "+X+C+" {\n\t\tx = 1\n\t}", "", func(w *world) {
				w.cb.If()
				pushX(w, 0)
				cmp(w)
				w.cb.Then()
				w.cb.VarRef(w.loc["x"]).Val(1).Assign(1).EndStmt()
				w.cb.End()
			})
			add("if-init", P+"\tif v := "+X+"; v"+C+" {\n\t\tx = 1\n\t}", "", func(w *world) {
				w.cb.If()
				w.cb.DefineVarStart(token.NoPos, "v")
				pushX(w, 0)
				w.cb.EndInit(1)
				w.cb.Val(w.cb.Scope().Lookup("v"))
				cmp(w)
				w.cb.Then()
				w.cb.VarRef(w.loc["x"]).Val(1).Assign(1).EndStmt()
				w.cb.End()
			})
			if len(pre) == 1 {
				alt = []string{"\tif bo {\n\t\tx = 2\n\t} else if " + pre[0] + "; " + X + C + " {\n\t\tx = 1\n\t}"}
			}
			add("else-if-cond", P+"\tif bo {\n\t\tx = 2\n\t} else if "+X+C+" {\n\t\tx = 1\n\t}", "", func(w *world) {
				w.cb.If()
				w.val("bo")
				w.cb.Then()
				w.cb.VarRef(w.loc["x"]).Val(2).Assign(1).EndStmt()
				w.cb.Else()
				w.cb.If()
				pushX(w, 0)
				cmp(w)
				w.cb.Then()
				w.cb.VarRef(w.loc["x"]).Val(1).Assign(1).EndStmt()
				w.cb.End()
				w.cb.End()
			})
			add("if-body", "\tif bo {\n"+indent(P)+"\t\t_ = "+X+"\n\t}", "", func(w *world) {
				w.cb.If()
				w.val("bo")
				w.cb.Then()
				w.cb.VarRef(nil)
				pushX(w, 0)
				w.cb.Assign(1).EndStmt()
				w.cb.End()
			})
			if len(pre) == 1 {
				alt = []string{"\tswitch " + pre[0] + "; " + X + " {\n\tcase 1:\n\t\tx = 1\n\t}"}
			}
			add("switch-tag", P+"\tswitch "+X+" {\n\tcase 1:\n\t\tx = 1\n\t}", "", func(w *world) {
				w.cb.Switch()
				pushX(w, 0)
				w.cb.Then()
				w.cb.Case().Val(1).Then()
				w.cb.VarRef(w.loc["x"]).Val(1).Assign(1).EndStmt()
				w.cb.End()
				w.cb.End()
			})
			add("case-expr", P+"\tswitch {\n\tcase "+X+C+":\n\t\tx = 1\n\t}", "", func(w *world) {
				w.cb.Switch().None().Then()
				w.cb.Case()
				pushX(w, 0)
				cmp(w)
				w.cb.Then()
				w.cb.VarRef(w.loc["x"]).Val(1).Assign(1).EndStmt()
				w.cb.End()
				w.cb.End()
			})
			// loop condition: the member is re-evaluated on every iteration
			if len(pre) == 0 {
				add("for-cond", "\tfor "+X+C+" {\n\t\tx = 1\n\t}", "", func(w *world) {
					w.cb.For()
					pushX(w, 0)
					cmp(w)
					w.cb.Then()
					w.cb.VarRef(w.loc["x"]).Val(1).Assign(1).EndStmt()
					w.cb.End()
				})
			} else {
				add("for-cond", "\tfor {\n"+indent(P)+"\t\tif !("+X+C+") {\n\t\t\tbreak\n\t\t}\n\t\tx = 1\n\t}", "", func(w *world) {
					w.cb.For()
					pushX(w, 0)
					cmp(w)
					w.cb.Then()
					w.cb.VarRef(w.loc["x"]).Val(1).Assign(1).EndStmt()
					w.cb.End()
				})
			}
			if class != "int" {
				add("range-x", P+"\tfor k, v := range "+X+" {\n\t\t_, _ = k, v\n\t}", "", func(w *world) {
					w.cb.ForRange("k", "v")
					pushX(w, 0)
					w.cb.RangeAssignThen(token.NoPos)
					w.cb.VarRef(nil).VarRef(nil).Val(w.cb.Scope().Lookup("k")).Val(w.cb.Scope().Lookup("v")).Assign(2).EndStmt()
					w.cb.End()
				})
			}
			add("closure-body", "\t_ = func() {\n"+indent(P)+"\t\t_ = "+X+"\n\t}", "", func(w *world) {
				w.cb.VarRef(nil)
				w.cb.NewClosure(nil, nil, false).BodyStart(w.pkg)
				w.cb.VarRef(nil)
				pushX(w, 0)
				w.cb.Assign(1).EndStmt()
				w.cb.End()
				w.cb.Assign(1).EndStmt()
			})
		}
	}
	return rows
}

func indent(s string) string {
	if s == "" {
		return s
	}
	lines := strings.Split(strings.TrimSuffix(s, "\n"), "\n")
	for i := range lines {
		lines[i] = "\t" + lines[i]
	}
	return strings.Join(lines, "\n") + "\n"
}
