package c11

import (
	"fmt"
	"go/token"
	"go/types"
	"strings"

	"github.com/goplus/gogen"

	"verifengine/gx"
)

// method alias (lower-case first letter, _x -> XGo_x) and auto property.

type almeth struct {
	name   string // capitalised name
	params []string
	nres   int
	ptr    bool
}

var extMethods = []almeth{
	{"Foo", nil, 1, false}, {"Bar", []string{"int", "string"}, 1, false}, {"Ptr", nil, 1, true},
	{"XGo_under", nil, 1, false}, {"Two", nil, 2, false}, {"Void", nil, 0, false},
}

func aliasOf(name string) string {
	if strings.HasPrefix(name, "XGo_") {
		return name[3:]
	}
	return lowerFirst(name)
}

func aliasRows(thorough bool) []row {
	var rows []row
	recvs := []struct {
		name   string
		ptrOK  bool // pointer-receiver methods callable
		iface  bool
		hasPtr bool
	}{{"al", true, false, true}, {"pal", true, false, true}, {"ali", false, true, false}, {"alv", false, false, false}}
	for _, rc := range recvs {
		for _, m := range extMethods {
			if rc.iface && m.ptr {
				continue
			}
			for _, form := range []string{"alias", "autoprop", "val-lower", "exact"} {
				rc, m, form := rc, m, form
				var args []arg
				for k, p := range m.params {
					args = append(args, argFor(p, k))
				}
				var ats []string
				for _, a := range args {
					ats = append(ats, a.text)
				}
				recvText := rc.name
				if rc.name == "alv" {
					recvText = "ext.MkAl()" // not addressable
				}
				lhs := strings.TrimSuffix(strings.Repeat("_, ", m.nres), ", ")
				if lhs != "" {
					lhs += " = "
				}
				name := m.name
				if form != "exact" {
					name = aliasOf(m.name)
				}
				var ref string
				switch form {
				case "alias", "exact":
					ref = fmt.Sprintf("\t%s%s.%s(%s)", lhs, recvText, m.name, strings.Join(ats, ", "))
				case "autoprop":
					if len(m.params) == 0 {
						ref = fmt.Sprintf("\t%s%s.%s()", lhs, recvText, m.name)
					} else {
						ref = fmt.Sprintf("\t%s%s.%s", lhs, recvText, name) // not a property: plain Go decides
					}
				case "val-lower":
					ref = fmt.Sprintf("\t%s%s.%s(%s)", lhs, recvText, name, strings.Join(ats, ", ")) // no alias without the flag
				}
				rows = append(rows, row{Feature: "alias", Key: fmt.Sprintf("%s.%s/%s", rc.name, name, form), Ref: ref, Sugar: form == "alias" || form == "autoprop",
					Build: func(w *world) {
						cb := w.cb
						for i := 0; i < m.nres; i++ {
							cb.VarRef(nil)
						}
						if rc.name == "alv" {
							cb.Val(w.ref("ext", "MkAl")).Call(0)
						} else {
							w.val(rc.name)
						}
						flag := gogen.MemberFlagVal
						switch form {
						case "alias":
							flag = gogen.MemberFlagMethodAlias
						case "autoprop":
							flag = gogen.MemberFlagAutoProperty
						}
						kind, err := cb.Member(name, 0, flag, gx.SrcNode(name))
						if err != nil {
							panic(err)
						}
						if kind != gogen.MemberAutoProperty {
							if form == "autoprop" && len(m.params) > 0 {
								// a method value: use it as a value
							} else {
								for _, a := range args {
									a.push(w)
								}
								cb.CallWith(len(args), m.nres, 0, gx.SrcNode("call"))
							}
						}
						switch m.nres {
						case 0:
							cb.EndStmt()
						case 1:
							cb.Assign(1).EndStmt()
						default:
							cb.Assign(m.nres, 1).EndStmt()
						}
					}})
			}
		}
	}
	// own-package types: exact lower-case method wins over the alias
	for _, shape := range []string{"Foo", "foo", "both"} {
		for _, form := range []string{"alias", "autoprop"} {
			for _, name := range []string{"foo", "Foo"} {
				shape, form, name := shape, form, name
				want := ""
				switch {
				case name == "Foo" && shape != "foo":
					want = "Foo"
				case name == "foo" && shape != "Foo":
					want = "foo"
				case name == "foo" && shape == "Foo":
					want = "Foo"
				}
				ref := "\tvar v T_@\n\t_ = v." + name + "()"
				if want != "" {
					ref = "\tvar v T_@\n\t_ = v." + want + "()"
				}
				decl := "type T_@ struct{}\n"
				if shape != "foo" {
					decl += "func (r T_@) Foo() int { return 0 }\n"
				}
				if shape != "Foo" {
					decl += "func (r T_@) foo() int { return 0 }\n"
				}
				rows = append(rows, row{Feature: "alias", Key: fmt.Sprintf("own-%s.%s/%s", shape, name, form), Ref: ref, RefDecl: decl, Sugar: true,
					Setup: func(w *world, idx int) {
						named := w.pkg.NewType(fmt.Sprintf("T_%d", idx)).InitType(w.pkg, types.NewStruct(nil, nil))
						res := types.NewTuple(types.NewParam(token.NoPos, w.pkg.Types, "", types.Typ[types.Int]))
						mk := func(n string) {
							recv := types.NewParam(token.NoPos, w.pkg.Types, "r", named)
							w.pkg.NewFunc(recv, n, nil, res, false).BodyStart(w.pkg).Val(0).Return(1).End()
						}
						if shape != "foo" {
							mk("Foo")
						}
						if shape != "Foo" {
							mk("foo")
						}
					},
					Build: func(w *world) {
						named := w.pkg.Types.Scope().Lookup(fmt.Sprintf("T_%d", w.idx)).Type()
						w.cb.NewVar(named, "v")
						w.cb.VarRef(nil).Val(w.cb.Scope().Lookup("v"))
						flag := gogen.MemberFlagMethodAlias
						if form == "autoprop" {
							flag = gogen.MemberFlagAutoProperty
						}
						kind, err := w.cb.Member(name, 0, flag, gx.SrcNode(name))
						if err != nil {
							panic(err)
						}
						if kind != gogen.MemberAutoProperty {
							w.cb.CallWith(0, 1, 0, gx.SrcNode("call"))
						}
						w.cb.Assign(1).EndStmt()
					}})
			}
		}
	}
	return rows
}
