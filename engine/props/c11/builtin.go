package c11

import (
	"fmt"
	"go/ast"
	"go/token"
	"strings"

	"github.com/goplus/gogen"

	"verifengine/gx"
)

// The builtin-type method table as documented in builtin.go (initBuiltinTIs): receiver type,
// method name, target function, parameter types after the receiver, extra trailing arguments,
// number of results.
type btm struct {
	recv   string
	name   string
	fn     string // "strings.Count" / "len"
	params []string
	extra  string // ", 10, 64"
	nres   int
}

func btmTable() []btm {
	var t []btm
	s := func(name, fn string, params ...string) { t = append(t, btm{"string", name, fn, params, "", 1}) }
	t = append(t,
		btm{"float64", "String", "strconv.FormatFloat", nil, ", 'g', -1, 64", 1},
		btm{"int", "String", "strconv.Itoa", nil, "", 1},
		btm{"int64", "String", "strconv.FormatInt", nil, ", 10", 1},
		btm{"uint64", "String", "strconv.FormatUint", nil, ", 10", 1},
	)
	s("Len", "len")
	s("Count", "strings.Count", "string")
	t = append(t,
		btm{"string", "Int", "strconv.Atoi", nil, "", 2},
		btm{"string", "Int64", "strconv.ParseInt", nil, ", 10, 64", 2},
		btm{"string", "Uint64", "strconv.ParseUint", nil, ", 10, 64", 2},
		btm{"string", "Float", "strconv.ParseFloat", nil, ", 64", 2},
	)
	s("Index", "strings.Index", "string")
	s("IndexAny", "strings.IndexAny", "string")
	s("IndexByte", "strings.IndexByte", "byte")
	s("IndexRune", "strings.IndexRune", "rune")
	s("LastIndex", "strings.LastIndex", "string")
	s("LastIndexAny", "strings.LastIndexAny", "string")
	s("LastIndexByte", "strings.LastIndexByte", "byte")
	s("Contains", "strings.Contains", "string")
	s("ContainsAny", "strings.ContainsAny", "string")
	s("ContainsRune", "strings.ContainsRune", "rune")
	s("Compare", "strings.Compare", "string")
	s("EqualFold", "strings.EqualFold", "string")
	s("HasPrefix", "strings.HasPrefix", "string")
	s("HasSuffix", "strings.HasSuffix", "string")
	s("Quote", "strconv.Quote")
	t = append(t, btm{"string", "Unquote", "strconv.Unquote", nil, "", 2})
	s("ToTitle", "strings.ToTitle")
	s("ToUpper", "strings.ToUpper")
	s("ToLower", "strings.ToLower")
	s("Fields", "strings.Fields")
	s("Repeat", "strings.Repeat", "int")
	s("Split", "strings.Split", "string")
	s("SplitAfter", "strings.SplitAfter", "string")
	s("SplitN", "strings.SplitN", "string", "int")
	s("SplitAfterN", "strings.SplitAfterN", "string", "int")
	s("Replace", "strings.Replace", "string", "string", "int")
	s("ReplaceAll", "strings.ReplaceAll", "string", "string")
	s("Trim", "strings.Trim", "string")
	s("TrimSpace", "strings.TrimSpace")
	s("TrimLeft", "strings.TrimLeft", "string")
	s("TrimRight", "strings.TrimRight", "string")
	s("TrimPrefix", "strings.TrimPrefix", "string")
	s("TrimSuffix", "strings.TrimSuffix", "string")
	t = append(t,
		btm{"[]string", "Len", "len", nil, "", 1},
		btm{"[]string", "Cap", "cap", nil, "", 1},
		btm{"[]string", "Join", "strings.Join", []string{"string"}, "", 1},
		btm{"[]T", "Len", "len", nil, "", 1},
		btm{"[]T", "Cap", "cap", nil, "", 1},
		btm{"chan", "Len", "len", nil, "", 1},
	)
	return t
}

// receivers: expression text, builtin receiver class, whether a conversion to the basic type is documented
type recvr struct {
	text  string
	class string // key into the table; "" = no builtin methods documented
	conv  string // conversion inserted for named types over a basic type
	push  func(w *world)
}

func receivers() []recvr {
	v := func(name, class, conv string) recvr {
		return recvr{name, class, conv, func(w *world) { w.val(name) }}
	}
	lit := func(k token.Token, text, class string) recvr {
		return recvr{text, class, "", func(w *world) { w.cb.Val(&ast.BasicLit{Kind: k, Value: text}, gx.SrcNode(text)) }}
	}
	return []recvr{
		v("y", "string", ""), v("ms", "string", "string"), lit(token.STRING, `"s"`, "string"),
		v("x", "int", ""), v("mi", "int", "int"), lit(token.INT, "7", "int"),
		v("fl", "float64", ""), v("mf", "float64", "float64"), lit(token.FLOAT, "1.5", "float64"),
		v("i64", "int64", ""), v("mi64", "int64", "int64"),
		v("u64", "uint64", ""), v("mu64", "uint64", "uint64"),
		v("ss", "[]string", ""), v("mss", "[]string", ""),
		v("z", "[]T", ""), v("msl", "[]T", ""),
		v("ch", "chan", ""), v("mch", "chan", ""),
		v("i8", "", ""), v("u", "", ""), v("f32", "", ""), v("bo", "", ""), v("m", "", ""), lit(token.CHAR, "'a'", ""),
	}
}

func argAtoms(typ string) []arg {
	lit := func(k token.Token, v string) arg {
		return arg{v, func(w *world) { w.cb.Val(&ast.BasicLit{Kind: k, Value: v}, gx.SrcNode(v)) }}
	}
	loc := func(n string) arg { return arg{n, func(w *world) { w.val(n) }} }
	switch typ {
	case "string":
		return []arg{lit(token.STRING, `"a"`), loc("y")}
	case "int":
		return []arg{lit(token.INT, "2"), loc("x")}
	case "byte":
		return []arg{lit(token.CHAR, "'c'"), loc("bt")}
	case "rune":
		return []arg{lit(token.CHAR, "'r'"), loc("rn")}
	}
	panic("argAtoms " + typ)
}

type arg struct {
	text string
	push func(w *world)
}

func lowerFirst(s string) string { return strings.ToLower(s[:1]) + s[1:] }

func builtinRows(thorough bool) []row {
	table := btmTable()
	names := map[string]bool{}
	for _, m := range table {
		names[m.name] = true
	}
	var nameList []string
	for _, m := range table {
		if names[m.name] {
			nameList = append(nameList, m.name)
			names[m.name] = false
		}
	}
	nameList = append(nameList, "NoSuch")
	find := func(class, name string) *btm {
		for i := range table {
			if table[i].recv == class && table[i].name == name {
				return &table[i]
			}
		}
		return nil
	}
	var rows []row
	for _, rc := range receivers() {
		for _, name := range nameList {
			m := find(rc.class, name)
			// argument lists: documented arity (all atoms), arity-1, arity+1; for undocumented pairs: no args and one arg
			var lists [][]arg
			if m != nil {
				lists = [][]arg{nil}
				for _, p := range m.params {
					var next [][]arg
					for _, l := range lists {
						for _, a := range argAtoms(p) {
							next = append(next, append(append([]arg{}, l...), a))
						}
					}
					lists = next
				}
				full := lists[0]
				if len(m.params) > 0 {
					lists = append(lists, full[:len(full)-1])
				}
				lists = append(lists, append(append([]arg{}, full...), argAtoms("int")[0]))
			} else {
				lists = [][]arg{nil, {argAtoms("string")[0]}}
				if !thorough && rc.class == "" && name != "String" && name != "Len" && name != "NoSuch" {
					continue
				}
			}
			for _, al := range lists {
				var ats []string
				for _, a := range al {
					ats = append(ats, a.text)
				}
				argText := strings.Join(ats, ", ")
				nres := 1
				if m != nil {
					nres = m.nres
				}
				lhs := strings.TrimSuffix(strings.Repeat("_, ", nres), ", ")
				for _, form := range []string{"exact", "alias", "autoprop"} {
					if form == "autoprop" && len(al) > 0 {
						continue
					}
					var ref string
					if m != nil {
						r := rc.text
						if rc.conv != "" {
							r = rc.conv + "(" + r + ")"
						}
						sep := ""
						if argText != "" {
							sep = ", "
						}
						ref = fmt.Sprintf("\t%s = %s(%s%s%s%s)", lhs, m.fn, r, sep, argText, m.extra)
					} else {
						rt := rc.text
						if rt[0] >= '0' && rt[0] <= '9' {
							rt = "(" + rt + ")"
						}
						ref = fmt.Sprintf("\t%s = %s.%s(%s)", lhs, rt, name, argText)
					}
					rc, al, name, form, nres := rc, al, name, form, nres
					rows = append(rows, row{
						Feature: "builtin", Key: fmt.Sprintf("%s.%s(%s)/%s", rc.text, name, argText, form), Ref: ref, Sugar: m != nil,
						Build: func(w *world) {
							cb := w.cb
							for i := 0; i < nres; i++ {
								cb.VarRef(nil)
							}
							rc.push(w)
							src := gx.SrcNode(rc.text + "." + name)
							mname, flag := name, gogen.MemberFlagVal
							switch form {
							case "alias":
								mname, flag = lowerFirst(name), gogen.MemberFlagMethodAlias
							case "autoprop":
								mname, flag = lowerFirst(name), gogen.MemberFlagAutoProperty
							}
							kind, err := cb.Member(mname, 0, flag, src)
							if err != nil {
								panic(err)
							}
							if kind != gogen.MemberAutoProperty {
								for _, a := range al {
									a.push(w)
								}
								cb.CallWith(len(al), nres, 0, src)
							}
							if nres == 1 {
								cb.Assign(1)
							} else {
								cb.Assign(nres, 1)
							}
							cb.EndStmt()
						},
					})
				}
			}
		}
	}
	return rows
}
