// Package c04: folded constant values are exactly Go's constant values.
package c04

import (
	"encoding/json"
	"fmt"
	"go/ast"
	"go/constant"
	"go/token"
	"go/types"
	"strings"

	"verifengine/ex"
	"verifengine/fixture"
	"verifengine/gx"
	"verifengine/oracle"
	"verifengine/vf"
)

func init() {
	vf.Register(&vf.Prop{
		ID: "C04", Level: "exploration",
		Rule: "constant expressions over 46 constant atoms (every untyped kind; values at/around every integer boundary, fractional, >64-bit, 1e39/1e309; typed constants) plus 14 negative constants and 44 typed boundary constants T(min|max|0|1) for the 11 integer types and float32/float64: " +
			"all 6 unary and 19 binary operators on all atom pairs, conversions to 34 types, len/cap/min/max/complex/real/imag/unsafe.Sizeof/Alignof/Offsetof on constant and non-constant-but-sized operands, depth-2 nesting over a reduced alphabet; " +
			"each built in `_ = e` and `const c = e`; oracle on the emitted text: builder carries a value <=> go/types' Info.Types[e].Value != nil, values compared exactly (constant.Compare), for the root and every sub-expression whose emitted shape matches; " +
			"a constant expression go/types rejects (div by zero, overflow, shift) must not be accepted with a folded value. non-trivial = accepted by the builder and carrying a value on at least one side; distinct = distinct emitted text",
		Assumptions: []string{"go/types 1.23.5 constant evaluation is the reference", "sub-expressions are paired with emitted syntax by parallel traversal; a pair is compared only when shapes agree"},
		Run:         run,
		Replay:      replay,
	})
}

type payload struct {
	Expr string `json:"expr"`
	Use  string `json:"use"`
}

func lit(k token.Token, s string) *ex.E { return ex.Lit(k, s) }

// constAtoms: the constant leaves.
func constAtoms() []*ex.E {
	var out []*ex.E
	for _, a := range ex.Atoms {
		if strings.HasPrefix(a.Class, "lit:") || strings.HasPrefix(a.Class, "const:") {
			out = append(out, a.E)
		}
	}
	return out
}

type bound struct{ t, min, max string }

var bounds = []bound{
	{"int8", "128", "127"}, {"int16", "32768", "32767"}, {"int32", "2147483648", "2147483647"}, {"int64", "9223372036854775808", "9223372036854775807"},
	{"int", "9223372036854775808", "9223372036854775807"},
	{"uint8", "", "255"}, {"uint16", "", "65535"}, {"uint32", "", "4294967295"}, {"uint64", "", "18446744073709551615"}, {"uint", "", "18446744073709551615"}, {"uintptr", "", "18446744073709551615"},
}

// boundary typed constants T(max), T(min), T(0), T(1), plus float ones.
func boundaryConsts() []*ex.E {
	var out []*ex.E
	for _, b := range bounds {
		out = append(out, ex.Conv(b.t, lit(token.INT, b.max)))
		if b.min != "" {
			out = append(out, ex.Conv(b.t, ex.Un(token.SUB, lit(token.INT, b.min))))
		}
		out = append(out, ex.Conv(b.t, lit(token.INT, "0")), ex.Conv(b.t, lit(token.INT, "1")))
	}
	out = append(out, ex.Conv("float32", lit(token.FLOAT, "0.1")), ex.Conv("float32", lit(token.FLOAT, "3e38")), ex.Conv("float64", lit(token.FLOAT, "0.1")), ex.Conv("float64", lit(token.FLOAT, "1e308")),
		ex.Conv("env.M", lit(token.INT, "9223372036854775807")), ex.Conv("env.U8", lit(token.INT, "255")), ex.Conv("string", lit(token.INT, "65")), ex.Conv("env.Str", lit(token.STRING, `"ab"`)))
	return out
}

func reducedConsts() []*ex.E {
	pick := map[string]bool{"1": true, "0": true, "7": true, "256": true, "9223372036854775808": true, "1267650600228229401496703205376": true, "0.5": true, "1.0": true, "1e309": true, "'a'": true, `"s"`: true, "1i": true}
	var out []*ex.E
	for _, a := range ex.Atoms {
		if a.E.K == ex.KLit && pick[a.E.Lit] {
			out = append(out, a.E)
		}
		switch a.E.Name {
		case "true", "CInt8Max", "CUint8Max", "CInt64Max", "CF32", "CM", "CStr":
			out = append(out, a.E)
		}
	}
	out = append(out, ex.Conv("int8", ex.Un(token.SUB, lit(token.INT, "128"))), ex.Conv("uint16", lit(token.INT, "65535")), ex.Conv("int32", lit(token.INT, "1")))
	return out
}

// negative untyped constants (Go has no negative literals: -x is a unary expression)
func negAtoms() []*ex.E {
	var out []*ex.E
	for _, s := range []string{"1", "7", "128", "129", "32769", "2147483649", "9223372036854775808", "9223372036854775809", "1267650600228229401496703205376"} {
		out = append(out, ex.Un(token.SUB, lit(token.INT, s)))
	}
	out = append(out, ex.Un(token.SUB, lit(token.FLOAT, "0.5")), ex.Un(token.SUB, lit(token.FLOAT, "1.0")), ex.Un(token.SUB, lit(token.IMAG, "1i")), ex.Un(token.SUB, ex.Obj("CInt8Max")), ex.Un(token.SUB, ex.Obj("CF64")))
	return out
}

func each(thorough bool, yield func(stage string, e *ex.E)) {
	atoms := append(append(constAtoms(), boundaryConsts()...), negAtoms()...)
	for _, op := range ex.UnOps {
		for _, a := range atoms {
			yield("unary", ex.Un(op, a))
		}
	}
	for _, op := range ex.BinOps {
		for _, a := range atoms {
			for _, b := range atoms {
				yield("binary", ex.Bin(op, a, b))
			}
		}
	}
	for _, t := range ex.ConvTargets {
		for _, a := range atoms {
			yield("conv", ex.Conv(t, a))
		}
	}
	// builtins
	sized := []*ex.E{lit(token.STRING, `""`), lit(token.STRING, `"abc"`), ex.Obj("CStr"), ex.Obj("CStrn"), ex.Obj("VStr"), ex.Obj("VArr"), ex.Obj("VPArr"), ex.Obj("VSl"), ex.Star(ex.Obj("VPArr")),
		{K: ex.KArrayLit, T: "[3]int"}, {K: ex.KArrayLit, T: "[3]int", A: []*ex.E{ex.Call(ex.Obj("F0"))}}, {K: ex.KArrayLit, T: "[3]int", A: []*ex.E{ex.Un(token.ARROW, ex.Obj("VCh"))}},
		ex.Obj("VMap"), ex.Obj("VCh"), ex.Conv("env.Str", lit(token.STRING, `"ab"`)), ex.Bin(token.ADD, lit(token.STRING, `"a"`), lit(token.STRING, `"b"`)), ex.Bin(token.ADD, ex.Obj("CStr"), ex.Obj("VStr")),
		{K: ex.KSlc, A: []*ex.E{lit(token.STRING, `"abc"`), lit(token.INT, "1"), nil}}, ex.Idx(ex.Obj("VArr"), lit(token.INT, "0"))}
	for _, f := range []string{"len", "cap"} {
		for _, a := range sized {
			yield("lencap", ex.Call(ex.Uni(f), a))
		}
	}
	red := reducedConsts()
	for _, f := range []string{"min", "max"} {
		for _, a := range atoms {
			yield("minmax1", ex.Call(ex.Uni(f), a))
		}
		for _, a := range red {
			for _, b := range red {
				yield("minmax2", ex.Call(ex.Uni(f), a, b))
				yield("minmax3", ex.Call(ex.Uni(f), a, b, lit(token.INT, "3")))
			}
			yield("minmax-var", ex.Call(ex.Uni(f), a, ex.Obj("VInt")))
		}
	}
	for _, a := range atoms {
		yield("realimag", ex.Call(ex.Uni("real"), a))
		yield("realimag", ex.Call(ex.Uni("imag"), a))
	}
	for _, a := range red {
		for _, b := range red {
			yield("complex", ex.Call(ex.Uni("complex"), a, b))
		}
	}
	for _, a := range ex.Atoms {
		if strings.HasPrefix(a.Class, "var:") || strings.HasPrefix(a.Class, "const:") || strings.HasPrefix(a.Class, "lit:") {
			yield("unsafe", &ex.E{K: ex.KUnsafe, Name: "Sizeof", A: []*ex.E{a.E}})
			yield("unsafe", &ex.E{K: ex.KUnsafe, Name: "Alignof", A: []*ex.E{a.E}})
		}
	}
	for _, f := range []string{"X", "Y", "P"} {
		yield("unsafe", &ex.E{K: ex.KUnsafe, Name: "Offsetof", A: []*ex.E{ex.Sel(ex.Obj("VS"), f)}})
		yield("unsafe", &ex.E{K: ex.KUnsafe, Name: "Offsetof", A: []*ex.E{ex.Sel(ex.Obj("VPS"), f)}})
	}
	// depth 2
	ops := append(append([]token.Token{}, ex.BinOpReps...), token.SHR, token.OR, token.MUL)
	d2 := append(append([]*ex.E{}, red...), ex.Un(token.SUB, lit(token.INT, "1")), ex.Un(token.SUB, lit(token.INT, "129")))
	if thorough {
		ops = ex.BinOps
	} else {
		d2 = append(append([]*ex.E{}, red[:10]...), ex.Un(token.SUB, lit(token.INT, "1")), ex.Un(token.SUB, lit(token.INT, "129")))
	}
	var inner []*ex.E
	for _, op := range ex.UnOps[:4] {
		for _, a := range d2 {
			inner = append(inner, ex.Un(op, a))
		}
	}
	for _, op := range ops {
		for _, a := range d2 {
			for _, b := range d2 {
				inner = append(inner, ex.Bin(op, a, b))
			}
		}
	}
	for _, a := range d2 {
		inner = append(inner, ex.Conv("int", a), ex.Conv("uint8", a), ex.Conv("float32", a), ex.Conv("int8", a), ex.Call(ex.Uni("len"), a))
	}
	for _, op := range ex.UnOps[:4] {
		for _, in := range inner {
			yield("depth2-unary", ex.Un(op, in))
		}
	}
	for _, op := range ops {
		for _, in := range inner {
			for _, a := range d2 {
				yield("depth2-binary", ex.Bin(op, in, a))
				yield("depth2-binary", ex.Bin(op, a, in))
			}
		}
	}
	for _, in := range inner {
		for _, t := range []string{"int", "int8", "uint8", "uint64", "float32", "float64", "string", "env.M"} {
			yield("depth2-conv", ex.Conv(t, in))
		}
	}
}

var uses = []string{"blank", "const"}

func sameValue(a, b constant.Value) bool {
	ka, kb := a.Kind(), b.Kind()
	num := func(k constant.Kind) bool { return k == constant.Int || k == constant.Float || k == constant.Complex }
	if num(ka) && num(kb) {
		return constant.Compare(a, token.EQL, b)
	}
	if ka != kb {
		return false
	}
	switch ka {
	case constant.Bool, constant.String:
		return constant.Compare(a, token.EQL, b)
	}
	return true
}

func short(v constant.Value) string {
	s := v.String()
	if len(s) > 40 {
		s = s[:40] + "…"
	}
	return s
}

func goTypeClass(t types.Type) string {
	if t == nil {
		return "?"
	}
	return types.TypeString(t, oracle.FullQual)
}

type finding struct {
	class, detail string
}

func judge(r *ex.Run) (out []finding) {
	if !r.Accepted || r.Emitted == nil {
		return nil
	}
	rootRec, ok := r.Recs[r.E]
	if !ok {
		return nil
	}
	if !r.Emitted.OK() {
		if len(r.Emitted.Parse) > 0 {
			return nil
		}
		cat := oracle.ErrCategory(r.Emitted.Errs[0])
		switch cat {
		case "div-by-zero", "overflows", "invalid-shift", "truncated":
			if rootRec.CVal != nil {
				out = append(out, finding{r.E.Root() + "|" + r.U.Name + "|folded-but-rejected:" + oracle.NormMsg(r.Emitted.Errs[0]),
					fmt.Sprintf("`%s` accepted and folded to %s, but go/types rejects the emitted constant expression: %s", r.E.Render(), short(rootRec.CVal), r.Emitted.Errs[0])})
			}
		default:
			if strings.Contains(r.Emitted.Errs[0], "constant overflow") && rootRec.CVal != nil {
				out = append(out, finding{r.E.Root() + "|" + r.U.Name + "|folded-but-rejected:constant overflow", fmt.Sprintf("`%s` folded, go/types: %s", r.E.Render(), r.Emitted.Errs[0])})
			}
		}
		return out
	}
	root := ex.RootExpr(r.Emitted.Files)
	if root == nil {
		return nil
	}
	ex.Match(r.E, root, func(e *ex.E, a ast.Expr) {
		rec, ok := r.Recs[e]
		if !ok {
			return
		}
		tv, ok := r.Emitted.Info.Types[a]
		if !ok {
			return
		}
		site := e.Root()
		if e != r.E {
			site = "sub:" + site
		}
		if isUntyped(rec.Type) && !isUntyped(tv.Type) && isFloatish(tv.Type) {
			// go/types records an untyped operand with the type its context converts it to and,
			// for float/complex targets, the value ROUNDED to that type; that rounding is not
			// part of this node's own value: not compared. (For integer targets conversion
			// keeps the exact value, so those are compared.)
			return
		}
		bC, gC := rec.CVal != nil, tv.Value != nil
		switch {
		case bC && !gC:
			out = append(out, finding{site + "|" + r.U.Name + "|builder-const-go-nonconst:" + goTypeClass(tv.Type),
				fmt.Sprintf("sub-expression `%s` of `%s`: builder carries value %s, go/types says not constant (type %s)", e.Render(), r.E.Render(), short(rec.CVal), goTypeClass(tv.Type))})
		case !bC && gC:
			out = append(out, finding{site + "|" + r.U.Name + "|go-const-builder-nonconst:" + goTypeClass(tv.Type),
				fmt.Sprintf("sub-expression `%s` of `%s`: go/types constant %s (type %s), builder carries no value", e.Render(), r.E.Render(), short(tv.Value), goTypeClass(tv.Type))})
		case bC && gC:
			if !sameValue(rec.CVal, tv.Value) {
				out = append(out, finding{site + "|" + r.U.Name + "|value-differs:" + goTypeClass(tv.Type),
					fmt.Sprintf("sub-expression `%s` of `%s`: builder value %s, go/types value %s (type %s)", e.Render(), r.E.Render(), short(rec.CVal), short(tv.Value), goTypeClass(tv.Type))})
			}
		}
	})
	return out
}

func run(c *vf.Ctx) {
	imp := ex.Importer(nil)
	us := []*ex.Use{ex.UseByName("blank"), ex.UseByName("const")}
	var idx int64
	each(c.Thorough(), func(stage string, e *ex.E) {
		for _, u := range us {
			if u.Name == "const" && strings.HasPrefix(stage, "depth2") {
				continue
			}
			i := idx
			idx++
			if !c.MineIdx(i) {
				continue
			}
			if c.Expired() {
				if i%4096 == 0 {
					c.Cap("wall budget")
				}
				continue
			}
			r := ex.Exec(imp, e, u, gx.Options{}, false)
			c.Eval(1)
			c.Tally("stage:"+stage, 1)
			if (i/int64(c.N))%500 == 0 {
				if d := ex.SelfCheck(imp, r, gx.Options{}); d != "" {
					panic("harness self-check failed: " + d)
				}
				c.Tally("selfcheck_real_builtin", 1)
			}
			if !r.Accepted {
				c.Tally("rejected", 1)
				c.Outcome("rejected")
				continue
			}
			c.Tally("accepted", 1)
			if rec, ok := r.Recs[e]; ok && rec.CVal != nil {
				c.Tally("accepted_with_value", 1)
				for _, t := range r.Texts {
					c.Distinct(t)
				}
			}
			fs := judge(r)
			if len(fs) == 0 {
				c.Outcome("agree")
				if i%30011 == 0 {
					if rec, ok := r.Recs[e]; ok && rec.CVal != nil {
						c.Sample(map[string]string{"expr": e.Render(), "use": u.Name, "value": short(rec.CVal)})
					}
				}
			}
			for _, f := range fs {
				c.Outcome(f.class[strings.LastIndex(f.class, "|")+1:])
				c.Violation(f.class, f.detail, payload{e.Render(), u.Name})
			}
		}
	})
}

func replay(raw json.RawMessage) (string, bool) {
	var p payload
	if err := json.Unmarshal(raw, &p); err != nil {
		return err.Error(), false
	}
	imp := ex.Importer(nil)
	var found *ex.Run
	each(true, func(stage string, e *ex.E) {
		if found == nil && e.Render() == p.Expr {
			found = ex.Exec(imp, e, ex.UseByName(p.Use), gx.Options{}, false)
		}
	})
	if found == nil {
		each(false, func(stage string, e *ex.E) {
			if found == nil && e.Render() == p.Expr {
				found = ex.Exec(imp, e, ex.UseByName(p.Use), gx.Options{}, false)
			}
		})
	}
	if found == nil {
		return "case not found: " + p.Expr, false
	}
	fs := judge(found)
	if len(fs) == 0 {
		return fmt.Sprintf("`%s` in %s: accepted=%v; constant values agree with go/types", p.Expr, p.Use, found.Accepted), false
	}
	var b strings.Builder
	for _, f := range fs {
		b.WriteString(f.detail + "\n")
	}
	return b.String(), true
}

var _ = fixture.New

func isUntyped(t types.Type) bool {
	b, ok := t.(*types.Basic)
	return ok && b.Info()&types.IsUntyped != 0
}

func isFloatish(t types.Type) bool {
	b, ok := t.Underlying().(*types.Basic)
	return ok && b.Info()&(types.IsFloat|types.IsComplex) != 0
}
