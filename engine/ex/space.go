package ex

import (
	"go/token"
)

// Atom is a leaf of the grammar with its kind class (used in violation classes and to pick
// reduced alphabets: the first atom of each class is the class representative).
type Atom struct {
	E     *E
	Class string
}

func lit(kind token.Token, text, class string) Atom { return Atom{Lit(kind, text), class} }
func obj(name, class string) Atom                   { return Atom{Obj(name), class} }

// Atoms is the full, ordered (simplest first) alphabet of leaves.
var Atoms = []Atom{
	// untyped constants
	lit(token.INT, "1", "lit:int:small"),
	lit(token.INT, "0", "lit:int:zero"),
	lit(token.INT, "7", "lit:int:small"),
	lit(token.INT, "127", "lit:int:int8max"),
	lit(token.INT, "128", "lit:int:gt-int8"),
	lit(token.INT, "255", "lit:int:uint8max"),
	lit(token.INT, "256", "lit:int:gt-uint8"),
	lit(token.INT, "32767", "lit:int:int16max"),
	lit(token.INT, "65536", "lit:int:gt-uint16"),
	lit(token.INT, "2147483648", "lit:int:gt-int32"),
	lit(token.INT, "4294967296", "lit:int:gt-uint32"),
	lit(token.INT, "9223372036854775807", "lit:int:int64max"),
	lit(token.INT, "9223372036854775808", "lit:int:gt-int64"),
	lit(token.INT, "18446744073709551615", "lit:int:uint64max"),
	lit(token.INT, "18446744073709551616", "lit:int:gt-uint64"),
	lit(token.INT, "1267650600228229401496703205376", "lit:int:huge"),
	lit(token.FLOAT, "0.5", "lit:float:frac"),
	lit(token.FLOAT, "1.0", "lit:float:integral"),
	lit(token.FLOAT, "1.5", "lit:float:frac"),
	lit(token.FLOAT, "0.0", "lit:float:zero"),
	lit(token.FLOAT, "1e39", "lit:float:gt-f32"),
	lit(token.FLOAT, "1e309", "lit:float:gt-f64"),
	lit(token.CHAR, "'a'", "lit:rune"),
	lit(token.STRING, `""`, "lit:string:empty"),
	lit(token.STRING, `"s"`, "lit:string"),
	{Uni("true"), "lit:bool"},
	{Uni("false"), "lit:bool"},
	{Nil(), "nil"},
	lit(token.IMAG, "1i", "lit:complex"),
	lit(token.IMAG, "0i", "lit:complex:zero"),
	// variables
	obj("VInt", "var:int"),
	obj("VInt8", "var:int8"),
	obj("VUint8", "var:uint8"),
	obj("VInt32", "var:int32"),
	obj("VInt64", "var:int64"),
	obj("VUint", "var:uint"),
	obj("VUint64", "var:uint64"),
	obj("VUintptr", "var:uintptr"),
	obj("VF32", "var:float32"),
	obj("VF64", "var:float64"),
	obj("VC128", "var:complex128"),
	obj("VStr", "var:string"),
	obj("VBool", "var:bool"),
	obj("VM", "var:named-int"),
	obj("VMStr", "var:named-string"),
	obj("VF64n", "var:named-float"),
	obj("VBn", "var:named-bool"),
	obj("VPtr", "var:ptr"),
	obj("VSl", "var:slice"),
	obj("VArr", "var:array"),
	obj("VMap", "var:map"),
	obj("VCh", "var:chan"),
	obj("VRCh", "var:recvchan"),
	obj("VSCh", "var:sendchan"),
	obj("VFn", "var:func"),
	obj("VS", "var:struct"),
	obj("VPS", "var:ptr-struct"),
	obj("VI", "var:iface"),
	obj("VAny", "var:any"),
	obj("VErr", "var:error"),
	obj("VUP", "var:unsafeptr"),
	obj("VBytes", "var:bytes"),
	// typed constants
	obj("CInt", "const:int"),
	obj("CInt8Max", "const:int8:max"),
	obj("CInt8Min", "const:int8:min"),
	obj("CUint8Max", "const:uint8:max"),
	obj("CUint8One", "const:uint8"),
	obj("CInt64Max", "const:int64:max"),
	obj("CUint64Max", "const:uint64:max"),
	obj("CUint", "const:uint"),
	obj("CStr", "const:string"),
	obj("CF64", "const:float64"),
	obj("CF32", "const:float32"),
	obj("CC128", "const:complex128"),
	obj("CM", "const:named-int"),
	obj("CBool", "const:bool"),
	obj("CF64n", "const:named-float"),
	obj("CRune", "const:rune"),
	// functions as values
	obj("F1", "func"),
}

// Reduced returns one representative per kind class prefix (up to the second colon).
func Reduced() []Atom {
	seen := map[string]bool{}
	var out []Atom
	for _, a := range Atoms {
		k := a.Class
		if seen[k] {
			continue
		}
		seen[k] = true
		out = append(out, a)
	}
	return out
}

// Tiny is an even smaller alphabet for depth-3 enumeration.
func Tiny() []Atom {
	want := []string{"lit:int:small", "lit:float:frac", "lit:string", "lit:bool", "nil", "var:int", "var:uint8", "var:float64", "var:string", "var:bool", "var:named-int", "var:ptr", "var:slice", "var:any", "const:int8:max", "const:uint8:max", "lit:int:huge", "lit:rune"}
	var out []Atom
	for _, w := range want {
		for _, a := range Atoms {
			if a.Class == w {
				out = append(out, a)
				break
			}
		}
	}
	return out
}

var BinOps = []token.Token{
	token.ADD, token.SUB, token.MUL, token.QUO, token.REM,
	token.AND, token.OR, token.XOR, token.AND_NOT, token.SHL, token.SHR,
	token.LAND, token.LOR,
	token.LSS, token.LEQ, token.GTR, token.GEQ, token.EQL, token.NEQ,
}

// BinOpReps is one operator per class (arithmetic, quotient, remainder, bitwise, shift, logical, order, equality).
var BinOpReps = []token.Token{token.ADD, token.SUB, token.QUO, token.REM, token.AND, token.SHL, token.LAND, token.LSS, token.EQL}

var UnOps = []token.Token{token.SUB, token.ADD, token.XOR, token.NOT, token.ARROW, token.AND}

// ClassOf maps atom nodes back to their class (atoms are shared pointers).
var classOf = map[*E]string{}

func init() {
	for _, a := range Atoms {
		classOf[a.E] = a.Class
	}
}

func KindOf(e *E) string {
	if c, ok := classOf[e]; ok {
		return c
	}
	switch e.K {
	case KLit:
		return "lit:" + e.Lit
	case KObj:
		return e.Name
	case KUni:
		return e.Name
	case KNil:
		return "nil"
	case KLocal:
		return "local:" + e.Name
	}
	return e.K
}

// Depth1 enumerates every expression with exactly one operator over the atoms:
// unary, star, binary, plus the "structural" forms (calls, conversions, index, slice,
// selector, assertion, literals, builtins) listed in Forms.
func Depth1(atoms []Atom, binops []token.Token, yield func(*E)) {
	for _, op := range UnOps {
		for _, a := range atoms {
			yield(Un(op, a.E))
		}
	}
	for _, a := range atoms {
		yield(Star(a.E))
	}
	for _, op := range binops {
		for _, a := range atoms {
			for _, b := range atoms {
				yield(Bin(op, a.E, b.E))
			}
		}
	}
}

// ConvTargets are the conversion target types.
var ConvTargets = []string{"int", "int8", "uint8", "int32", "int64", "uint", "uint64", "uintptr", "float32", "float64", "complex128", "string",
	"bool", "env.M", "env.Str", "env.F64", "env.B", "env.U8", "[]byte", "[]rune", "*int", "unsafe.Pointer", "any", "error", "env.I", "[]int", "env.Sl", "func(int) int", "chan int", "<-chan int", "*env.S", "env.S", "map[string]int", "env.Mp"}

// Forms enumerates the structural single-operator forms over the atoms.
func Forms(atoms []Atom, yield func(*E)) {
	// conversions
	for _, t := range ConvTargets {
		for _, a := range atoms {
			yield(Conv(t, a.E))
		}
	}
	// calls of every env function / atom with 0..2 arguments
	fns := []*E{Obj("F0"), Obj("F1"), Obj("F2"), Obj("FV"), Obj("FR2"), Obj("FS"), Obj("FF"), Obj("FN"), Obj("FAny"), Obj("FI8"), Obj("FU8"), Obj("G"), Obj("VFn"), Obj("VInt"), Obj("VAny")}
	for _, f := range fns {
		yield(Call(f))
		for _, a := range atoms {
			yield(Call(f, a.E))
		}
	}
	red := reducedOf(atoms)
	for _, f := range []*E{Obj("F2"), Obj("FV"), Obj("F1")} {
		for _, a := range red {
			for _, b := range red {
				yield(Call(f, a.E, b.E))
			}
		}
	}
	for _, a := range atoms { // f(s...)
		c := Call(Obj("FV"), a.E)
		c.Ell = true
		yield(c)
		c2 := Call(Obj("F1"), a.E)
		c2.Ell = true
		yield(c2)
	}
	// index: every container x every index
	conts := []string{"VSl", "VArr", "VMap", "VStr", "VPArr", "VPtr", "VInt", "VAny", "VMapIS", "VBytes", "VSln", "VMpn", "VS", "VCh", "VFn"}
	for _, c := range conts {
		for _, a := range atoms {
			yield(Idx(Obj(c), a.E))
		}
	}
	for _, a := range atoms {
		yield(Idx(a.E, Lit(token.INT, "0")))
		yield(Idx(Lit(token.STRING, `"abc"`), a.E))
		ci := Idx(Obj("VMap"), a.E)
		ci.Lhs = 2
		yield(ci)
	}
	// slices
	for _, c := range []string{"VSl", "VArr", "VStr", "VPArr", "VMap", "VInt", "VBytes", "VPtr", "VSln"} {
		for _, a := range red {
			yield(&E{K: KSlc, A: []*E{Obj(c), a.E, nil}})
			yield(&E{K: KSlc, A: []*E{Obj(c), nil, a.E}})
			yield(&E{K: KSlc, A: []*E{Obj(c), Lit(token.INT, "0"), Lit(token.INT, "1"), a.E}})
		}
		yield(&E{K: KSlc, A: []*E{Obj(c), nil, nil}})
		yield(&E{K: KSlc, A: []*E{Obj(c), Lit(token.INT, "2"), Lit(token.INT, "1")}})
		yield(&E{K: KSlc, A: []*E{Obj(c), nil, nil, nil}})
	}
	// selectors
	for _, a := range atoms {
		for _, n := range []string{"X", "Y", "P", "Meth", "PM", "VM", "zz"} {
			yield(Sel(a.E, n))
		}
	}
	// type assertions
	for _, a := range atoms {
		for _, t := range []string{"int", "env.M", "env.I", "error", "*env.S", "env.S", "any", "string"} {
			yield(Assert(a.E, t))
			e2 := Assert(a.E, t)
			e2.Lhs = 2
			yield(e2)
		}
	}
	// composite literals
	for _, a := range atoms {
		yield(&E{K: KSliceLit, T: "[]int", A: []*E{a.E}})
		yield(&E{K: KSliceLit, T: "[]int8", A: []*E{a.E}})
		yield(&E{K: KSliceLit, T: "[]string", A: []*E{a.E}})
		yield(&E{K: KSliceLit, T: "[]any", A: []*E{a.E}})
		yield(&E{K: KSliceLit, T: "[]float32", A: []*E{a.E}})
		yield(&E{K: KSliceLit, T: "env.Sl", A: []*E{a.E}})
		yield(&E{K: KArrayLit, T: "[3]int", A: []*E{a.E}})
		yield(&E{K: KArrayLit, T: "[3]uint8", A: []*E{a.E, a.E}})
		yield(&E{K: KArrayLit, T: "[...]string", A: []*E{a.E}})
		yield(&E{K: KMapLit, T: "map[string]int", A: []*E{a.E, Lit(token.INT, "1")}})
		yield(&E{K: KMapLit, T: "map[string]int", A: []*E{Lit(token.STRING, `"k"`), a.E}})
		yield(&E{K: KMapLit, T: "map[int]string", A: []*E{a.E, Lit(token.STRING, `"v"`)}})
		yield(&E{K: KMapLit, T: "map[string]int8", A: []*E{Lit(token.STRING, `"k"`), a.E}})
		yield(&E{K: KMapLit, T: "env.Mp", A: []*E{Lit(token.STRING, `"k"`), a.E}})
		yield(&E{K: KStructLit, T: "env.S", A: []*E{a.E, Lit(token.STRING, `"y"`), Nil()}})
		yield(&E{K: KStructLit, T: "env.S", A: []*E{Lit(token.INT, "1"), a.E, Nil()}})
		yield(&E{K: KStructLit, T: "env.S", A: []*E{Lit(token.INT, "1"), Lit(token.STRING, `"y"`), a.E}})
	}
	yield(&E{K: KStructLit, T: "env.S"})
	yield(&E{K: KStructLit, T: "env.S", A: []*E{Lit(token.INT, "1")}})
	yield(&E{K: KSliceLit, T: "[]int"})
	yield(&E{K: KMapLit, T: "map[string]int"})
	yield(&E{K: KArrayLit, T: "[3]int", A: []*E{Lit(token.INT, "1"), Lit(token.INT, "2"), Lit(token.INT, "3"), Lit(token.INT, "4")}})
	yield(&E{K: KMapLit, T: "map[string]int", A: []*E{Lit(token.STRING, `"k"`), Lit(token.INT, "1"), Lit(token.STRING, `"k"`), Lit(token.INT, "2")}})
	// builtins with one argument
	for _, f := range []string{"len", "cap", "real", "imag", "panic", "print", "println", "close", "clear", "min", "max"} {
		for _, a := range atoms {
			yield(Call(Uni(f), a.E))
		}
	}
	// builtins with two arguments over the reduced alphabet
	for _, f := range []string{"append", "copy", "complex", "min", "max", "delete"} {
		for _, a := range red {
			for _, b := range red {
				yield(Call(Uni(f), a.E, b.E))
			}
		}
	}
	for _, a := range atoms { // append(VSl, x), append(VBytes, x...), delete(VMap,x), copy(VBytes,x), min(VInt,x)
		yield(Call(Uni("append"), Obj("VSl"), a.E))
		ae := Call(Uni("append"), Obj("VBytes"), a.E)
		ae.Ell = true
		yield(ae)
		as := Call(Uni("append"), Obj("VSl"), a.E)
		as.Ell = true
		yield(as)
		yield(Call(Uni("delete"), Obj("VMap"), a.E))
		yield(Call(Uni("delete"), Obj("VMapIS"), a.E))
		yield(Call(Uni("copy"), Obj("VBytes"), a.E))
		yield(Call(Uni("copy"), Obj("VSl"), a.E))
		yield(Call(Uni("min"), Obj("VInt"), a.E))
		yield(Call(Uni("max"), Obj("VF64"), a.E))
		yield(Call(Uni("min"), Lit(token.INT, "1"), a.E))
		yield(Call(Uni("complex"), Obj("VF64"), a.E))
		yield(Call(Uni("complex"), Lit(token.INT, "1"), a.E))
	}
	yield(Call(Uni("recover")))
	yield(Call(Uni("len")))
	yield(Call(Uni("len"), Obj("VSl"), Obj("VSl")))
	yield(Call(Uni("min")))
	// new / make
	for _, t := range []string{"int", "env.S", "[]int", "map[string]int", "chan int", "env.Sl", "env.Mp", "*int", "func()"} {
		yield(Call(Uni("new"), TypeArg(t)))
		yield(Call(Uni("make"), TypeArg(t)))
		for _, a := range red {
			yield(Call(Uni("make"), TypeArg(t), a.E))
		}
		yield(Call(Uni("make"), TypeArg(t), Lit(token.INT, "1"), Lit(token.INT, "2")))
		yield(Call(Uni("make"), TypeArg(t), Lit(token.INT, "2"), Lit(token.INT, "1")))
	}
	for _, a := range red {
		yield(Call(Uni("new"), a.E))
		yield(Call(Uni("make"), a.E))
	}
	// unsafe
	for _, a := range atoms {
		yield(&E{K: KUnsafe, Name: "Sizeof", A: []*E{a.E}})
		yield(&E{K: KUnsafe, Name: "Alignof", A: []*E{a.E}})
		yield(&E{K: KUnsafe, Name: "Offsetof", A: []*E{a.E}})
		yield(&E{K: KUnsafe, Name: "Add", A: []*E{Obj("VUP"), a.E}})
		yield(&E{K: KUnsafe, Name: "Add", A: []*E{a.E, Lit(token.INT, "1")}})
		yield(&E{K: KUnsafe, Name: "Slice", A: []*E{Obj("VPtr"), a.E}})
		yield(&E{K: KUnsafe, Name: "Slice", A: []*E{a.E, Lit(token.INT, "1")}})
		yield(&E{K: KUnsafe, Name: "SliceData", A: []*E{a.E}})
		yield(&E{K: KUnsafe, Name: "String", A: []*E{a.E, Lit(token.INT, "1")}})
		yield(&E{K: KUnsafe, Name: "StringData", A: []*E{a.E}})
	}
	yield(&E{K: KUnsafe, Name: "Offsetof", A: []*E{Sel(Obj("VS"), "Y")}})
	yield(&E{K: KUnsafe, Name: "Offsetof", A: []*E{Sel(Obj("VPS"), "Y")}})
	yield(&E{K: KUnsafe, Name: "Offsetof", A: []*E{Sel(Obj("VS"), "VM")}})
	yield(&E{K: KUnsafe, Name: "Sizeof", A: []*E{Obj("VS")}})
}

func reducedOf(atoms []Atom) []Atom {
	seen := map[string]bool{}
	var out []Atom
	for _, a := range atoms {
		if !seen[a.Class] {
			seen[a.Class] = true
			out = append(out, a)
		}
	}
	return out
}

// Depth2 enumerates binary/unary expressions whose operands are depth-1 operator expressions
// or atoms (at least one operand composite), over the given alphabets.
func Depth2(atoms []Atom, binops []token.Token, yield func(*E)) {
	var inner []*E
	Depth1(atoms, binops, func(e *E) { inner = append(inner, e) })
	// a few structural inner forms as well
	for _, a := range atoms {
		inner = append(inner, Conv("int", a.E), Conv("uint8", a.E), Conv("float64", a.E), Conv("env.M", a.E), Call(Uni("len"), a.E), Call(Obj("F1"), a.E))
	}
	for _, op := range UnOps {
		for _, in := range inner {
			yield(Un(op, in))
		}
	}
	for _, op := range binops {
		for _, in := range inner {
			for _, a := range atoms {
				yield(Bin(op, in, a.E))
				yield(Bin(op, a.E, in))
			}
		}
	}
	for _, in := range inner {
		for _, t := range []string{"int", "uint8", "int8", "float32", "string", "env.M", "float64"} {
			yield(Conv(t, in))
		}
		yield(Idx(Obj("VSl"), in))
		yield(Idx(Obj("VArr"), in))
		yield(Call(Obj("F1"), in))
		yield(Call(Obj("FI8"), in))
		yield(Call(Uni("len"), in))
		yield(&E{K: KSliceLit, T: "[]int8", A: []*E{in}})
		yield(&E{K: KUnsafe, Name: "Sizeof", A: []*E{in}})
	}
}
