// Package ex is the expression layer of the program IR: a closed grammar of Go expressions
// over an environment package, an exhaustive enumerator, a renderer to reference Go text and
// a driver that builds the same expression through gogen's CodeBuilder by the canonical
// operation sequence a compiler front end uses.
package ex

import (
	"fmt"
	"go/ast"
	"go/constant"
	"go/token"
	"go/types"
	"strings"

	"github.com/goplus/gogen"

	"verifengine/gx"
)

// EnvSrc is the environment package: every atom of the grammar is an exported object of it,
// so the reference text and the gogen build refer to pointer-identical objects.
const EnvSrc = `package env

import "unsafe"

type M int
type Str string
type F64 float64
type B bool
type U8 uint8
type S struct {
	X int
	Y string
	P *S
}
type I interface{ Meth() int }
type Sl []int
type Mp map[string]int

func (M) Meth() int { return 0 }
func (*S) PM() int  { return 0 }
func (S) VM() string { return "" }

var (
	VInt    int
	VInt8   int8
	VInt16  int16
	VInt32  int32
	VInt64  int64
	VUint   uint
	VUint8  uint8
	VUint16 uint16
	VUint32 uint32
	VUint64 uint64
	VUintptr uintptr
	VF32    float32
	VF64    float64
	VC64    complex64
	VC128   complex128
	VStr    string
	VBool   bool
	VM      M
	VMStr   Str
	VF64n   F64
	VBn     B
	VU8n    U8
	VPtr    *int
	VSl     []int
	VArr    [3]int
	VMap    map[string]int
	VCh     chan int
	VRCh    <-chan int
	VSCh    chan<- int
	VFn     func(int) int
	VS      S
	VPS     *S
	VI      I
	VAny    any
	VErr    error
	VUP     unsafe.Pointer
	VBytes  []byte
	VSlStr  []string
	VPArr   *[3]int
	VSln    Sl
	VMpn    Mp
	VMapIS  map[int]string
)

const (
	CInt     int     = 7
	CInt8Max int8    = 127
	CInt8Min int8    = -128
	CUint8Max uint8  = 255
	CUint8One uint8  = 1
	CInt32    int32  = 1
	CInt64Max int64  = 9223372036854775807
	CUint64Max uint64 = 18446744073709551615
	CUint     uint    = 3
	CStr     string  = "s"
	CF64     float64 = 1.5
	CF32     float32 = 0.5
	CC128    complex128 = 1 + 2i
	CM       M       = 3
	CBool    bool    = true
	CStrn    Str     = "n"
	CF64n    F64     = 2.5
	CRune    rune    = 'a'
	CByte    byte    = 2
)

func F0() int                  { return 0 }
func F1(int) int               { return 0 }
func F2(int, string) string    { return "" }
func FV(...int) int            { return 0 }
func FR2() (int, error)        { return 0, nil }
func FS(string) string         { return "" }
func FF(float64) float64       { return 0 }
func FN()                      {}
func FAny(any) any             { return nil }
func FI8(int8) int8            { return 0 }
func FU8(uint8) uint8          { return 0 }
func G[T any](x T) T           { return x }
`

const EnvPath = "env"

// Kind of expression node.
const (
	KLit     = "lit"     // Lit, LitKind
	KObj     = "obj"     // env object Name
	KUni     = "uni"     // universe object Name (true,false,iota-less consts, builtin funcs)
	KNil     = "nil"
	KBin     = "bin"     // Tok, A[0], A[1]
	KUn      = "un"      // Tok, A[0]   (- + ^ ! <- &)
	KStar    = "star"    // *A[0]
	KCall    = "call"    // A[0] fn, A[1:] args; Ell
	KConv    = "conv"    // T(A[0])
	KIdx     = "idx"     // A[0][A[1]]
	KSlc     = "slc"     // A[0][A[1]:A[2]] / [A[1]:A[2]:A[3]]; nil entries = absent
	KSel     = "sel"     // A[0].Name
	KAssert  = "assert"  // A[0].(T)
	KSliceLit = "slicelit" // T{A...}
	KArrayLit = "arraylit"
	KMapLit  = "maplit"  // T{A0:A1, ...}
	KStructLit = "structlit" // T{A...} positional
	KUnsafe  = "unsafe"  // unsafe.Name(A...)
	KTypeArg = "typearg" // a type used as argument (new/make): T
	KLocal   = "local"   // a local variable / parameter / label-free identifier in scope: Name
)

// E is one expression node.
type E struct {
	K       string
	Tok     token.Token
	Lit     string
	LitKind token.Token
	Name    string
	T       string // type key (see TypeByKey)
	A       []*E
	Ell     bool
	Lhs     int // 2 for comma-ok forms
}

func Lit(kind token.Token, text string) *E { return &E{K: KLit, LitKind: kind, Lit: text} }
func Obj(name string) *E                    { return &E{K: KObj, Name: name} }
func Uni(name string) *E                    { return &E{K: KUni, Name: name} }
func Nil() *E                               { return &E{K: KNil} }
func Local(name string) *E                  { return &E{K: KLocal, Name: name} }
func Bin(tok token.Token, a, b *E) *E       { return &E{K: KBin, Tok: tok, A: []*E{a, b}} }
func Un(tok token.Token, a *E) *E           { return &E{K: KUn, Tok: tok, A: []*E{a}} }
func Star(a *E) *E                          { return &E{K: KStar, A: []*E{a}} }
func Call(fn *E, args ...*E) *E             { return &E{K: KCall, A: append([]*E{fn}, args...)} }
func Conv(t string, a *E) *E                { return &E{K: KConv, T: t, A: []*E{a}} }
func Idx(x, i *E) *E                        { return &E{K: KIdx, A: []*E{x, i}} }
func Sel(x *E, name string) *E              { return &E{K: KSel, Name: name, A: []*E{x}} }
func Assert(x *E, t string) *E              { return &E{K: KAssert, T: t, A: []*E{x}} }
func TypeArg(t string) *E                   { return &E{K: KTypeArg, T: t} }

// Size is the number of nodes.
func (e *E) Size() int {
	if e == nil {
		return 0
	}
	n := 1
	for _, a := range e.A {
		n += a.Size()
	}
	return n
}

// Walk visits nodes in build (post-)order.
func (e *E) Walk(f func(*E)) {
	if e == nil {
		return
	}
	for _, a := range e.A {
		a.Walk(f)
	}
	f(e)
}

// ---------------------------------------------------------------------------------------
// types by key

// TypeByKey resolves a type key against the env package / universe.
func TypeByKey(env *types.Package, key string) types.Type {
	T := types.Typ
	switch key {
	case "bool":
		return T[types.Bool]
	case "int":
		return T[types.Int]
	case "int8":
		return T[types.Int8]
	case "int16":
		return T[types.Int16]
	case "int32":
		return T[types.Int32]
	case "int64":
		return T[types.Int64]
	case "uint":
		return T[types.Uint]
	case "uint8":
		return T[types.Uint8]
	case "uint16":
		return T[types.Uint16]
	case "uint32":
		return T[types.Uint32]
	case "uint64":
		return T[types.Uint64]
	case "uintptr":
		return T[types.Uintptr]
	case "float32":
		return T[types.Float32]
	case "float64":
		return T[types.Float64]
	case "complex64":
		return T[types.Complex64]
	case "complex128":
		return T[types.Complex128]
	case "string":
		return T[types.String]
	case "unsafe.Pointer":
		return T[types.UnsafePointer]
	case "any":
		return gogen.TyAny
	case "error":
		return types.Universe.Lookup("error").Type()
	case "byte":
		return types.Universe.Lookup("byte").Type()
	case "rune":
		return types.Universe.Lookup("rune").Type()
	}
	if strings.HasPrefix(key, "*") {
		return types.NewPointer(TypeByKey(env, key[1:]))
	}
	if strings.HasPrefix(key, "[]") {
		return types.NewSlice(TypeByKey(env, key[2:]))
	}
	if strings.HasPrefix(key, "[3]") {
		return types.NewArray(TypeByKey(env, key[3:]), 3)
	}
	if strings.HasPrefix(key, "[...]") {
		return types.NewArray(TypeByKey(env, key[5:]), -1)
	}
	if strings.HasPrefix(key, "map[string]") {
		return types.NewMap(T[types.String], TypeByKey(env, key[len("map[string]"):]))
	}
	if strings.HasPrefix(key, "map[int]") {
		return types.NewMap(T[types.Int], TypeByKey(env, key[len("map[int]"):]))
	}
	if strings.HasPrefix(key, "chan ") {
		return types.NewChan(types.SendRecv, TypeByKey(env, key[5:]))
	}
	if strings.HasPrefix(key, "<-chan ") {
		return types.NewChan(types.RecvOnly, TypeByKey(env, key[7:]))
	}
	if key == "func(int) int" {
		p := types.NewParam(0, nil, "", T[types.Int])
		return types.NewSignatureType(nil, nil, nil, types.NewTuple(p), types.NewTuple(p), false)
	}
	if key == "func()" {
		return types.NewSignatureType(nil, nil, nil, nil, nil, false)
	}
	if strings.HasPrefix(key, "env.") && !strings.ContainsAny(key[4:], "[]*( ") {
		o := env.Scope().Lookup(key[4:])
		if o == nil {
			panic("ex: unknown env type " + key)
		}
		return o.Type()
	}
	if TypeEval != nil {
		if t := TypeEval(key); t != nil {
			return t
		}
	}
	panic("ex: unknown type key " + key)
}

// TypeEval, when set, resolves arbitrary type expressions (set by NewOwn).
var TypeEval func(key string) types.Type

// TypeText renders a type key as Go source.
func TypeText(key string) string { return key }

// ---------------------------------------------------------------------------------------
// rendering

var tokText = map[token.Token]string{}

// Render produces reference Go text; every composite operand is parenthesised so that the
// text is unambiguous regardless of precedence.
func (e *E) Render() string {
	var b strings.Builder
	e.render(&b, true)
	return b.String()
}

func (e *E) render(b *strings.Builder, top bool) {
	paren := func(x *E) {
		switch x.K {
		case KBin, KUn, KStar:
			b.WriteString("(")
			x.render(b, false)
			b.WriteString(")")
		default:
			x.render(b, false)
		}
	}
	switch e.K {
	case KLit:
		b.WriteString(e.Lit)
	case KObj:
		b.WriteString("env." + e.Name)
	case KUni, KLocal:
		b.WriteString(e.Name)
	case KNil:
		b.WriteString("nil")
	case KBin:
		paren(e.A[0])
		b.WriteString(" " + e.Tok.String() + " ")
		paren(e.A[1])
	case KUn:
		b.WriteString(e.Tok.String())
		if e.A[0].K == KLit && strings.HasPrefix(e.A[0].Lit, "-") {
			b.WriteString("(")
			e.A[0].render(b, false)
			b.WriteString(")")
		} else {
			paren(e.A[0])
		}
	case KStar:
		b.WriteString("*")
		paren(e.A[0])
	case KCall:
		paren(e.A[0])
		b.WriteString("(")
		for i, a := range e.A[1:] {
			if i > 0 {
				b.WriteString(", ")
			}
			a.render(b, false)
		}
		if e.Ell {
			b.WriteString("...")
		}
		b.WriteString(")")
	case KConv:
		t := TypeText(e.T)
		if strings.HasPrefix(t, "*") || strings.HasPrefix(t, "<-") || strings.HasPrefix(t, "func") || strings.HasPrefix(t, "chan") {
			t = "(" + t + ")"
		}
		b.WriteString(t + "(")
		e.A[0].render(b, false)
		b.WriteString(")")
	case KIdx:
		paren(e.A[0])
		b.WriteString("[")
		e.A[1].render(b, false)
		b.WriteString("]")
	case KSlc:
		paren(e.A[0])
		b.WriteString("[")
		for i := 1; i < len(e.A); i++ {
			if i > 1 {
				b.WriteString(":")
			}
			if e.A[i] != nil {
				e.A[i].render(b, false)
			}
		}
		b.WriteString("]")
	case KSel:
		paren(e.A[0])
		b.WriteString("." + e.Name)
	case KAssert:
		paren(e.A[0])
		b.WriteString(".(" + TypeText(e.T) + ")")
	case KSliceLit, KArrayLit, KStructLit:
		b.WriteString(TypeText(e.T) + "{")
		for i, a := range e.A {
			if i > 0 {
				b.WriteString(", ")
			}
			a.render(b, false)
		}
		b.WriteString("}")
	case KMapLit:
		b.WriteString(TypeText(e.T) + "{")
		for i := 0; i+1 < len(e.A); i += 2 {
			if i > 0 {
				b.WriteString(", ")
			}
			e.A[i].render(b, false)
			b.WriteString(": ")
			e.A[i+1].render(b, false)
		}
		b.WriteString("}")
	case KUnsafe:
		b.WriteString("unsafe." + e.Name + "(")
		for i, a := range e.A {
			if i > 0 {
				b.WriteString(", ")
			}
			a.render(b, false)
		}
		b.WriteString(")")
	case KTypeArg:
		b.WriteString(TypeText(e.T))
	default:
		panic("render: " + e.K)
	}
}

// Key is a compact structural description with atoms replaced by their kind classes;
// used for violation classes.
func (e *E) Shape(kindOf func(*E) string) string {
	var b strings.Builder
	e.shape(&b, kindOf)
	return b.String()
}

func (e *E) shape(b *strings.Builder, kindOf func(*E) string) {
	switch e.K {
	case KLit, KObj, KUni, KNil, KLocal:
		b.WriteString(kindOf(e))
		return
	case KBin:
		b.WriteString("(")
		e.A[0].shape(b, kindOf)
		b.WriteString(" " + e.Tok.String() + " ")
		e.A[1].shape(b, kindOf)
		b.WriteString(")")
		return
	case KUn:
		b.WriteString(e.Tok.String() + "(")
		e.A[0].shape(b, kindOf)
		b.WriteString(")")
		return
	case KTypeArg:
		b.WriteString("type:" + e.T)
		return
	}
	b.WriteString(e.K)
	if e.T != "" {
		b.WriteString(":" + e.T)
	}
	if e.Name != "" {
		b.WriteString(":" + e.Name)
	}
	if e.Lhs == 2 {
		b.WriteString(":2")
	}
	b.WriteString("[")
	for i, a := range e.A {
		if i > 0 {
			b.WriteString(",")
		}
		if a == nil {
			b.WriteString("-")
		} else {
			a.shape(b, kindOf)
		}
	}
	if e.Ell {
		b.WriteString("...")
	}
	b.WriteString("]")
}

// ---------------------------------------------------------------------------------------
// building through gogen

// Rec is what the driver observed for one IR node right after it was pushed.
type Rec struct {
	Type types.Type
	CVal constant.Value
	Val  ast.Expr
}

// Builder builds expressions into a CodeBuilder.
type Builder struct {
	B     *gx.Build
	Env   gogen.PkgRef
	Recs  map[*E]Rec
	Decls map[string]types.Type // type of declared objects, captured right after declaration
}

func NewBuilder(b *gx.Build) *Builder {
	return &Builder{B: b, Env: b.Pkg.Import(EnvPath), Recs: map[*E]Rec{}, Decls: map[string]types.Type{}}
}

// Decl captures the type the builder's current scope reports for name.
func (p *Builder) Decl(names ...string) {
	for _, name := range names {
		if o := p.B.Pkg.CB().Scope().Lookup(name); o != nil {
			p.Decls[name] = o.Type()
		}
	}
}

func (p *Builder) record(e *E) {
	el := p.B.Pkg.CB().Get(-1)
	p.Recs[e] = Rec{el.Type, el.CVal, el.Val}
}

func src(e *E) *gx.Src { return &gx.Src{Text: e.Render()} }

// Build pushes e on the operand stack (panics propagate to the caller's gx.Try).
func (p *Builder) Build(e *E) {
	pkg := p.B.Pkg
	cb := pkg.CB()
	switch e.K {
	case KLit:
		cb.Val(&ast.BasicLit{Kind: e.LitKind, Value: e.Lit}, src(e))
	case KObj:
		cb.Val(p.Env.Ref(e.Name), src(e))
	case KUni:
		if o := pkg.Builtin().TryRef(e.Name); o != nil {
			cb.Val(o, src(e))
		} else {
			cb.Val(types.Universe.Lookup(e.Name), src(e))
		}
	case KNil:
		cb.Val(nil, src(e))
	case KLocal:
		cb.VarVal(e.Name, src(e))
	case KBin:
		p.Build(e.A[0])
		p.Build(e.A[1])
		cb.BinaryOp(e.Tok, src(e))
	case KUn:
		p.Build(e.A[0])
		if e.Lhs == 2 {
			cb.UnaryOpEx(e.Tok, 2, src(e))
		} else {
			cb.UnaryOp(e.Tok, src(e))
		}
	case KStar:
		p.Build(e.A[0])
		cb.Star(src(e))
	case KCall:
		p.Build(e.A[0])
		for _, a := range e.A[1:] {
			p.Build(a)
		}
		var flags gogen.InstrFlags
		if e.Ell {
			flags = gogen.InstrFlagEllipsis
		}
		cb.CallWith(len(e.A)-1, e.Lhs, flags, src(e))
	case KConv:
		cb.Typ(TypeByKey(p.Env.Types, e.T), &gx.Src{Text: e.T})
		p.Build(e.A[0])
		cb.CallWith(1, 0, 0, src(e))
	case KIdx:
		p.Build(e.A[0])
		p.Build(e.A[1])
		cb.Index(1, e.Lhs, src(e))
	case KSlc:
		p.Build(e.A[0])
		for i := 1; i < len(e.A); i++ {
			if e.A[i] == nil {
				cb.None()
			} else {
				p.Build(e.A[i])
			}
		}
		cb.Slice(len(e.A) == 4, src(e))
	case KSel:
		p.Build(e.A[0])
		cb.MemberVal(e.Name, e.Lhs, src(e))
	case KAssert:
		p.Build(e.A[0])
		cb.TypeAssert(TypeByKey(p.Env.Types, e.T), e.Lhs, src(e))
	case KSliceLit:
		for _, a := range e.A {
			p.Build(a)
		}
		cb.SliceLitEx(TypeByKey(p.Env.Types, e.T), len(e.A), false, src(e))
	case KArrayLit:
		for _, a := range e.A {
			p.Build(a)
		}
		cb.ArrayLitEx(TypeByKey(p.Env.Types, e.T), len(e.A), false, src(e))
	case KMapLit:
		for _, a := range e.A {
			p.Build(a)
		}
		cb.MapLit(TypeByKey(p.Env.Types, e.T), len(e.A), src(e))
	case KStructLit:
		for _, a := range e.A {
			p.Build(a)
		}
		cb.StructLit(TypeByKey(p.Env.Types, e.T), len(e.A), false, src(e))
	case KUnsafe:
		cb.Val(pkg.Unsafe().Ref(e.Name), src(e))
		for _, a := range e.A {
			p.Build(a)
		}
		cb.CallWith(len(e.A), 0, 0, src(e))
	case KTypeArg:
		cb.Typ(TypeByKey(p.Env.Types, e.T), &gx.Src{Text: e.T})
	default:
		panic(fmt.Sprintf("build: unknown kind %q", e.K))
	}
	p.record(e)
}

// Root describes the outermost node of e (operator / form / target type), the "site" part of
// violation classes.
func (e *E) Root() string {
	switch e.K {
	case KLit, KObj, KUni, KNil, KLocal:
		return "atom:" + KindOf(e)
	case KBin:
		return "bin" + e.Tok.String()
	case KUn:
		return "un" + e.Tok.String()
	case KCall:
		f := e.A[0]
		s := "call:" + f.K
		if f.Name != "" {
			s = "call:" + f.Name
		}
		if e.Ell {
			s += "..."
		}
		return s + "/" + string(rune('0'+len(e.A)-1))
	case KConv:
		return "conv:" + e.T
	case KUnsafe:
		return "unsafe." + e.Name
	case KSel:
		return "sel." + e.Name
	}
	s := e.K
	if e.T != "" {
		s += ":" + e.T
	}
	if e.Lhs == 2 {
		s += ",ok"
	}
	return s
}

// Unparen strips parentheses.
func Unparen(a ast.Expr) ast.Expr {
	for {
		p, ok := a.(*ast.ParenExpr)
		if !ok {
			return a
		}
		a = p.X
	}
}

// Match walks IR e and syntax a in parallel (parentheses ignored) and calls f for every pair
// whose shapes correspond. It returns false at the first structural divergence (e.g. a
// sub-expression the builder replaced by its folded value); pairs visited before are kept.
func Match(e *E, a ast.Expr, f func(*E, ast.Expr)) bool {
	a = Unparen(a)
	ok := true
	sub := func(e2 *E, a2 ast.Expr) {
		if e2 == nil && a2 == nil {
			return
		}
		if e2 == nil || a2 == nil || !Match(e2, a2, f) {
			ok = false
		}
	}
	switch e.K {
	case KLit:
		if _, is := a.(*ast.BasicLit); !is {
			return false
		}
	case KObj:
		s, is := a.(*ast.SelectorExpr)
		if !is || s.Sel.Name != e.Name {
			return false
		}
	case KUni, KNil, KLocal:
		id, is := a.(*ast.Ident)
		if !is || (e.K != KNil && id.Name != e.Name) || (e.K == KNil && id.Name != "nil") {
			return false
		}
	case KBin:
		b, is := a.(*ast.BinaryExpr)
		if !is || b.Op != e.Tok {
			return false
		}
		sub(e.A[0], b.X)
		sub(e.A[1], b.Y)
	case KUn:
		u, is := a.(*ast.UnaryExpr)
		if !is || u.Op != e.Tok {
			return false
		}
		sub(e.A[0], u.X)
	case KStar:
		s, is := a.(*ast.StarExpr)
		if !is {
			return false
		}
		sub(e.A[0], s.X)
	case KCall, KUnsafe:
		c, is := a.(*ast.CallExpr)
		if !is {
			return false
		}
		args := e.A
		if e.K == KCall {
			sub(e.A[0], c.Fun)
			args = e.A[1:]
		}
		if len(args) != len(c.Args) {
			return false
		}
		for i := range args {
			if args[i].K == KTypeArg {
				continue
			}
			sub(args[i], c.Args[i])
		}
	case KConv:
		c, is := a.(*ast.CallExpr)
		if !is || len(c.Args) != 1 {
			return false
		}
		sub(e.A[0], c.Args[0])
	case KIdx:
		x, is := a.(*ast.IndexExpr)
		if !is {
			return false
		}
		sub(e.A[0], x.X)
		sub(e.A[1], x.Index)
	case KSlc:
		x, is := a.(*ast.SliceExpr)
		if !is {
			return false
		}
		sub(e.A[0], x.X)
		var parts = []ast.Expr{x.Low, x.High, x.Max}
		for i := 1; i < len(e.A); i++ {
			sub(e.A[i], parts[i-1])
		}
	case KSel:
		s, is := a.(*ast.SelectorExpr)
		if !is {
			return false
		}
		sub(e.A[0], s.X)
	case KAssert:
		t, is := a.(*ast.TypeAssertExpr)
		if !is {
			return false
		}
		sub(e.A[0], t.X)
	case KSliceLit, KArrayLit, KStructLit:
		c, is := a.(*ast.CompositeLit)
		if !is || len(c.Elts) != len(e.A) {
			return false
		}
		for i := range e.A {
			sub(e.A[i], c.Elts[i])
		}
	case KMapLit:
		c, is := a.(*ast.CompositeLit)
		if !is || len(c.Elts)*2 != len(e.A) {
			return false
		}
		for i, el := range c.Elts {
			kv, is := el.(*ast.KeyValueExpr)
			if !is {
				return false
			}
			sub(e.A[2*i], kv.Key)
			sub(e.A[2*i+1], kv.Value)
		}
	case KTypeArg:
		return true
	default:
		return false
	}
	if ok {
		f(e, a)
	}
	return ok
}

// RootExpr finds the expression planted by the simple uses in the function f of a checked file:
// blank: `_ = e`, define/var/const: first value of the first declaration/assignment.
func RootExpr(files []*ast.File) ast.Expr {
	for _, f := range files {
		for _, d := range f.Decls {
			fd, ok := d.(*ast.FuncDecl)
			if !ok || fd.Name.Name != "f" || fd.Body == nil || len(fd.Body.List) == 0 {
				continue
			}
			switch s := fd.Body.List[0].(type) {
			case *ast.AssignStmt:
				if len(s.Rhs) >= 1 {
					return s.Rhs[0]
				}
			case *ast.DeclStmt:
				if gd, ok := s.Decl.(*ast.GenDecl); ok && len(gd.Specs) == 1 {
					if vs, ok := gd.Specs[0].(*ast.ValueSpec); ok && len(vs.Values) >= 1 {
						return vs.Values[0]
					}
				}
			case *ast.ReturnStmt:
				if len(s.Results) == 1 {
					return s.Results[0]
				}
			case *ast.ExprStmt:
				return s.X
			}
		}
	}
	return nil
}
