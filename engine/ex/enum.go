package ex

import "go/token"

// Plan enumerates the (expression, use) pairs of a tier in a fixed order.
// Filter may drop uses (by name) a property does not need.
type Plan struct {
	Thorough bool
	UseOK    func(u *Use) bool // nil = all
}

func small() []Atom {
	want := []string{"lit:int:small", "lit:float:frac", "lit:string", "var:int", "var:uint8", "var:float64", "const:int8:max", "lit:int:huge"}
	var out []Atom
	for _, w := range want {
		for _, a := range Atoms {
			if a.Class == w {
				out = append(out, a)
				break
			}
		}
	}
	return out
}

// Each calls yield for every pair of the plan. stage names the sub-space (for tallies).
func (p Plan) Each(yield func(stage string, e *E, u *Use)) {
	uses := Uses()
	ok := func(u *Use) bool { return p.UseOK == nil || p.UseOK(u) }
	basic := []*Use{}
	for _, u := range uses {
		if (u.Name == "blank" || u.Name == "define") && ok(u) {
			basic = append(basic, u)
		}
	}
	var all []*Use
	for _, u := range uses {
		if ok(u) {
			all = append(all, u)
		}
	}
	// (a) every single-operator expression over the full alphabet, in the basic uses
	emitA := func(e *E) {
		for _, u := range basic {
			yield("a:depth1-full", e, u)
		}
	}
	Depth1(Atoms, BinOps, emitA)
	Forms(Atoms, emitA)
	// (b) atoms and single-operator expressions over the tiny alphabet in every use
	tiny := Tiny()
	emitB := func(e *E) {
		for _, u := range all {
			if u.Name == "blank" || u.Name == "define" {
				continue // covered by (a) only when the atom sets coincide; keep both for atoms
			}
			yield("b:depth1-alluses", e, u)
		}
	}
	for _, a := range Atoms {
		for _, u := range all {
			yield("b:atom-alluses", a.E, u)
		}
	}
	Depth1(tiny, BinOps, emitB)
	Forms(tiny, emitB)
	// (c) depth 2
	var d2atoms []Atom
	var d2ops []token.Token
	if p.Thorough {
		d2atoms, d2ops = tiny, BinOps
	} else {
		d2atoms, d2ops = small(), BinOpReps
	}
	Depth2(d2atoms, d2ops, func(e *E) {
		for _, u := range basic[:1] {
			yield("c:depth2", e, u)
		}
	})
}
