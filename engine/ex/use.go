package ex

import (
	"fmt"
	"go/constant"
	"go/token"
	"go/types"
	"strings"

	"github.com/goplus/gogen"

	"verifengine/fixture"
	"verifengine/gx"
	"verifengine/oracle"
)

// Use is a use context: it places one expression inside a function body, both as reference
// text and as the builder operations a front end would issue.
type Use struct {
	Name   string
	Render func(es string) string // statements of the function body
	Build  func(b *Builder, e *E) // builder operations inside the open function body
	Result string                 // result type key of the enclosing function ("" = none)
	// Root returns how to find the expression in the emitted/ reference function body:
	// the ordinal of the statement and an extractor is derived generically (see FindRoot).
}

func tkey(b *Builder, key string) types.Type { return TypeByKey(b.Env.Types, key) }

func blankUse(b *Builder, name string) {
	cb := b.B.Pkg.CB()
	cb.VarRef(nil).VarVal(name).Assign(1).EndStmt()
}

var varTypes = []string{"int", "int8", "uint8", "uint", "float32", "float64", "complex128", "string", "bool", "any", "env.M", "env.Str", "env.F64", "[]int", "*int", "error", "env.I", "func(int) int", "unsafe.Pointer", "uintptr", "int64", "[]byte"}
var assignTypes = []string{"int", "uint8", "float64", "string", "any", "env.M", "*int", "bool"}
var returnTypes = []string{"int", "int8", "float32", "string", "any", "env.M", "error", "bool"}

// Uses lists every use context, simplest first.
func Uses() []*Use {
	var us []*Use
	us = append(us, &Use{
		Name:   "blank",
		Render: func(es string) string { return "_ = " + es },
		Build: func(b *Builder, e *E) {
			cb := b.B.Pkg.CB()
			cb.VarRef(nil)
			b.Build(e)
			cb.Assign(1).EndStmt()
		},
	})
	us = append(us, &Use{
		Name:   "define",
		Render: func(es string) string { return "x := " + es + "\n_ = x" },
		Build: func(b *Builder, e *E) {
			cb := b.B.Pkg.CB()
			cb.DefineVarStart(token.NoPos, "x")
			b.Build(e)
			cb.EndInit(1)
			b.Decl("x")
			blankUse(b, "x")
		},
	})
	us = append(us, &Use{
		Name:   "var-infer",
		Render: func(es string) string { return "var x = " + es + "\n_ = x" },
		Build: func(b *Builder, e *E) {
			cb := b.B.Pkg.CB()
			cb.NewVarStart(nil, "x")
			b.Build(e)
			cb.EndInit(1)
			b.Decl("x")
			blankUse(b, "x")
		},
	})
	for _, t := range varTypes {
		t := t
		us = append(us, &Use{
			Name:   "var:" + t,
			Render: func(es string) string { return "var x " + t + " = " + es + "\n_ = x" },
			Build: func(b *Builder, e *E) {
				cb := b.B.Pkg.CB()
				cb.NewVarStart(tkey(b, t), "x")
				b.Build(e)
				cb.EndInit(1)
				blankUse(b, "x")
			},
		})
	}
	for _, t := range assignTypes {
		t := t
		us = append(us, &Use{
			Name:   "assign:" + t,
			Render: func(es string) string { return "var x " + t + "\nx = " + es },
			Build: func(b *Builder, e *E) {
				cb := b.B.Pkg.CB()
				cb.NewVar(tkey(b, t), "x")
				cb.VarRef(cb.Scope().Lookup("x"))
				b.Build(e)
				cb.Assign(1).EndStmt()
			},
		})
	}
	for _, op := range []token.Token{token.ADD_ASSIGN, token.SUB_ASSIGN, token.QUO_ASSIGN, token.REM_ASSIGN, token.AND_ASSIGN, token.SHL_ASSIGN, token.AND_NOT_ASSIGN} {
		for _, t := range []string{"int", "uint8", "float64", "string", "env.M"} {
			op, t := op, t
			us = append(us, &Use{
				Name:   "opassign:" + t + op.String(),
				Render: func(es string) string { return "var x " + t + "\nx " + op.String() + " " + es },
				Build: func(b *Builder, e *E) {
					cb := b.B.Pkg.CB()
					cb.NewVar(tkey(b, t), "x")
					cb.VarRef(cb.Scope().Lookup("x"))
					b.Build(e)
					cb.AssignOp(op).EndStmt()
				},
			})
		}
	}
	for _, t := range returnTypes {
		t := t
		us = append(us, &Use{
			Name: "return:" + t, Result: t,
			Render: func(es string) string { return "return " + es },
			Build: func(b *Builder, e *E) {
				cb := b.B.Pkg.CB()
				b.Build(e)
				cb.Return(1)
			},
		})
	}
	us = append(us, &Use{
		Name:   "send",
		Render: func(es string) string { return "env.VCh <- " + es },
		Build: func(b *Builder, e *E) {
			cb := b.B.Pkg.CB()
			cb.Val(b.Env.Ref("VCh"))
			b.Build(e)
			cb.Send().EndStmt()
		},
	})
	us = append(us, &Use{
		Name:   "send-to",
		Render: func(es string) string { return es + " <- 1" },
		Build: func(b *Builder, e *E) {
			cb := b.B.Pkg.CB()
			b.Build(e)
			cb.Val(1).Send().EndStmt()
		},
	})
	us = append(us, &Use{
		Name:   "if",
		Render: func(es string) string { return "if " + es + " {\n}" },
		Build: func(b *Builder, e *E) {
			cb := b.B.Pkg.CB()
			cb.If()
			b.Build(e)
			cb.Then().End()
		},
	})
	us = append(us, &Use{
		Name:   "for",
		Render: func(es string) string { return "for " + es + " {\n}" },
		Build: func(b *Builder, e *E) {
			cb := b.B.Pkg.CB()
			cb.For()
			b.Build(e)
			cb.Then().End()
		},
	})
	us = append(us, &Use{
		Name:   "switch-tag",
		Render: func(es string) string { return "switch " + es + " {\n}" },
		Build: func(b *Builder, e *E) {
			cb := b.B.Pkg.CB()
			cb.Switch()
			b.Build(e)
			cb.Then().End()
		},
	})
	for _, tag := range []string{"VInt", "VStr", "VAny", "VUint8", "VF64", "VM", "VPtr", "VBool"} {
		tag := tag
		us = append(us, &Use{
			Name:   "case:" + tag,
			Render: func(es string) string { return "switch env." + tag + " {\ncase " + es + ":\n}" },
			Build: func(b *Builder, e *E) {
				cb := b.B.Pkg.CB()
				cb.Switch().Val(b.Env.Ref(tag)).Then()
				cb.Case()
				b.Build(e)
				cb.Then().End()
				cb.End()
			},
		})
	}
	us = append(us, &Use{
		Name:   "case-notag",
		Render: func(es string) string { return "switch {\ncase " + es + ":\n}" },
		Build: func(b *Builder, e *E) {
			cb := b.B.Pkg.CB()
			cb.Switch().None().Then()
			cb.Case()
			b.Build(e)
			cb.Then().End()
			cb.End()
		},
	})
	us = append(us, &Use{
		Name:   "range0",
		Render: func(es string) string { return "for range " + es + " {\n}" },
		Build: func(b *Builder, e *E) {
			cb := b.B.Pkg.CB()
			cb.ForRange()
			b.Build(e)
			cb.RangeAssignThen(token.NoPos).End()
		},
	})
	us = append(us, &Use{
		Name:   "range1",
		Render: func(es string) string { return "for k := range " + es + " {\n_ = k\n}" },
		Build: func(b *Builder, e *E) {
			cb := b.B.Pkg.CB()
			cb.ForRange("k")
			b.Build(e)
			cb.RangeAssignThen(token.NoPos)
			b.Decl("k")
			blankUse(b, "k")
			cb.End()
		},
	})
	us = append(us, &Use{
		Name:   "range2",
		Render: func(es string) string { return "for k, v := range " + es + " {\n_ = k\n_ = v\n}" },
		Build: func(b *Builder, e *E) {
			cb := b.B.Pkg.CB()
			cb.ForRange("k", "v")
			b.Build(e)
			cb.RangeAssignThen(token.NoPos)
			b.Decl("k", "v")
			blankUse(b, "k")
			blankUse(b, "v")
			cb.End()
		},
	})
	us = append(us, &Use{
		Name:   "range-assign",
		Render: func(es string) string { return "var k int\nvar v string\nfor k, v = range " + es + " {\n}" },
		Build: func(b *Builder, e *E) {
			cb := b.B.Pkg.CB()
			cb.NewVar(types.Typ[types.Int], "k").NewVar(types.Typ[types.String], "v")
			k, v := cb.Scope().Lookup("k"), cb.Scope().Lookup("v")
			cb.ForRange().VarRef(k).VarRef(v)
			b.Build(e)
			cb.RangeAssignThen(token.NoPos).End()
		},
	})
	us = append(us, &Use{
		Name:   "const",
		Render: func(es string) string { return "const c = " + es + "\n_ = c" },
		Build: func(b *Builder, e *E) {
			cb := b.B.Pkg.CB()
			cb.NewConstStart(nil, "c")
			b.Build(e)
			cb.EndInit(1)
			b.Decl("c")
			blankUse(b, "c")
		},
	})
	for _, t := range []string{"int8", "uint8", "int", "float32", "string", "env.M", "bool", "uint"} {
		t := t
		us = append(us, &Use{
			Name:   "const:" + t,
			Render: func(es string) string { return "const c " + t + " = " + es + "\n_ = c" },
			Build: func(b *Builder, e *E) {
				cb := b.B.Pkg.CB()
				cb.NewConstStart(tkey(b, t), "c")
				b.Build(e)
				cb.EndInit(1)
				blankUse(b, "c")
			},
		})
	}
	us = append(us, &Use{
		Name:   "exprstmt",
		Render: func(es string) string { return es },
		Build: func(b *Builder, e *E) {
			cb := b.B.Pkg.CB()
			b.Build(e)
			cb.EndStmt()
		},
	})
	us = append(us, &Use{
		Name:   "defer",
		Render: func(es string) string { return "defer " + es },
		Build: func(b *Builder, e *E) {
			cb := b.B.Pkg.CB()
			b.Build(e)
			cb.Defer()
		},
	})
	us = append(us, &Use{
		Name:   "go",
		Render: func(es string) string { return "go " + es },
		Build: func(b *Builder, e *E) {
			cb := b.B.Pkg.CB()
			b.Build(e)
			cb.Go()
		},
	})
	us = append(us, &Use{
		Name:   "define2",
		Render: func(es string) string { return "x, y := " + es + "\n_, _ = x, y" },
		Build: func(b *Builder, e *E) {
			cb := b.B.Pkg.CB()
			cb.DefineVarStart(token.NoPos, "x", "y")
			b.Build(e)
			cb.EndInit(1)
			b.Decl("x", "y")
			cb.VarRef(nil).VarRef(nil).VarVal("x").VarVal("y").Assign(2).EndStmt()
		},
	})
	us = append(us, &Use{
		Name:   "arg-any",
		Render: func(es string) string { return "env.FAny(" + es + ")" },
		Build: func(b *Builder, e *E) {
			cb := b.B.Pkg.CB()
			cb.Val(b.Env.Ref("FAny"))
			b.Build(e)
			cb.Call(1).EndStmt()
		},
	})
	return us
}

// UseByName looks a context up.
func UseByName(name string) *Use {
	for _, u := range Uses() {
		if u.Name == name {
			return u
		}
	}
	return nil
}

// Run is the complete record of one (expression, context) execution.
type Run struct {
	E        *E
	U        *Use
	Outcome  gx.Outcome
	Errs     []string
	Accepted bool
	Recs     map[*E]Rec
	Decls    map[string]types.Type
	Texts    map[string]string
	WriteErr string
	Emitted  *oracle.Checked // nil unless accepted and written
	RefSrc   string
	Ref      *oracle.Checked
	Build    *gx.Build
}

// Importer returns the closed-world importer holding the env package.
func Importer(extra map[string]string) *fixture.Importer {
	src := map[string]string{EnvPath: EnvSrc}
	for k, v := range extra {
		src[k] = v
	}
	return fixture.New(src, false)
}

// RefSource renders the reference program for e in use u.
func RefSource(e *E, u *Use) string {
	var b strings.Builder
	b.WriteString("package p\n\nimport (\n\t\"env\"\n\t\"unsafe\"\n)\n\nvar _ unsafe.Pointer\nvar _ = env.VInt\n\n")
	res := ""
	if u.Result != "" {
		res = " " + u.Result
	}
	fmt.Fprintf(&b, "func f()%s {\n%s\n}\n", res, u.Render(e.Render()))
	return b.String()
}

// Exec builds e in context u in a fresh package, writes it, and runs the oracle on both
// the emitted text and the reference text.
func Exec(imp *fixture.Importer, e *E, u *Use, opt gx.Options, wantRef bool) *Run {
	r := &Run{E: e, U: u}
	b := gx.New(imp, opt)
	r.Build = b
	var eb *Builder
	r.Outcome = gx.Try(func() {
		pkg := b.Pkg
		eb = NewBuilder(b)
		var results *types.Tuple
		if u.Result != "" {
			results = types.NewTuple(pkg.NewParam(token.NoPos, "", TypeByKey(eb.Env.Types, u.Result), false))
		}
		pkg.NewFunc(nil, "f", nil, results, false).BodyStart(pkg)
		u.Build(eb, e)
		pkg.CB().End()
	})
	r.Errs = b.Errs
	if eb != nil {
		r.Recs = eb.Recs
		r.Decls = eb.Decls
	}
	r.Accepted = b.Accepted(r.Outcome)
	if r.Accepted {
		texts, err := oracle.WriteAll(b.Pkg)
		r.Texts = texts
		if err != nil {
			r.WriteErr = err.Error()
		} else {
			r.Emitted = oracle.Check(texts, imp, gx.PkgPath)
		}
	}
	if wantRef {
		r.RefSrc = RefSource(e, u)
		r.Ref = oracle.CheckSrc(r.RefSrc, imp, gx.PkgPath)
	}
	return r
}

var _ = gogen.TyAny

// SelfCheck re-executes a run on the unshared InitBuiltin path and describes any difference
// in observations ("" = identical). A difference means the accelerator is unsound for this
// tree; callers treat it as a hard harness error, never as a property verdict.
func SelfCheck(imp *fixture.Importer, r *Run, opt gx.Options) string {
	opt.RealBuiltin = true
	r2 := Exec(imp, r.E, r.U, opt, false)
	if r.Accepted != r2.Accepted || r.Outcome.Msg != r2.Outcome.Msg || strings.Join(r.Errs, "\n") != strings.Join(r2.Errs, "\n") {
		return fmt.Sprintf("shared-builtin run differs from real run for `%s` in %s: accepted %v/%v panic %q/%q errs %v/%v",
			r.E.Render(), r.U.Name, r.Accepted, r2.Accepted, r.Outcome.Msg, r2.Outcome.Msg, r.Errs, r2.Errs)
	}
	for k, t := range r.Texts {
		if r2.Texts[k] != t {
			return fmt.Sprintf("shared-builtin run emits different text for `%s` in %s", r.E.Render(), r.U.Name)
		}
	}
	for e, rec := range r.Recs {
		rec2, ok := r2.Recs[e]
		if !ok || oracle.TypeStr(rec.Type) != oracle.TypeStr(rec2.Type) || (rec.CVal == nil) != (rec2.CVal == nil) ||
			(rec.CVal != nil && !sameConst(rec.CVal, rec2.CVal)) {
			return fmt.Sprintf("shared-builtin run records a different type/value for a sub-expression of `%s` in %s", r.E.Render(), r.U.Name)
		}
	}
	return ""
}

func sameConst(a, b constant.Value) bool {
	if a.Kind() != b.Kind() {
		return false
	}
	switch a.Kind() {
	case constant.Int, constant.Float, constant.Complex, constant.String, constant.Bool:
		return constant.Compare(a, token.EQL, b)
	}
	return true
}

// Own evaluates an expression text on its own (no context conversion) in a package that
// imports env (and unsafe): go/types' own type and constant value of the expression —
// untyped stays untyped.
type Own struct {
	fset *token.FileSet
	pkg  *types.Package
	pos  token.Pos
}

func NewOwn(imp *fixture.Importer) *Own {
	src := "package p\n\nimport (\n\t\"env\"\n\t\"unsafe\"\n)\n\nvar _ unsafe.Pointer\n\nfunc g() {\n\t_ = env.VInt\n}\n"
	c := oracle.CheckSrc(src, imp, gx.PkgPath)
	if !c.OK() {
		panic("ex.NewOwn: " + c.ErrString())
	}
	var pos token.Pos
	for _, f := range c.Files {
		pos = f.End() - 3
	}
	o := &Own{c.Fset, c.Pkg, pos}
	cache := map[string]types.Type{}
	TypeEval = func(key string) types.Type {
		if t, ok := cache[key]; ok {
			return t
		}
		tv, err := o.Eval(key)
		if err != nil || !tv.IsType() {
			return nil
		}
		cache[key] = tv.Type
		return tv.Type
	}
	return o
}

func (o *Own) Eval(text string) (types.TypeAndValue, error) {
	return types.Eval(o.fset, o.pkg, o.pos, text)
}
