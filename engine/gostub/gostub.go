// Package gostub is the scripted `go list -export` used by the C20 harness: as the executable cmd/gostub
// (first on PATH) and, through the process seam of the build overlay, in-process.
package gostub

import (
	"bufio"
	"fmt"
	"io"
	"os"
	"path/filepath"
	"strings"
)

type Pkg struct {
	Ver  string
	Deps []string
}

// World is the scripted state of the module graph.
type World struct {
	Dir       string // directory for export files
	Fail      string // the command fails with this message on stderr
	Malformed bool   // the command prints a line that is no listing
	Omit      map[string]bool
	Pkgs      map[string]*Pkg
}

// Read parses a world file:
//
//	dir <directory>
//	fail <message>
//	malformed
//	omit <path>
//	pkg <path> <version> <dep>...
func Read(file string) (*World, error) {
	f, err := os.Open(file)
	if err != nil {
		return nil, err
	}
	defer f.Close()
	w := &World{Omit: map[string]bool{}, Pkgs: map[string]*Pkg{}}
	sc := bufio.NewScanner(f)
	for sc.Scan() {
		fs := strings.Fields(sc.Text())
		if len(fs) == 0 {
			continue
		}
		switch fs[0] {
		case "dir":
			w.Dir = fs[1]
		case "fail":
			w.Fail = strings.Join(fs[1:], " ")
		case "malformed":
			w.Malformed = true
		case "omit":
			w.Omit[fs[1]] = true
		case "pkg":
			w.Pkgs[fs[1]] = &Pkg{Ver: fs[2], Deps: fs[3:]}
		}
	}
	return w, nil
}

// List answers `go list -f=... [-tags=...] -export <pkg>...` (args without the program name); it returns
// the exit status. "Building" a package writes its export file <dir>/<path>-<version>[-<dep>@<v>...].a whose
// content names the versions it was built from.
func List(w *World, args []string, stdout, stderr io.Writer) int {
	if len(args) == 0 || args[0] != "list" {
		fmt.Fprintln(stderr, "gostub: only `go list` is scripted")
		return 2
	}
	var want []string
	seenExport := false
	for _, a := range args[1:] {
		if a == "-export" {
			seenExport = true
			continue
		}
		if seenExport {
			want = append(want, a)
		}
	}
	if w.Fail != "" {
		fmt.Fprintln(stderr, w.Fail)
		return 1
	}
	if w.Malformed {
		fmt.Fprintln(stdout, "this is not a listing")
		return 0
	}
	for _, p := range want {
		if w.Omit[p] {
			continue
		}
		pk, ok := w.Pkgs[p]
		if !ok {
			fmt.Fprintf(stderr, "package %s is not in std\n", p)
			return 1
		}
		name := strings.ReplaceAll(p, "/", "_") + "-" + pk.Ver
		content := p + "@" + pk.Ver
		for _, d := range pk.Deps {
			if dp, ok := w.Pkgs[d]; ok {
				name += "-" + strings.ReplaceAll(d, "/", "_") + "@" + dp.Ver
				content += " " + d + "@" + dp.Ver
			}
		}
		file := filepath.Join(w.Dir, name+".a")
		if err := os.WriteFile(file, []byte(content), 0o644); err != nil {
			fmt.Fprintln(stderr, "gostub:", err)
			return 2
		}
		fmt.Fprintf(stdout, "%s\t%s\t[%s]\n", p, file, strings.Join(pk.Deps, " "))
	}
	return 0
}
