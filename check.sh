#!/bin/bash
# usage: check.sh <property id> [quick|thorough] [extra vcheck flags...]
# Rebuilds the instrumentation overlay and the checker from /repo's current working tree,
# then runs the check. Exit 0: property held on everything explored; 1: VIOLATION line printed.
set -u
ID="$1"; TIER="${2:-${VERIF_TIER:-quick}}"; shift; shift 2>/dev/null || true
export GOFLAGS=-mod=mod GOPROXY=off GOSUMDB=off GOTOOLCHAIN=local CGO_ENABLED=0
ROOT=/verif
mkdir -p $ROOT/.bin $ROOT/.gen $ROOT/.run $ROOT/evidence
cd $ROOT/engine || exit 2
# 1. overlay generator (built once; rebuilt when its source changes)
if [ ! -x $ROOT/.bin/ovgen ] || [ $ROOT/tools/ovgen/main.go -nt $ROOT/.bin/ovgen ]; then
  (cd $ROOT/tools/ovgen && go build -o $ROOT/.bin/ovgen.$$ . && mv $ROOT/.bin/ovgen.$$ $ROOT/.bin/ovgen) || { echo "ovgen build failed" >&2; exit 2; }
fi
GEN=$ROOT/.gen/$ID-$TIER
mkdir -p $GEN
OVFLAGS=""
[ "$ID" = "C20" ] && OVFLAGS="-yieldall packages/cache"   # scheduling points at every function of the cache package
[ "$ID" = "C18" ] && OVFLAGS="-yields"   # scheduling points at every library function that touches a package-level variable
$ROOT/.bin/ovgen -repo /repo -out $GEN $OVFLAGS || { echo "ovgen failed" >&2; exit 2; }
# 2. checker, against /repo's working tree + overlay (build tag verif)
BIN=$ROOT/.bin/vcheck-$ID-$TIER
go build -tags verif -overlay $GEN/overlay.json -o $BIN ./cmd/vcheck || { echo "build of vcheck against /repo failed" >&2; exit 2; }
if [ "$ID" = "C20" ]; then
  # the stub `go` executable the cache's listing command resolves to (first on PATH inside the checker)
  mkdir -p $ROOT/.bin/gostub-$TIER
  go build -o $ROOT/.bin/gostub-$TIER/go ./cmd/gostub || { echo "build of the go stub failed" >&2; exit 2; }
  export VERIF_GOSTUB_DIR=$ROOT/.bin/gostub-$TIER
fi
if [ "$ID" = "C18" ] || [ "$ID" = "C20" ]; then
  # the same checker under the race detector, for the free-running pass (the cooperative scheduler's hand-offs
  # are happens-before edges, so races are only visible without it)
  if CGO_ENABLED=1 go build -race -tags verif -overlay $GEN/overlay.json -o $BIN-race ./cmd/vcheck; then
    export VERIF_RACE_BIN=$BIN-race
  else
    echo "race build of vcheck failed: stage C (race detector) is skipped and reported as a cap" >&2
  fi
fi
export VERIF_GEN=$GEN
exec $BIN -tier "$TIER" "$@" "$ID"
